"""C19 — SDP answers and AVDTP/AVCTP messages are reassembled exactly across PDUs; AVDTP
stream procedures leave both ends in the same state.

Monitors
  sdp        1-3 bumble SDP clients (each on its own ACL link, own L2CAP MTU) against one
             bumble SDP server holding a generated record table; results of the client API
             compared with an independent matcher/filter over the table (vlib/ref_sdp.py);
             wire monitor on the server's host boundary: every response leaves on the link
             its request came in on, carries that request's transaction id, fits the
             client's MTU
  avdtp-chan two avdtp.Protocol objects over a real L2CAP channel with MTU 48..1024 per
             side: message delivered by the receiving assembler == message sent (expected
             bytes written from the AVDTP spec), wire fragments re-assembled by an
             independent reassembler and bounded by the receiver's MTU
  avdtp-asm  avdtp.MessageAssembler fed harness-built trains with dropped / duplicated /
             relabelled / stray / truncated fragments, each followed by good messages
  avctp-asm  avctp.MessageAssembler fed spec-conformant trains (PID in START only) and broken
             trains; avctp-chan feeds them through a real L2CAP channel into avctp.Protocol
  stream     source and sink endpoints on two devices; operation sequences from the
             initiator (Stream API) and raw signalling commands against the acceptor;
             Stream.state on both ends against the AVDTP state table
  stream-refuse  the initiator walks LEGAL procedures through the Stream API while the peer REFUSES some (the sink
             application answers configure / open / start / suspend / close / reconfigure with a reject; the sink is held
             by ANOTHER local source when configure arrives): the call raises, the LOCAL and the remote state and in_use
             are unchanged, the same procedure then succeeds, and a whole cycle on the same end-points follows
SDP results are judged on VALUES as well as bytes: the public fields (type, value, value_size) of every returned
data element are read into the reference's form and compared with the generated record (a parsed element's bytes are a
cached copy of what was received); records hold every scalar type x width 1..16 octets at boundary values (signed
negative / min / max, unsigned max, UUID 16/32/128), directly and nested in sequences and alternatives.
"""
from __future__ import annotations

import asyncio
import itertools
import random
import struct

from vlib import ref_sdp as rs
from vlib import vloop
from vlib.result import R

ID = 'C19'
LEVEL = 'exploration'
RULE = ('seeded cases. sdp: (record table, per-client MTU, server MTU, 1-3 concurrent clients, transaction lists); '
        'non-trivial when a transaction needed >= 2 responses, or a pattern of >= 2 UUIDs was only partly present in some '
        'record, or >= 2 clients ran concurrently; distinct = table shape + MTUs + transaction list. avdtp/avctp: '
        '(payload length, MTU / fragment sizes, fault kind); non-trivial when the message needed >= 2 packets. stream: '
        'operation sequence (all sequences up to the enumerated length, then random ones); non-trivial when it has an '
        'operation that is illegal in the state it is issued in or >= 3 legal transitions; distinct = mode + sequence. '
        'stream-refuse: seeded walks of 6-14 legal procedures, 60% of them refused by the peer first (application reject, '
        'SEP in use); distinct = sequence of (procedure, way refused)')
ASSUMPTIONS = [
    'search patterns and attribute-id lists are generated as the SDP spec requires a client to send them (ids ascending, '
    'ranges not overlapping) and sized so that the request fits the server MTU and the answer needs no more responses '
    'than the client continuation watchdog (64)',
    'a UUID contained in a data element alternative counts as contained in the attribute value (Core Vol 3 Part B 2.7.2 '
    'does not distinguish sequences from alternatives; ProtocolDescriptorList uses alternatives)',
    'Stream.start() in CONFIGURED is documented as auto-open: both ends STREAMING or a refusal are accepted there',
    'abort in IDLE may be answered either way as long as both ends stay IDLE',
    'the initiator-side abort is Stream.abort() when the class has one, otherwise stream.remote_endpoint.abort(), the '
    'only initiator-side abort the API offers',
    'stream-refuse: a procedure the peer refuses raises ProtocolError with the peer\'s error code at the caller; the refused '
    'source stream stays usable for the same procedure; abort is not used (no initiator-side Stream API, see known findings); '
    'whether the local media pump was stopped before a refused suspend is not judged',
    'no loss on the virtual link; broken fragment trains are injected at the assembler or written by the harness into '
    'the channel',
]
MIN_EVENTS = {
    'quick': {'sdp_transactions': 1500, 'sdp_continued_transactions': 400, 'sdp_boundary_transactions': 200,
              'sdp_partial_pattern_transactions': 600, 'sdp_concurrent_client_cases': 150, 'sdp_wire_responses': 7000,
              'avdtp_chan_messages': 250, 'avdtp_chan_fragmented': 80, 'avdtp_asm_good_after_fault': 5000,
              'avctp_asm_fragmented_good': 5000, 'avctp_asm_good_after_fault': 4000, 'avctp_chan_messages': 60,
              'stream_ops': 50000, 'stream_illegal_ops': 30000, 'stream_state_comparisons': 50000,
              'sdp_attribute_values_compared': 10000, 'sdp_records_with_boundary_attribute': 1000,
              'sdp_leaf_values_compared_sint_8_negative': 300, 'sdp_leaf_values_compared_sint_16_negative': 300,
              'sdp_leaf_values_compared_sint_32_negative': 300, 'sdp_leaf_values_compared_sint_64_negative': 300,
              'sdp_leaf_values_compared_sint_128_negative': 300, 'sdp_leaf_values_compared_sint_128': 150,
              'sdp_leaf_values_compared_uint_128': 300, 'sdp_leaf_values_compared_uint_64': 300,
              'sdp_leaf_values_compared_uuid_16': 8000, 'sdp_leaf_values_compared_uuid_32': 3000,
              'sdp_leaf_values_compared_uuid_128': 4000,
              'stream_refuse_histories': 280, 'stream_refusals': 1200, 'stream_refusal_retries_ok': 1200,
              'stream_refuse_final_cycles_ok': 250, 'stream_refusals_configure_app_reject': 120,
              'stream_refusals_configure_sep_in_use': 120, 'stream_refusals_open_app_reject': 200,
              'stream_refusals_start_app_reject': 170, 'stream_refusals_suspend_app_reject': 100,
              'stream_refusals_close_app_reject': 150, 'stream_refusals_reconfigure_app_reject': 80},
    'thorough': {'sdp_transactions': 30000, 'sdp_continued_transactions': 8000, 'sdp_boundary_transactions': 4000,
                 'sdp_partial_pattern_transactions': 12000, 'sdp_concurrent_client_cases': 3000,
                 'sdp_wire_responses': 140000, 'avdtp_chan_messages': 5000, 'avdtp_chan_fragmented': 1600,
                 'avdtp_asm_good_after_fault': 75000, 'avctp_asm_fragmented_good': 75000,
                 'avctp_asm_good_after_fault': 60000, 'avctp_chan_messages': 600, 'stream_ops': 500000,
                 'stream_illegal_ops': 300000, 'stream_state_comparisons': 500000,
                 'sdp_attribute_values_compared': 150000, 'sdp_records_with_boundary_attribute': 15000,
                 'sdp_leaf_values_compared_sint_8_negative': 4500, 'sdp_leaf_values_compared_sint_16_negative': 4500,
                 'sdp_leaf_values_compared_sint_32_negative': 4500, 'sdp_leaf_values_compared_sint_64_negative': 4500,
                 'sdp_leaf_values_compared_sint_128_negative': 4500, 'sdp_leaf_values_compared_sint_128': 2000,
                 'sdp_leaf_values_compared_uint_128': 4500, 'sdp_leaf_values_compared_uint_64': 4500,
                 'sdp_leaf_values_compared_uuid_16': 120000, 'sdp_leaf_values_compared_uuid_32': 45000,
                 'sdp_leaf_values_compared_uuid_128': 60000,
                 'stream_refuse_histories': 4200, 'stream_refusals': 18000, 'stream_refusal_retries_ok': 18000,
                 'stream_refuse_final_cycles_ok': 3700, 'stream_refusals_configure_app_reject': 1800,
                 'stream_refusals_configure_sep_in_use': 1800, 'stream_refusals_open_app_reject': 3000,
                 'stream_refusals_start_app_reject': 2500, 'stream_refusals_suspend_app_reject': 1500,
                 'stream_refusals_close_app_reject': 2200, 'stream_refusals_reconfigure_app_reject': 1200},
}
CASE_TIMEOUT = 600
SHARD_TIMEOUT = {'quick': 900, 'thorough': 7200}

MTUS = [48, 49, 51, 100, 672, 65535]
WATCHDOG = 64          # SDP_CONTINUATION_WATCHDOG, the client's documented limit
SDP_PSM = 0x0001
AVDTP_PSM = 0x0019
AVCTP_PSM = 0x0017


# =============================================================================
# plan
# =============================================================================
def stream_sequences(max_len):
    out = []
    for n in range(1, max_len + 1):
        out.extend(itertools.product(range(len(rs.STREAM_OPS)), repeat=n))
    return out


def plan(tier, seed):
    q = tier == 'quick'
    base = seed * 1000003
    groups = []
    groups.append([{'kind': 'sdp', 'seed': base + i, 'tier': tier} for i in range(400 if q else 8000)])
    groups.append([{'kind': 'avdtp-chan', 'seed': base + i, 'tier': tier} for i in range(40 if q else 800)])
    groups.append([{'kind': 'avdtp-asm', 'seed': base + i, 'n': 400} for i in range(16 if q else 240)])
    groups.append([{'kind': 'avctp-asm', 'seed': base + i, 'n': 400} for i in range(16 if q else 240)])
    groups.append([{'kind': 'avctp-chan', 'seed': base + i, 'tier': tier} for i in range(24 if q else 240)])
    # streams: exhaustive enumeration of short sequences in chunks, then random long ones
    enum_len = 5 if q else 6
    total = sum(6 ** n for n in range(1, enum_len + 1))
    chunk = 40
    st = []
    for mode in ('api', 'wire'):
        for lo in range(0, total, chunk):
            st.append({'kind': 'stream', 'mode': mode, 'enum_len': enum_len, 'lo': lo, 'hi': min(total, lo + chunk),
                       'seed': base + lo})
        for i in range(24 if q else 480):
            st.append({'kind': 'stream', 'mode': mode, 'random': 30, 'seed': base + 7919 + i})
    groups.append(st)
    groups.append([{'kind': 'stream-refuse', 'seed': base + i, 'histories': 10} for i in range(32 if q else 480)])
    # interleave so that round-robin sharding spreads the heavy kinds
    cases = []
    iters = [iter(g) for g in groups]
    sizes = [len(g) for g in groups]
    m = max(sizes)
    pos = [0.0] * len(groups)
    for step in range(m):
        for gi, g in enumerate(groups):
            want = (step + 1) * sizes[gi] / m
            while pos[gi] < want - 1e-9:
                cases.append(next(iters[gi]))
                pos[gi] += 1
    return cases


# =============================================================================
# SDP
# =============================================================================
ID_POINTS = [0, 1, 2, 3, 4, 5, 6, 9, 0xFF, 0x100, 0x101, 0x1FF, 0x200, 0x201, 0x2FF, 0x300, 0x301, 0x7FFF, 0x8000,
             0xFFFE, 0xFFFF]
PAD_ID = 0x0300


def gen_universe(rng):
    uni = [(2, v) for v in rng.sample(range(0x1000, 0x1400), 10)]
    uni += [(4, rng.randrange(0x10000, 1 << 32)) for _ in range(4)]
    uni += [(16, rng.getrandbits(128) | (1 << 127)) for _ in range(6)]
    return uni


def alias(u, rng):
    """The same UUID in another width (16 -> 32/128, 32 -> 128)."""
    s, v = u
    if s == 2:
        return rng.choice([(4, v), (16, rs.uuid128(2, v))])
    if s == 4:
        return (16, rs.uuid128(4, v))
    return u


def gen_scalar(rng, uni, uuid_p):
    x = rng.random()
    if x < uuid_p:
        return ('uuid',) + rng.choice(uni)
    k = rng.choice(['uint', 'uint', 'sint', 'text', 'text', 'bool', 'nil', 'url'])
    if k == 'uint':
        s = rng.choice([1, 2, 2, 4, 8, 16])
        return ('uint', s, rng.choice([0, 1, (1 << (8 * s)) - 1, 1 << (8 * s - 1), rng.getrandbits(8 * s)]))
    if k == 'sint':
        s = rng.choice([1, 2, 4, 8, 16])
        return ('sint', s, rng.choice([0, -1, -(1 << (8 * s - 1)), (1 << (8 * s - 1)) - 1, -rng.getrandbits(8 * s - 1) - 1]))
    if k == 'text':
        n = rng.choice([0, 1, 5, 17, 40, rng.randint(0, 90)])
        return ('text', bytes(rng.getrandbits(8) for _ in range(n)))
    if k == 'bool':
        return ('bool', rng.random() < 0.5)
    if k == 'url':
        return ('url', 'http://' + 'a' * rng.randint(0, 12) + '/é'[:rng.randint(0, 2)])
    return ('nil',)


BOUNDARY_ID = 0x0301


def boundary_scalars(uni):
    """Every scalar type x every width at its boundary values."""
    out = [('nil',), ('bool', True), ('bool', False), ('text', b''), ('text', bytes(range(256))), ('url', ''), ('url', 'http://é/')]
    for s in (1, 2, 4, 8, 16):
        bits = 8 * s
        out += [('uint', s, 0), ('uint', s, (1 << bits) - 1), ('uint', s, 1 << (bits - 1)),
                ('sint', s, -1), ('sint', s, -(1 << (bits - 1))), ('sint', s, (1 << (bits - 1)) - 1), ('sint', s, 0),
                ('sint', s, -(1 << (bits - 1)) + 1), ('sint', s, -(0x5A << (bits - 8)) - 3 if s > 1 else -0x5A)]
    out += [('uuid', 2, 0), ('uuid', 2, 0xFFFF), ('uuid', 4, 0xFFFFFFFF), ('uuid', 4, 0x10000), ('uuid', 16, (1 << 128) - 1),
            ('uuid', 16, 1 << 127)]
    out += [('uuid',) + u for u in uni[:2]]
    return out


def boundary_element(rng, uni):
    """Some 6-14 boundary scalars, directly and nested in sequences and alternatives."""
    pool = boundary_scalars(uni)
    picks = rng.sample(pool, rng.randint(6, 14))
    k = len(picks) // 3
    return ('seq', picks[:k] + [('alt', picks[k:2 * k] + [('seq', picks[2 * k:])])])


def gen_element(rng, uni, depth, uuid_p=0.35):
    if depth <= 0 or rng.random() < 0.45:
        return gen_scalar(rng, uni, uuid_p)
    kind = 'alt' if rng.random() < 0.3 else 'seq'
    return (kind, [gen_element(rng, uni, depth - 1, uuid_p) for _ in range(rng.choice([0, 1, 2, 2, 3, 4]))])


def gen_record(rng, uni, handle, common):
    attrs = {0: ('uint', 4, handle)}
    cls = [('uuid',) + u for u in rng.sample(uni, rng.choice([1, 1, 2, 3]))]
    if common is not None and rng.random() < 0.7:
        cls.append(('uuid',) + common)
    attrs[1] = ('seq', cls)
    if rng.random() < 0.6:
        stack = lambda: ('seq', [('seq', [('uuid',) + rng.choice(uni), ('uint', 2, rng.getrandbits(16))]),
                                 ('seq', [('uuid',) + rng.choice(uni)])])
        attrs[4] = ('alt', [stack(), stack()]) if rng.random() < 0.4 else stack()
    if rng.random() < 0.4:
        attrs[5] = ('seq', [('uuid',) + rng.choice(uni)])
    if rng.random() < 0.3:
        attrs[6] = ('seq', [('uint', 2, 0x656E), ('uint', 2, 0x006A), ('uint', 2, 0x0100)])
    if rng.random() < 0.4:
        attrs[9] = ('seq', [('seq', [('uuid',) + rng.choice(uni), ('uint', 2, 0x0103)])])
    if rng.random() < 0.5:
        attrs[0x100] = ('text', bytes(rng.randrange(32, 127) for _ in range(rng.randint(0, 24))))
    if rng.random() < 0.25:
        # a rich record: many UUIDs, nested
        attrs[0x200] = ('seq', [('uuid',) + u for u in rng.sample(uni, rng.randint(4, 12))] +
                        [('alt', [('uuid',) + rng.choice(uni), ('seq', [('uuid',) + rng.choice(uni)])])])
    for _ in range(rng.choice([0, 0, 1, 2, 3])):
        aid = rng.choice(ID_POINTS[2:])
        if aid not in attrs and aid != PAD_ID:
            attrs[aid] = gen_element(rng, uni, 3)
    if rng.random() < 0.3 and BOUNDARY_ID not in attrs:
        attrs[BOUNDARY_ID] = boundary_element(rng, uni)
    items = list(attrs.items())
    if rng.random() < 0.4:
        rng.shuffle(items)          # storage order is the application's business
    return items


def gen_id_list(rng, must_include=None):
    style = rng.choice(['all', 'all', 'single', 'points', 'ranges', 'mixed', 'mixed'])
    if style == 'all':
        return [(0, 0xFFFF)]
    if style == 'single':
        lst = [rng.choice(ID_POINTS)]
    else:
        pts = sorted(set(rng.sample(ID_POINTS, rng.randint(2, 8))))
        lst = []
        i = 0
        while i < len(pts):
            if style != 'points' and i + 1 < len(pts) and rng.random() < (0.8 if style == 'ranges' else 0.4):
                lst.append((pts[i], pts[i + 1]))
                i += 2
            else:
                lst.append(pts[i])
                i += 1
    if must_include is not None and not any(
            (it == must_include) if isinstance(it, int) else (it[0] <= must_include <= it[1]) for it in lst):
        return [(0, 0xFFFF)]
    return lst


def pattern_class(records, pattern):
    want = {rs.uuid128(s, v) for s, v in pattern}
    sets = [rs.record_uuids(a) for a in records.values()]
    if any(want <= s for s in sets):
        full = True
    else:
        full = False
    partial = any((want & s) and not (want <= s) for s in sets)
    return full, partial


def gen_pattern(rng, records, uni, max_uuids, narrow_only):
    """Returns [(size, value)] with 1..max_uuids entries covering the present/absent mixes."""
    handles = list(records)
    target = rng.choice(handles)
    present = sorted(rs.record_uuids(records[target]))
    by128 = {}
    for u in uni:
        by128[rs.uuid128(*u)] = u
    present_u = [by128[x] for x in present if x in by128]
    absent_here = [u for u in uni if rs.uuid128(*u) not in set(present)]
    nowhere = (2, 0x0F00 + rng.randrange(0x100))
    cls = rng.choice(['all-present', 'all-present', 'one-elsewhere', 'one-elsewhere', 'one-nowhere', 'split', 'absent',
                      'single', 'many'])
    n = rng.randint(1, max_uuids)
    if cls == 'single':
        pat = [rng.choice(present_u or uni)]
    elif cls == 'all-present':
        pat = rng.sample(present_u, min(n, len(present_u))) if present_u else [rng.choice(uni)]
    elif cls == 'many':
        pat = rng.sample(present_u, min(max_uuids, len(present_u))) if present_u else [rng.choice(uni)]
    elif cls == 'one-elsewhere':
        pat = rng.sample(present_u, min(max(1, n - 1), len(present_u))) + [rng.choice(absent_here or [nowhere])]
    elif cls == 'one-nowhere':
        pat = rng.sample(present_u, min(max(1, n - 1), len(present_u))) + [nowhere]
    elif cls == 'split':
        other = rng.choice(handles)
        pu = [by128[x] for x in rs.record_uuids(records[other]) if x in by128]
        pat = rng.sample(present_u, min(max(1, n // 2), len(present_u))) + rng.sample(pu, min(max(1, n // 2), len(pu)))
    else:
        pat = [nowhere] + ([rng.choice(absent_here)] if absent_here and n > 1 else [])
    # de-duplicate, shuffle, re-express some in another width
    seen, out = set(), []
    for u in pat:
        k = rs.uuid128(*u)
        if k not in seen:
            seen.add(k)
            out.append(u)
    rng.shuffle(out)
    out = out[:max_uuids]
    if narrow_only:
        out = [u for u in out if u[0] == 2] or [nowhere]
    elif rng.random() < 0.25:
        out = [alias(u, rng) if rng.random() < 0.5 else u for u in out]
    return out


def answer_len(kind, records, tx):
    if kind == 'search':
        return 4 * len(rs.match(records, tx['pattern']))
    if kind == 'attr':
        if tx['handle'] not in records:
            return 0
        return len(rs.enc(rs.attribute_list(rs.select(records[tx['handle']], tx['ids']))))
    lists = []
    for h in rs.match(records, tx['pattern']):
        sel = rs.select(records[h], tx['ids'])
        if sel:
            lists.append(rs.attribute_list(sel))
    return len(rs.enc(('seq', lists)))


def capacity(kind, mtu):
    # what one response can carry for a client MTU: header 5, list length / counts, 2-byte
    # continuation state of at least one information byte
    return (mtu - 11) // 4 * 4 if kind == 'search' else mtu - 9


def gen_sdp(rng, tier):
    nclients = rng.choice([1, 2, 2, 3, 3])
    client_mtus = [rng.choice(MTUS) for _ in range(nclients)]
    if rng.random() < 0.5:
        client_mtus[0] = rng.choice([48, 49, 51, 100])
    server_mtu = rng.choice(MTUS)
    uni = gen_universe(rng)
    common = rng.choice(uni)
    nrec = rng.choice([1, 2, 3, 5, 8, 9, 10, 12, 17, 18, 19, 21, 22, 23, 26, 27, 28, 30, rng.randint(1, 30)])
    # handle-count targets: number of records holding `common` at k*cap-1..+1 of the first client
    records = {}
    h0 = rng.choice([0x00010000, 0x00010001, 0x7FFFFFF0, 0xFFFFFF00])
    for i in range(nrec):
        h = (h0 + i) & 0xFFFFFFFF
        records[h] = gen_record(rng, uni, h, common)
    narrow = server_mtu < 100
    max_uuids = 12

    def fit_pattern(kind, ids):
        for _ in range(8):
            pat = gen_pattern(rng, records, uni, max_uuids, narrow)
            while len(pat) > 1 and rs.sdp_request_len(kind, pat, ids) + 1 > server_mtu:
                pat = pat[:-1]
            if rs.sdp_request_len(kind, pat, ids) + 1 <= server_mtu:   # +1: 2-byte continuation state
                return pat
        return None

    def gen_tx(ci):
        kind = rng.choice(['search', 'attr', 'sa', 'sa'])
        if kind == 'search':
            pat = fit_pattern('search', None)
            if pat is None:
                return None
            if rng.random() < 0.25:
                pat = [common] if common[0] == 2 or not narrow else pat
            return {'kind': 'search', 'pattern': pat}
        ids = gen_id_list(rng)
        while rs.sdp_request_len('attr', None, ids) + 1 > server_mtu and len(ids) > 1:
            ids = ids[:-1]
        if kind == 'attr':
            h = rng.choice(list(records)) if rng.random() < 0.92 else (h0 + nrec + rng.randint(0, 3)) & 0xFFFFFFFF
            return {'kind': 'attr', 'handle': h, 'ids': ids}
        while True:
            pat = fit_pattern('sa', ids)
            if pat is not None or len(ids) <= 1:
                break
            ids = ids[:-1]
        if pat is None:
            return None
        return {'kind': 'sa', 'pattern': pat, 'ids': ids}

    txs = []
    for ci in range(nclients):
        lst = []
        for _ in range(rng.randint(3, 7)):
            t = gen_tx(ci)
            if t is not None:
                lst.append(t)
        txs.append(lst)

    # tune: make the answer of one attr/sa transaction of a small-MTU client land on
    # k*capacity-1 .. +1 by growing a text attribute of one record in its answer
    tuned = None
    order = sorted(range(nclients), key=lambda c: client_mtus[c])
    for ci in order:
        cap = capacity('attr', client_mtus[ci])
        if cap > 2000:
            continue
        cands = [t for t in txs[ci] if t['kind'] in ('attr', 'sa')]
        rng.shuffle(cands)
        for t in cands:
            if t['kind'] == 'attr':
                if t['handle'] not in records:
                    continue
                hs = [t['handle']]
            else:
                hs = rs.match(records, t['pattern'])
            if not hs:
                continue
            t['ids'] = [(0, 0xFFFF)] if rng.random() < 0.5 else gen_id_list(rng, must_include=PAD_ID)
            if rs.sdp_request_len(t['kind'], t.get('pattern'), t['ids']) + 1 > server_mtu:
                t['ids'] = [(0, 0xFFFF)]
            h = rng.choice(hs)
            base_len = answer_len(t['kind'], records, t)
            kmax = max(1, min(WATCHDOG, 2600 // cap))
            k = rng.choice([1, 1, 2, 2, 3, rng.randint(1, kmax), kmax])
            if tier == 'thorough' and rng.random() < 0.1:
                k = WATCHDOG if cap * WATCHDOG < 6000 else k
            d = rng.choice([-1, 0, 1]) if k < WATCHDOG else rng.choice([-1, 0])
            target = k * cap + d
            while target < base_len + 2:
                k += 1
                target = k * cap + d
            if k > WATCHDOG or (k == WATCHDOG and d > 0):
                continue
            attrs = [a for a in records[h] if a[0] != PAD_ID]
            pad = max(0, target - base_len - 5)
            for _ in range(8):
                records[h] = attrs + [(PAD_ID, ('text', bytes((i * 7 + 1) & 0xFF for i in range(pad))))]
                got = answer_len(t['kind'], records, t)
                if got == target:
                    break
                pad = max(0, pad + (target - got))
            if answer_len(t['kind'], records, t) == target:
                tuned = (ci, k, d)
            break
        if tuned:
            break

    # bound every transaction by the continuation watchdog of its client
    dropped = 0
    for ci in range(nclients):
        keep = []
        for t in txs[ci]:
            cap = capacity(t['kind'], client_mtus[ci])
            need = max(1, -(-answer_len(t['kind'], records, t) // cap))
            if need <= WATCHDOG:
                t['need'] = need
                keep.append(t)
            else:
                dropped += 1
        txs[ci] = keep
    return dict(nclients=nclients, client_mtus=client_mtus, server_mtu=server_mtu, records=records, txs=txs,
                tuned=tuned, dropped=dropped, common=common)


def mk_uuid(size, value):
    from bumble import core
    return core.UUID(f'{value:0{size * 2}X}')      # constructor: no registry look-up


def to_bumble(el):
    from bumble.sdp import DataElement as DE
    k = el[0]
    if k == 'nil':
        return DE.nil()
    if k == 'uint':
        return DE.unsigned_integer(el[2], el[1])
    if k == 'sint':
        return DE.signed_integer(el[2], el[1])
    if k == 'uuid':
        return DE.uuid(mk_uuid(el[1], el[2]))
    if k == 'text':
        return DE.text_string(bytes(el[1]))
    if k == 'bool':
        return DE.boolean(el[1])
    if k == 'seq':
        return DE.sequence([to_bumble(e) for e in el[1]])
    if k == 'alt':
        return DE.alternative([to_bumble(e) for e in el[1]])
    if k == 'url':
        return DE.url(el[1])
    raise ValueError(k)


def same_value(got_bytes: bytes, want_el) -> bool:
    if got_bytes == rs.enc(want_el):
        return True
    try:
        return rs.norm(rs.dec_all(got_bytes)) == rs.norm(want_el)     # another legal size descriptor
    except rs.DecodeError:
        return False


def value_view(el):
    """What the application SEES in a data element the client API returned: its public fields (type, value,
    value_size), read field by field into the reference's tuple form. Nothing of bumble's parser / serialiser runs here;
    the serialised form of a parsed element is a cached copy of the received bytes and says nothing about .value."""
    t = int(el.type)
    if t == rs.T_NIL:
        return ('nil',) if el.value is None else ('nil', repr(el.value))
    if t in (rs.T_UINT, rs.T_SINT):
        return ('uint' if t == rs.T_UINT else 'sint', el.value_size, el.value)
    if t == rs.T_UUID:
        raw = bytes(el.value.uuid_bytes)            # little-endian in core.UUID
        return ('uuid', len(raw), int.from_bytes(raw, 'little'))
    if t == rs.T_TEXT:
        return ('text', bytes(el.value))
    if t == rs.T_BOOL:
        return ('bool', el.value)
    if t == rs.T_URL:
        return ('url', el.value)
    if t in (rs.T_SEQ, rs.T_ALT):
        return ('seq' if t == rs.T_SEQ else 'alt', tuple(value_view(e) for e in el.value))
    return ('unknown-type', t)


def first_value_difference(got, want, path='value'):
    """(class of the first leaf that differs, text) between two normalised elements."""
    if got[0] != want[0]:
        return f'{want[0]}-returned-as-{got[0]}', f'{path}: a {want[0]} came back as a {got[0]}'
    if got[0] in ('seq', 'alt'):
        if len(got[1]) != len(want[1]):
            return f'{got[0]}-length', f'{path}: {len(got[1])} children, want {len(want[1])}'
        for i, (g_, w_) in enumerate(zip(got[1], want[1])):
            d = first_value_difference(g_, w_, f'{path}/{got[0]}[{i}]')
            if d:
                return d
        return None
    if want[0] in ('uint', 'sint', 'uuid'):
        k = f'{want[0]}_{want[1] * 8}' + ('_negative' if want[0] == 'sint' and want[2] < 0 else '')
        LEAVES[k] = LEAVES.get(k, 0) + 1
    if got == want and all(type(a) is type(b) for a, b in zip(got, want)):
        return None
    if got[0] in ('uint', 'sint', 'uuid'):
        w = want[1]
        sign = '/negative' if want[0] == 'sint' and want[2] < 0 else ''
        return (f'{want[0]}-{w * 8}{sign}',
                f'{path}: {want[0]} of {w} octets holding {want[2]} came back as value {got[2]!r} (size {got[1]!r})')
    return want[0], f'{path}: {want!r:.80} came back as {got!r:.80}'


def attrs_of(lst):
    """client API result -> [(id, serialised value, value as the application sees it)]"""
    out = []
    for a in lst:
        try:
            view = value_view(a.value)
        except Exception as e:      # noqa: BLE001 — the judged object may be malformed in any way
            view = ('unreadable', f'{type(e).__name__}: {e}')
        out.append((int(a.id), bytes(a.value), view))
    return out


def cmp_attr_list(got, want):
    """got [(id, bytes)], want [(id, element)] -> None or (clause, text)"""
    gi, wi = [g[0] for g in got], [w[0] for w in want]
    if gi != wi:
        if sorted(gi) == sorted(wi):
            return 'order', f'ids {gi} not ascending as {wi}'
        return 'ids-differ', f'ids got {[hex(x) for x in gi]} want {[hex(x) for x in wi]}'
    for (aid, gb, _gv), (_a, we) in zip(got, want):
        if not same_value(gb, we):
            wb = rs.enc(we)
            n = next((i for i in range(min(len(gb), len(wb))) if gb[i] != wb[i]), min(len(gb), len(wb)))
            return 'value-differs', (f'attribute {aid:#06x}: got {len(gb)} bytes, want {len(wb)}; first difference at '
                                     f'offset {n}: got {gb[n:n + 12].hex()} want {wb[n:n + 12].hex()}')
    # the bytes are right: the VALUES the application reads out of the returned elements must be too
    for (aid, _gb, gv), (_a, we) in zip(got, want):
        VALUE_COMPARISONS[0] += 1
        d = first_value_difference(gv, rs.norm(we))
        if d:
            return f'parsed-value-differs/{d[0]}', f'attribute {aid:#06x}: the bytes match but {d[1]}'
    return None


VALUE_COMPARISONS = [0]
LEAVES: dict = {}


def search_mismatch_class(records, pattern, extra, missing):
    want = {rs.uuid128(s, v) for s, v in pattern}
    if extra:
        for h in extra:
            if h in records and (want & rs.record_uuids(records[h])):
                return 'extra-record/has-some-but-not-all-pattern-uuids'
        return 'extra-record/has-no-pattern-uuid'
    for h in missing:
        # a pattern UUID that occurs in this record only below a data element alternative
        under_alt = set()
        for _aid, v in records[h]:
            under_alt |= rs.uuids_under_alternative(v)
        if any(u in under_alt and not _occurs_outside_alt(records[h], u) for u in want):
            return 'missing-record/uuid-only-inside-alternative'
    return 'missing-record'


def _occurs_outside_alt(attrs, u128):
    def walk(el, under):
        if el[0] == 'uuid':
            return (not under) and rs.uuid128(el[1], el[2]) == u128
        if el[0] in ('seq', 'alt'):
            return any(walk(e, under or el[0] == 'alt') for e in el[1])
        return False
    return any(walk(v, False) for _a, v in attrs)


async def sdp_case(case, r: R):
    from bumble import core, l2cap, sdp
    from vlib import rig as vrig

    rng = random.Random(case['seed'])
    vrig.seed_entropy(case['seed'])
    g = gen_sdp(rng, case.get('tier', 'quick'))
    n = g['nclients']
    records = g['records']
    multi = '/multi-client' if n > 1 else ''
    rg = vrig.Rig(n + 1, seed=case['seed'], max_delay=rng.choice([0, 0, 1, 3]), classic=True,
                  acl_len=[rng.choice([27, 64, 339, 1021]) for _ in range(n + 1)],
                  acl_num=[rng.choice([1, 2, 8]) for _ in range(n + 1)])
    server = rg.devices[0]
    server.sdp_service_records = {
        h: [sdp.ServiceAttribute(aid, to_bumble(v)) for aid, v in attrs] for h, attrs in records.items()}
    server.l2cap_channel_manager.servers[SDP_PSM].spec.mtu = g['server_mtu']
    await rg.power_on()
    order = list(range(n))
    rng.shuffle(order)
    conns = {}
    srv_handle = {}
    for ci in order:
        cc, sc = await rg.connect_classic(ci + 1, 0)
        conns[ci] = cc
        srv_handle[sc.handle] = ci
    clients = {ci: sdp.Client(conns[ci], mtu=g['client_mtus'][ci]) for ci in range(n)}
    late = {ci for ci in range(n) if n > 1 and rng.random() < 0.25}
    sdp_order = [ci for ci in range(n) if ci not in late]
    rng.shuffle(sdp_order)
    for ci in sdp_order:
        await vloop.vwait(clients[ci].connect())
    yields = {ci: [rng.choice([0, 0, 1, 3, 10]) for _ in range(len(g['txs'][ci]) + 1)] for ci in range(n)}
    leave = {ci: rng.random() < 0.3 for ci in range(n)}
    results = {ci: [] for ci in range(n)}
    hung = []

    async def run_client(ci):
        cl = clients[ci]
        for _ in range(yields[ci][0] * 3):
            await asyncio.sleep(0)
        if ci in late:
            try:
                await vloop.vwait(cl.connect())
            except vloop.Hang:
                hung.append((ci, 'connect'))
                r.bad('sdp/hang/channel-connect' + multi, f'client {ci} SDP channel connect pending at T_v')
                return
        if (cl.channel.mtu, cl.channel.peer_mtu) != (g['client_mtus'][ci], g['server_mtu']):
            raise RuntimeError(f'harness: SDP channel MTUs {cl.channel.mtu}/{cl.channel.peer_mtu} are not the configured '
                               f'{g["client_mtus"][ci]}/{g["server_mtu"]}')
        for ti, t in enumerate(g['txs'][ci]):
            for _ in range(yields[ci][ti + 1]):
                await asyncio.sleep(0)
            try:
                if t['kind'] == 'search':
                    res = await vloop.vwait(cl.search_services([mk_uuid(*u) for u in t['pattern']]))
                    out = ('ok', list(res))
                elif t['kind'] == 'attr':
                    res = await vloop.vwait(cl.get_attributes(t['handle'], t['ids']))
                    out = ('ok', attrs_of(res))
                else:
                    res = await vloop.vwait(cl.search_attributes([mk_uuid(*u) for u in t['pattern']], t['ids']))
                    out = ('ok', [attrs_of(x) for x in res])
            except vloop.Hang:
                hung.append((ci, ti))
                results[ci].append(('hang', None))
                return
            except core.ProtocolError as e:
                out = ('protocol-error', getattr(e, 'error_code', None))
            except Exception as e:  # whatever the client raises is an outcome to judge
                out = ('raised', f'{type(e).__name__}: {e}')
            results[ci].append(out)
        if leave[ci]:
            try:
                await vloop.vwait(cl.disconnect())
            except Exception:
                pass

    await asyncio.gather(*[run_client(ci) for ci in range(n)])
    try:
        await rg.quiesce()
    except vloop.Hang:
        r.bad('sdp/livelock' + multi, 'SDP traffic never quiesces')
        return

    # ---- wire monitor on the server's host boundary -------------------------------
    pending: dict[int, tuple[int, int]] = {}     # acl handle -> (tid, request pdu id)
    cross = 0
    for _seq, _dev, direction, handle, cid, payload in vrig.l2cap_log(rg.boundary_log, dev=0):
        if cid < 0x40:
            continue
        hd = rs.sdp_header(payload)
        if hd is None:
            continue
        pid, tid, plen = hd
        if direction == vrig.C2H:
            pending[handle] = (tid, pid)
            r.ev('sdp_wire_requests')
            continue
        r.ev('sdp_wire_responses')
        r.ev('oracle_evals', 3)
        ci = srv_handle.get(handle)
        req = pending.pop(handle, None)
        if req is None or req[0] != tid or pid not in (rs.SDP_ERROR_RSP, rs.SDP_RESPONSE_OF.get(req[1])):
            cross += 1
            owner = [h for h, (t2, p2) in pending.items() if t2 == tid and rs.SDP_RESPONSE_OF.get(p2) == pid]
            r.bad('sdp/cross-client/response-on-link-without-that-request',
                  f'server sent response pdu={pid} tid={tid} on the link of client {ci} whose outstanding request is '
                  f'{req}; requests outstanding on other links: { {srv_handle.get(h): v for h, v in pending.items()} } '
                  f'(clients={n}, candidates {owner})')
            if req is not None:
                pending[handle] = req
        if plen != len(payload) - 5:
            r.bad('sdp/wire/parameter-length', f'ParameterLength {plen} on a PDU with {len(payload) - 5} parameter bytes')
        if ci is not None and len(payload) > g['client_mtus'][ci]:
            r.bad('sdp/wire/response-exceeds-client-mtu',
                  f'response of {len(payload)} bytes to a client with MTU {g["client_mtus"][ci]}')

    # ---- API oracle ------------------------------------------------------------------
    # When the wire monitor saw responses leave on another client's link, whatever the
    # clients got (or never got) is that one mechanism: report it under one key.
    def bad(key, detail):
        if cross and key.startswith('sdp/hang/'):
            key = 'sdp/cross-client/client-left-pending'
        elif cross:
            key = 'sdp/cross-client/client-result-wrong'
        r.bad(key, detail)

    nontrivial = n > 1
    for ci in range(n):
        cap_mtu = g['client_mtus'][ci]
        for ti, t in enumerate(g['txs'][ci]):
            if ti >= len(results[ci]):
                break
            status, val = results[ci][ti]
            kind = t['kind']
            r.ev('sdp_transactions')
            r.ev(f'sdp_{kind}_transactions')
            r.ev('oracle_evals')
            alen = answer_len(kind, records, t)
            cap = capacity(kind, cap_mtu)
            if t.get('need', 1) >= 2:
                r.ev('sdp_continued_transactions')
                nontrivial = True
            boundary = alen > 0 and cap < 3000 and min(alen % cap, cap - alen % cap) <= (4 if kind == 'search' else 1)
            if boundary:
                r.ev('sdp_boundary_transactions')
            if t.get('need', 1) == WATCHDOG:
                r.ev('sdp_transactions_at_watchdog_limit')
            bsfx = ('/continued' if t.get('need', 1) >= 2 else '') + multi
            pp = ''
            if 'pattern' in t:
                full, partial = pattern_class(records, t['pattern'])
                # class of the case, not of the outcome: some record holds part of the pattern
                pp = '/pattern-partly-present-in-some-record' if partial and len(t['pattern']) >= 2 else ''
                if len(t['pattern']) >= 2:
                    r.ev('sdp_multi_uuid_patterns')
                if partial:
                    r.ev('sdp_partial_pattern_transactions')
                    if len(t['pattern']) >= 2:
                        nontrivial = True
                if any(u[0] != 2 for u in t['pattern']):
                    r.ev('sdp_wide_uuid_patterns')
            ctx = (f'client {ci}/{n} mtu={cap_mtu} server_mtu={g["server_mtu"]} tx#{ti} '
                   f'{ {k: v for k, v in t.items() if k != "need"} } answer={alen}B capacity={cap} records={len(records)}')
            if status == 'hang':
                bad(f'sdp/hang/{kind}' + multi, f'{ctx}: still pending at T_v; wire cross-link responses={cross}')
                continue
            if kind == 'search':
                want = rs.match(records, t['pattern'])
                if status != 'ok':
                    bad('sdp/search/raised' + pp + bsfx, f'{ctx}: {status} {val}')
                    continue
                extra = [h for h in val if h not in set(want)]
                missing = [h for h in want if h not in set(val)]
                if extra or missing:
                    bad(f'sdp/search/{search_mismatch_class(records, t["pattern"], extra, missing)}' + bsfx,
                          f'{ctx}: extra={[hex(h) for h in extra][:6]} missing={[hex(h) for h in missing][:6]} '
                          f'(got {len(val)}, want {len(want)})')
                elif len(val) != len(set(val)):
                    bad('sdp/search/duplicate-handle' + bsfx, f'{ctx}: {len(val)} handles, {len(set(val))} distinct')
                continue
            if kind == 'attr':
                if t['handle'] not in records:
                    r.ev('sdp_unknown_handle_requests')
                    if status == 'ok':
                        bad('sdp/attr/unknown-handle-answered' + multi, f'{ctx}: got {val!r:.200}')
                    continue
                if status != 'ok':
                    bad('sdp/attr/raised' + bsfx, f'{ctx}: {status} {val}')
                    continue
                d = cmp_attr_list(val, rs.select(records[t['handle']], t['ids']))
                if d:
                    bad(f'sdp/attr/{d[0]}' + ('/at-capacity-boundary' if boundary else '') + bsfx, f'{ctx}: {d[1]}')
                continue
            # search-attribute
            if status != 'ok':
                bad('sdp/search-attr/raised' + pp + ('/at-capacity-boundary' if boundary else '') + bsfx,
                      f'{ctx}: {status} {val}')
                continue
            want_lists = []
            for h in rs.match(records, t['pattern']):
                sel = rs.select(records[h], t['ids'])
                if sel:
                    want_lists.append((h, sel))
            got_lists = [x for x in val if x]
            unmatched = list(want_lists)
            bad_lists = []
            for gl in got_lists:
                k = next((i for i, (_h, wl) in enumerate(unmatched) if cmp_attr_list(gl, wl) is None), None)
                if k is None:
                    bad_lists.append(gl)
                else:
                    unmatched.pop(k)
            if not bad_lists and not unmatched:
                continue
            # classify: is the surplus list the selection of a record that does not match?
            wantset = {h for h, _ in want_lists}
            extra_records = []
            want_u = {rs.uuid128(s_, v_) for s_, v_ in t['pattern']}
            for gl in bad_lists:
                # several records may select to the same list: prefer one holding part of the pattern
                cands = [h for h, attrs in records.items()
                         if h not in wantset and cmp_attr_list(gl, rs.select(attrs, t['ids'])) is None]
                cands.sort(key=lambda h: not (want_u & rs.record_uuids(records[h])))
                if cands:
                    extra_records.append(cands[0])
            if bad_lists and len(extra_records) == len(bad_lists):
                cls = search_mismatch_class(records, t['pattern'], extra_records, [])
            elif not bad_lists and unmatched:
                cls = search_mismatch_class(records, t['pattern'], [], [h for h, _ in unmatched])
                if cls == 'missing-record':
                    cls += pp
            else:
                d = None
                if bad_lists and unmatched:
                    d = cmp_attr_list(bad_lists[0], unmatched[0][1])
                cls = (d[0] if d else 'lists-differ') + pp + ('/at-capacity-boundary' if boundary else '')
            bad(f'sdp/search-attr/{cls}' + bsfx,
                  f'{ctx}: {len(got_lists)} lists, want {len(want_lists)}; lists matching no expected record: '
                  f'{len(bad_lists)} (records not matching the pattern: {[hex(h) for h in extra_records][:5]}); '
                  f'expected lists not returned: {[hex(h) for h, _ in unmatched][:5]}')
    if n > 1:
        r.ev('sdp_concurrent_client_cases')
    r.ev('sdp_attribute_values_compared', VALUE_COMPARISONS[0])
    VALUE_COMPARISONS[0] = 0
    for k, v in LEAVES.items():
        r.ev(f'sdp_leaf_values_compared_{k}', v)
    LEAVES.clear()
    r.ev('sdp_records_with_boundary_attribute', sum(1 for attrs in records.values() if any(a == BOUNDARY_ID for a, _v in attrs)))
    r.ev('sdp_tx_dropped_over_watchdog', g['dropped'])
    if g['tuned']:
        r.ev('sdp_tuned_cases')
    for where, e in rg.exceptions:
        r.bad('sdp/exception-in-stack' + multi, f'{where}: {e}')
    if nontrivial:
        r.sig('sdp', n, tuple(g['client_mtus']), g['server_mtu'], len(records),
              tuple(tuple(sorted((k, repr(v)) for k, v in t.items())) for lst in g['txs'] for t in lst))
    r.sched.add(rg.schedule_signature)
    r.evals()
    r.sample = {'kind': 'sdp', 'clients': n, 'client_mtus': g['client_mtus'], 'server_mtu': g['server_mtu'],
                'records': len(records), 'tuned(client,k,d)': g['tuned'],
                'first_record': [[aid, rs.to_jsonable(v)] for aid, v in list(records.values())[0]][:4],
                'transactions': [[{k: (v if k != 'pattern' else [f'{s * 8}:{x:x}' for s, x in v]) for k, v in t.items()}
                                  for t in lst][:3] for lst in g['txs']],
                'outcomes': [[o[0] for o in results[ci]] for ci in range(n)]}


# =============================================================================
# AVDTP signalling
# =============================================================================
SIG_SET_CONFIGURATION, SIG_GET_CAPABILITIES, SIG_SECURITY_CONTROL, SIG_GET_ALL_CAPABILITIES = 0x03, 0x02, 0x0B, 0x0C
MT_COMMAND, MT_GENERAL_REJECT, MT_ACCEPT, MT_REJECT = 0, 1, 2, 3


def gen_caps(rng, total):
    """Service capabilities (category, bytes) whose serialisation (2-byte header each) is
    exactly `total` bytes (total == 1 is impossible: rounded to 0 or 2)."""
    if total == 1:
        total = 2
    caps = []
    left = total
    cats = [1, 2, 3, 4, 5, 6, 8, 9]          # not MEDIA_CODEC: its body is parsed further
    while left > 0:
        if left == 3 or left == 2:
            body = left - 2
        else:
            body = min(255, left - 2)
            if body > 0 and rng.random() < 0.5:
                body = rng.randint(0, body)
            if left - 2 - body == 1:
                body = max(0, body - 1)
        caps.append((rng.choice(cats), bytes(rng.getrandbits(8) for _ in range(body))))
        left -= 2 + body
    return caps


def caps_bytes(caps):
    return b''.join(bytes([c, len(b)]) + b for c, b in caps)


def caps_of(lst):
    return [(int(c.service_category), bytes(c.service_capabilities_bytes)) for c in lst]


def boundary_len(rng, mtu, limit):
    """payload lengths around the single/fragmented switch and around whole fragments"""
    c = rng.choice(['switch', 'frag', 'frag', 'small', 'any', 'big'])
    if c == 'switch':
        v = mtu - 2 + rng.choice([-1, 0, 1, 2])
    elif c == 'frag':
        k = rng.randint(1, 6)
        v = k * (mtu - 3) + rng.choice([-1, 0, 1, 2, 3])
    elif c == 'small':
        v = rng.choice([0, 1, 2, 3])
    elif c == 'big':
        v = rng.randint(limit // 2, limit)
    else:
        v = rng.randint(0, limit)
    return max(0, min(limit, v))


async def avdtp_chan_case(case, r: R):
    from bumble import avdtp, core, l2cap
    from vlib import rig as vrig

    rng = random.Random(case['seed'])
    vrig.seed_entropy(case['seed'])
    mtu_a = rng.choice([48, 49, 50, 51, 64, 100, 255, 256, 257, 672, 1024, rng.randint(48, 1024)])
    mtu_b = rng.choice([48, 49, 50, 51, 64, 100, 255, 256, 257, 672, 1024, rng.randint(48, 1024)])
    rg = vrig.Rig(2, seed=case['seed'], max_delay=rng.choice([0, 0, 1, 3]), classic=True,
                  acl_len=[rng.choice([27, 64, 339, 1021]) for _ in range(2)], acl_num=[rng.choice([1, 2, 8]) for _ in range(2)])
    await rg.power_on()
    ca, cb = await rg.connect_classic(0, 1)
    protos = {}

    def on_channel(ch):
        ch.on(ch.EVENT_OPEN, lambda: protos.__setitem__('b', avdtp.Protocol(ch)))

    rg.devices[1].create_l2cap_server(spec=l2cap.ClassicChannelSpec(psm=AVDTP_PSM, mtu=mtu_b), handler=on_channel)
    ch_a = await vloop.vwait(ca.create_l2cap_channel(spec=l2cap.ClassicChannelSpec(psm=AVDTP_PSM, mtu=mtu_a)))
    await rg.quiesce()
    pa, pb = avdtp.Protocol(ch_a), protos['b']
    r.ev('oracle_evals')
    if (ch_a.peer_mtu, pb.l2cap_channel.peer_mtu) != (mtu_b, mtu_a):
        raise RuntimeError(f'harness: MTUs not negotiated as configured: {ch_a.peer_mtu}, {pb.l2cap_channel.peer_mtu}')
    delivered = {'a': [], 'b': []}
    for side, p in (('a', pa), ('b', pb)):
        orig = p.message_assembler.callback

        def cb_(label, message, _side=side, _orig=orig):
            delivered[_side].append((label, int(message.signal_identifier), int(message.message_type),
                                     bytes(message.payload)))
            _orig(label, message)

        p.message_assembler.callback = cb_
    # acceptor endpoint with generated capabilities; records what it is configured with
    configured, security = [], []
    ep_caps = []

    class EP(avdtp.LocalStreamEndPoint):
        async def on_set_configuration_command(self, configuration):
            configured.append(caps_of(configuration))
            return None

        async def on_security_control_command(self, data):
            security.append(bytes(data))
            return None

    ep = EP(pb, 1, avdtp.MediaType.AUDIO, avdtp.StreamEndPointType.SNK, ep_caps)
    pb.local_endpoints.append(ep)
    expected = {'a': [], 'b': []}       # what each side's assembler must deliver, in order

    def lencls(size, mtu):
        # the discriminating class of a message: how its payload relates to the peer MTU
        if size == mtu - 2:
            return 'payload=peer-mtu-2'
        return 'fragmented' if size + 2 > mtu else 'single'

    def case_cls():
        cs = {lencls(sz, m) for _k, sz, m in sample}
        return next((c for c in ('payload=peer-mtu-2', 'fragmented') if c in cs), 'single')

    nmsg = rng.randint(4, 10)
    limit = 2000
    sample = []
    for i in range(nmsg):
        kind = rng.choice(['get-caps', 'set-config', 'security', 'get-caps', 'set-config'])
        tl = pa.transaction_count % 16
        try:
            if kind == 'get-caps':
                n = boundary_len(rng, mtu_a, limit)
                caps = gen_caps(rng, n)
                ep.capabilities = [avdtp.ServiceCapabilities(c, b) for c, b in caps]
                expected['b'].append((tl, SIG_GET_ALL_CAPABILITIES, MT_COMMAND, bytes([1 << 2])))
                expected['a'].append((tl, SIG_GET_ALL_CAPABILITIES, MT_ACCEPT, caps_bytes(caps)))
                cur = (len(caps_bytes(caps)), mtu_a)
                rsp = await vloop.vwait(pa.get_capabilities(1))
                r.ev('oracle_evals')
                if caps_of(rsp.capabilities) != caps:
                    r.bad(f'avdtp/channel/capabilities-differ/response/{lencls(len(caps_bytes(caps)), mtu_a)}',
                          f'{len(caps)} capabilities ({len(caps_bytes(caps))} bytes) to MTU {mtu_a}: got '
                          f'{len(list(rsp.capabilities))} capabilities')
                size, mtu = len(caps_bytes(caps)), mtu_a
            elif kind == 'set-config':
                n = max(0, boundary_len(rng, mtu_b, limit) - 2)
                caps = gen_caps(rng, n)
                ep.stream = None
                int_seid = rng.randint(1, 0x3E)
                expected['b'].append((tl, SIG_SET_CONFIGURATION, MT_COMMAND,
                                      bytes([1 << 2, int_seid << 2]) + caps_bytes(caps)))
                expected['a'].append((tl, SIG_SET_CONFIGURATION, MT_ACCEPT, b''))
                before = len(configured)
                cur = (len(caps_bytes(caps)) + 2, mtu_b)
                await vloop.vwait(pa.set_configuration(1, int_seid, [avdtp.ServiceCapabilities(c, b) for c, b in caps]))
                r.ev('oracle_evals')
                if len(configured) != before + 1 or configured[-1] != caps:
                    r.bad(f'avdtp/channel/capabilities-differ/command/{lencls(len(caps_bytes(caps)) + 2, mtu_b)}',
                          f'{len(caps)} capabilities ({len(caps_bytes(caps)) + 2} bytes) to MTU {mtu_b}: endpoint was '
                          f'configured {len(configured) - before} times')
                size, mtu = len(caps_bytes(caps)) + 2, mtu_b
            else:
                n = max(1, boundary_len(rng, mtu_b, limit))
                data = bytes(rng.getrandbits(8) for _ in range(n - 1))
                expected['b'].append((tl, SIG_SECURITY_CONTROL, MT_COMMAND, bytes([1 << 2]) + data))
                expected['a'].append((tl, SIG_SECURITY_CONTROL, MT_ACCEPT, b''))
                before = len(security)
                cur = (n, mtu_b)
                await vloop.vwait(pa.send_command(avdtp.Security_Control_Command(1, data)))
                r.ev('oracle_evals')
                if len(security) != before + 1 or security[-1] != data:
                    r.bad(f'avdtp/channel/payload-differs/command/{lencls(n, mtu_b)}',
                          f'security data of {n - 1} bytes to MTU {mtu_b}')
                size, mtu = n, mtu_b
        except vloop.Hang:
            sample.append((kind,) + cur)
            r.bad(f'avdtp/channel/hang/{kind}/{lencls(*cur)}',
                  f'{kind} with a {cur[0]}-byte payload to peer MTU {cur[1]} pending at T_v; delivered '
                  f'a={len(delivered["a"])} b={len(delivered["b"])}')
            break
        except core.ProtocolError as e:
            sample.append((kind,) + cur)
            r.bad(f'avdtp/channel/rejected/{kind}/{lencls(*cur)}', f'{kind}: {e} ({cur[0]}-byte payload, peer MTU {cur[1]})')
            break
        r.ev('avdtp_chan_messages', 2)
        if size + 2 > mtu:
            r.ev('avdtp_chan_fragmented')
        sample.append((kind, size, mtu))
    await rg.quiesce()
    # delivered == expected, byte for byte and in order
    for side in ('a', 'b'):
        r.ev('oracle_evals')
        if delivered[side] != expected[side]:
            k = next((i for i in range(min(len(delivered[side]), len(expected[side])))
                      if delivered[side][i] != expected[side][i]), min(len(delivered[side]), len(expected[side])))
            g_ = delivered[side][k] if k < len(delivered[side]) else None
            w_ = expected[side][k] if k < len(expected[side]) else None
            cls = 'lost' if g_ is None else 'surplus' if w_ is None else (
                'payload-differs' if g_[:3] == w_[:3] else 'header-differs')
            ref = w_ if w_ is not None else g_
            r.bad(f'avdtp/channel/delivered-{cls}/{lencls(len(ref[3]), mtu_a if side == "a" else mtu_b)}',
                  f'receiver {side} message #{k}: got {None if g_ is None else (g_[:3], len(g_[3]))} want '
                  f'{None if w_ is None else (w_[:3], len(w_[3]))} (MTUs a={mtu_a} b={mtu_b})')
    # wire: every packet within the receiver's MTU, trains well formed, reassembly == expected
    for dev, rx_mtu, side in ((0, mtu_b, 'b'), (1, mtu_a, 'a')):
        ra = rs.AvdtpReassembler()
        msgs = []
        for _seq, _d, direction, _h, cid, payload in vrig.l2cap_log(rg.boundary_log, dev=dev, direction=vrig.H2C):
            if cid < 0x40:
                continue
            r.ev('avdtp_wire_packets')
            r.ev('oracle_evals')
            if len(payload) > rx_mtu:
                r.bad('avdtp/wire/packet-exceeds-peer-mtu', f'{len(payload)}-byte signalling packet to a peer with MTU {rx_mtu}')
            m = ra.feed(payload)
            if m is not None:
                msgs.append(m)
        r.ev('oracle_evals')
        if ra.errors:
            r.bad(f'avdtp/wire/malformed-train/{case_cls()}', f'{ra.errors[:3]} (sender dev{dev}, peer MTU {rx_mtu})')
        elif msgs != expected[side][:len(msgs)] or len(msgs) < len(delivered[side]):
            r.bad(f'avdtp/wire/message-differs/{case_cls()}', f'reference reassembly of dev{dev} output differs from what was sent '
                                                f'({len(msgs)} messages, peer MTU {rx_mtu})')
    for where, e in rg.exceptions:
        r.bad(f'avdtp/channel/exception-in-stack/{case_cls()}', f'{where}: {e}')
    if any(sz + 2 > m for _k, sz, m in sample):
        r.sig('avdtp-chan', mtu_a, mtu_b, tuple(sample))
    r.sched.add(rg.schedule_signature)
    r.evals()
    r.sample = {'kind': 'avdtp-chan', 'mtu_a': mtu_a, 'mtu_b': mtu_b, 'messages(kind,payload,peer_mtu)': sample[:8]}


AVDTP_FAULTS = ['unfinished', 'drop-start', 'drop-continue', 'drop-end', 'dup-start', 'dup-continue', 'dup-end',
                'relabel-continue', 'retype-continue', 'stray-continue', 'stray-end', 'empty-pdu', 'short-start',
                'count-too-big', 'count-too-small']


def break_train(rng, fault, train, relabel):
    """train: list of packets of one fragmented message (>= 3 packets). Returns the packets
    actually fed for the broken message."""
    t = list(train)
    mid = rng.randrange(1, len(t) - 1)
    if fault == 'unfinished':
        return t[:rng.randrange(1, len(t))]
    if fault == 'drop-start':
        return t[1:]
    if fault == 'drop-continue':
        return t[:mid] + t[mid + 1:]
    if fault == 'drop-end':
        return t[:-1]
    if fault == 'dup-start':
        return [t[0]] + t
    if fault == 'dup-continue':
        return t[:mid] + [t[mid]] + t[mid:]
    if fault == 'dup-end':
        return t + [t[-1]]
    if fault == 'relabel-continue':
        k = rng.randrange(1, len(t))
        return t[:k] + [relabel(t[k])] + t[k + 1:]
    if fault == 'stray-continue':
        return [t[mid]]
    if fault == 'stray-end':
        return [t[-1]]
    raise ValueError(fault)


def judge_deliveries(r, proto, delivered, items, faults_used, basic_broken=False):
    """items: [(original tuple, good?, class)] in feeding order. Every good one exactly once
    and in order; a broken one at most once and only unaltered; nothing else.
    basic_broken: a fault-free history already showed that clean fragmented messages are
    not delivered at all; such losses are then reported under that one key."""
    fault = '+'.join(sorted(faults_used)) or 'no-fault'

    def lost_key(cls):
        if cls == 'fragmented' and basic_broken:
            return f'{proto}/assembler/good-message-lost/fragmented/after-no-fault'
        return f'{proto}/assembler/good-message-lost/{cls}/after-{fault}'
    want = [m for m, good, _f in items if good]
    pos = 0
    seen_broken = set()
    ok = True
    for d in delivered:
        if pos < len(want) and d == want[pos]:
            pos += 1
            continue
        bi = next((i for i, (m, good, _f) in enumerate(items) if not good and m == d and i not in seen_broken), None)
        if bi is not None:
            seen_broken.add(bi)
            continue
        ok = False
        if d in want[pos:]:
            k = want.index(d, pos)
            lost = want[pos]
            lost_item = next(it for it in items if it[1] and it[0] == lost)
            r.bad(lost_key(lost_item[2]),
                  f'good message #{pos} ({lost[:-1]}, {len(lost[-1])} payload bytes) never delivered (fault: {fault})')
            pos = k + 1
        elif d in want[:pos]:
            r.bad(f'{proto}/assembler/delivered-twice/after-{fault}', f'{str(d)[:120]} delivered again')
        else:
            # (when even fault-free fragmented messages are mangled, fragments that slip through by
            # accident are the same mechanism: one key, like the losses above)
            r.bad(f'{proto}/assembler/corrupt-delivery/after-' + ('no-fault' if basic_broken else fault),
                  f'delivered {str(d[:-1])} with {len(d[-1])} payload bytes, which is none of the messages fed '
                  f'(fault: {fault})')
    if ok and pos < len(want):
        lost = want[pos]
        lost_item = next(it for it in items if it[1] and it[0] == lost)
        r.bad(lost_key(lost_item[2]),
              f'good message #{pos} of {len(want)} ({lost[:-1]}, {len(lost[-1])} payload bytes) never delivered; '
              f'{len(delivered)} deliveries (fault: {fault})')
        ok = False
    return ok


def avdtp_opaque_message(rng, idx, n):
    """(signal, message type, payload of n bytes) whose payload bumble keeps opaque or
    parses as capabilities."""
    c = rng.choice(['sec-cmd', 'sec-rsp', 'caps-rsp', 'general-reject'])
    if c == 'sec-cmd':
        n = max(1, n)
        return SIG_SECURITY_CONTROL, MT_COMMAND, bytes([rng.randint(1, 0x3E) << 2]) + bytes(
            (idx + i * 5) & 0xFF for i in range(n - 1))
    if c == 'sec-rsp':
        return SIG_SECURITY_CONTROL, MT_ACCEPT, bytes((idx * 3 + i) & 0xFF for i in range(n))
    if c == 'caps-rsp':
        return rng.choice([SIG_GET_CAPABILITIES, SIG_GET_ALL_CAPABILITIES]), MT_ACCEPT, caps_bytes(gen_caps(rng, n))
    return rng.choice([SIG_SECURITY_CONTROL, 0x06, 0x07]), MT_GENERAL_REJECT, bytes((idx + i) & 0xFF for i in range(n))


def avdtp_asm_history(rng, r: R, force_fault=None, basic_broken=False):
    from bumble import avdtp

    delivered = []
    asm = avdtp.MessageAssembler(lambda label, m: delivered.append(
        (label, int(m.signal_identifier), int(m.message_type), bytes(m.payload))))
    mtu = rng.choice([48, 49, 64, 100, 256, 672, 1024, rng.randint(48, 1024)])
    nitems = rng.randint(2, 6)
    fault = force_fault or rng.choice(AVDTP_FAULTS)
    items, fed, used = [], [], set()
    broken_at = rng.randrange(0, nitems - 1) if fault != 'none' else -1
    raised = 0
    label0 = rng.randrange(16)

    def feed(p):
        nonlocal raised
        fed.append(p)
        try:
            asm.on_pdu(p)
        except Exception:
            raised += 1

    for i in range(nitems):
        broken = i == broken_at or (fault != 'none' and i < nitems - 1 and i != broken_at + 1 and rng.random() < 0.15)
        label = (label0 + i) % 16        # distinct within a history
        if broken or rng.random() < 0.6:
            n = rng.choice([2 * (mtu - 3) + rng.randint(1, mtu), rng.randint(min(1900, 2 * mtu), min(2000, 6 * mtu)),
                            3 * (mtu - 1) - 2 + rng.choice([-1, 0, 1])])
        else:
            n = boundary_len(rng, mtu, 2000)
        sig, mt, payload = avdtp_opaque_message(rng, i, min(n, 2000))
        orig = (label, sig, mt, payload)
        if rng.random() < 0.5 or len(payload) + 2 <= mtu:
            train = rs.avdtp_fragment(label, mt, sig, payload, mtu)
        else:
            k = rng.randint(3, 8)
            cut = sorted(rng.randint(0, len(payload)) for _ in range(k - 1))
            sizes = [b - a for a, b in zip([0] + cut, cut + [len(payload)])]
            train = rs.avdtp_fragment_sized(label, mt, sig, payload, sizes)
        if not broken:
            items.append((orig, True, 'fragmented' if len(train) > 1 else 'single'))
            if len(train) > 1:
                r.ev('avdtp_asm_fragmented_good')
            if used:
                r.ev('avdtp_asm_good_after_fault')
            for p in train:
                feed(p)
            continue
        if len(train) < 3:
            train = rs.avdtp_fragment_sized(label, mt, sig, payload + bytes(3), [1, 1, len(payload) + 1])
            orig = (label, sig, mt, payload + bytes(3))
        used.add(fault)
        if fault == 'retype-continue':
            k = rng.randrange(1, len(train))
            pk = train[k]
            broken_train = train[:k] + [bytes([pk[0] ^ rng.choice([1, 2, 3])]) + pk[1:]] + train[k + 1:]
        elif fault == 'empty-pdu':
            k = rng.randrange(1, len(train))
            broken_train = train[:k] + [b''] + train[k:]
        elif fault == 'short-start':
            broken_train = [train[0][:rng.choice([1, 2])]] + train[1:]
        elif fault == 'count-too-big':
            broken_train = [train[0][:2] + bytes([train[0][2] + 1]) + train[0][3:]] + train[1:]
        elif fault == 'count-too-small':
            broken_train = [train[0][:2] + bytes([train[0][2] - 1]) + train[0][3:]] + train[1:]
        else:
            broken_train = break_train(rng, fault, train,
                                       lambda pk: bytes([(pk[0] + (rng.randrange(1, 16) << 4)) & 0xFF]) + pk[1:])
        items.append((orig, False, 'broken'))
        for p in broken_train:
            feed(p)
    r.ev('avdtp_asm_packets', len(fed))
    r.ev('avdtp_asm_exceptions_from_on_pdu', raised)
    r.ev('oracle_evals')
    ok = judge_deliveries(r, 'avdtp', delivered, items, used, basic_broken)
    if not ok and r.sample is None:
        r.sample = {'kind': 'avdtp-asm', 'fault': fault, 'mtu': mtu,
                    'items': [(m[:3], len(m[3]), g) for m, g, _f in items], 'fed': [p[:4].hex() for p in fed][:30]}
    r.sig('avdtp-asm', fault, mtu, tuple((m[:3], len(m[3]), g) for m, g, _f in items))
    r.evals()
    return ok, {'kind': 'avdtp-asm', 'fault': fault, 'mtu': mtu, 'items': [(list(m[:3]), len(m[3]), g) for m, g, _f in items]}


# =============================================================================
# AVCTP
# =============================================================================
AVCTP_FAULTS = ['none', 'none', 'unfinished', 'drop-start', 'drop-continue', 'drop-end', 'dup-start', 'dup-continue',
                'dup-end', 'relabel-continue', 'flip-cr-continue', 'stray-continue', 'stray-end', 'count-too-big',
                'count-too-small']


def avctp_history(rng, r: R, force_fault=None, basic_broken=False):
    from bumble import avctp

    delivered = []
    asm = avctp.MessageAssembler(lambda label, is_command, ipid, pid, payload: delivered.append(
        (label, bool(is_command), bool(ipid), pid, bytes(payload))))
    nitems = rng.randint(2, 6)
    fault = force_fault or rng.choice(AVCTP_FAULTS)
    items, used, fed = [], set(), []
    broken_at = rng.randrange(0, nitems - 1) if fault != 'none' else -1
    raised = 0
    label0 = rng.randrange(16)

    def feed(p):
        nonlocal raised
        fed.append(p)
        try:
            asm.on_pdu(p)
        except Exception:
            raised += 1

    for i in range(nitems):
        broken = i == broken_at
        label = (label0 + i) % 16        # distinct within a history
        cr = rng.randrange(2)
        pid = rng.choice([0x110E, 0x110C, 0x0000, 0xFFFF, rng.getrandbits(16)])
        n = rng.choice([0, 1, 2, 3, 7, 508, 509, 512, 1500, rng.randint(0, 1500), rng.randint(0, 1500)])
        payload = bytes((i * 11 + j * 3) & 0xFF for j in range(n))
        if broken:
            payload = payload + bytes(range(3))
        style = rng.choice(['single', 'mtu', 'mtu', 'sized', 'sized']) if not broken else 'sized'
        if style == 'single':
            ipid = 1 if (cr == 1 and rng.random() < 0.1) else 0
            train = [rs.avctp_single(label, cr, ipid, pid, payload)]
            orig = (label, cr == 0, bool(ipid), pid, payload)
        else:
            if style == 'mtu':
                train = rs.avctp_fragment_mtu(label, cr, pid, payload, rng.choice([48, 64, 128, 335, 672, 1024]))
            else:
                k = rng.randint(3 if broken else 2, 9)
                cut = sorted(rng.randint(0, len(payload)) for _ in range(k - 1))
                sizes = [b - a for a, b in zip([0] + cut, cut + [len(payload)])]
                train = rs.avctp_fragment(label, cr, pid, payload, sizes)
            orig = (label, cr == 0, False, pid, payload)
        if not broken:
            items.append((orig, True, 'fragmented' if len(train) > 1 else 'single'))
            if len(train) > 1:
                r.ev('avctp_asm_fragmented_good')
            if used:
                r.ev('avctp_asm_good_after_fault')
            for p in train:
                feed(p)
            continue
        used.add(fault)
        if fault == 'flip-cr-continue':
            k = rng.randrange(1, len(train))
            broken_train = train[:k] + [bytes([train[k][0] ^ 2]) + train[k][1:]] + train[k + 1:]
        elif fault == 'count-too-big':
            broken_train = [train[0][:1] + bytes([train[0][1] + 1]) + train[0][2:]] + train[1:]
        elif fault == 'count-too-small':
            broken_train = [train[0][:1] + bytes([train[0][1] - 1]) + train[0][2:]] + train[1:]
        else:
            broken_train = break_train(rng, fault, train,
                                       lambda pk: bytes([(pk[0] + (rng.randrange(1, 16) << 4)) & 0xFF]) + pk[1:])
        items.append((orig, False, 'broken'))
        for p in broken_train:
            feed(p)
    r.ev('avctp_asm_packets', len(fed))
    r.ev('avctp_asm_exceptions_from_on_pdu', raised)
    r.ev('oracle_evals')
    ok = judge_deliveries(r, 'avctp', delivered, items, used, basic_broken)
    if not ok and r.sample is None:
        r.sample = {'kind': 'avctp-asm', 'fault': fault, 'items': [(m[:4], len(m[4]), g) for m, g, _f in items],
                    'fed': [p[:5].hex() for p in fed][:30]}
    r.sig('avctp-asm', fault, tuple((m[:4], len(m[4]), f) for m, _g, f in items))
    r.evals()
    return ok, {'kind': 'avctp-asm', 'fault': fault, 'items': [(list(m[:4]), len(m[4]), f) for m, _g, f in items]}


async def avctp_chan_case(case, r: R):
    """Fragment trains written by the harness into a real L2CAP channel whose other end is a
    bumble avctp.Protocol with command / response handlers registered for the PID."""
    from bumble import avctp, l2cap
    from vlib import rig as vrig

    rng = random.Random(case['seed'])
    vrig.seed_entropy(case['seed'])
    mtu_b = rng.choice([48, 64, 128, 335, 672, 1024])
    rg = vrig.Rig(2, seed=case['seed'], max_delay=rng.choice([0, 1, 3]), classic=True,
                  acl_len=[rng.choice([27, 64, 339, 1021]) for _ in range(2)])
    await rg.power_on()
    ca, _cb = await rg.connect_classic(0, 1)
    got = []
    PID = 0x110E
    protos = {}

    def on_channel(ch):
        p = avctp.Protocol(ch)
        p.register_command_handler(PID, lambda label, payload: got.append((label, True, bytes(payload))))
        p.register_response_handler(PID, lambda label, payload: got.append((label, False, bytes(payload or b''))))
        protos['b'] = p

    rg.devices[1].create_l2cap_server(spec=l2cap.ClassicChannelSpec(psm=AVCTP_PSM, mtu=mtu_b), handler=on_channel)
    ch = await vloop.vwait(ca.create_l2cap_channel(spec=l2cap.ClassicChannelSpec(psm=AVCTP_PSM, mtu=1024)))
    await rg.quiesce()
    want = []
    sizes = []
    for i in range(rng.randint(4, 10)):
        label, cr = rng.randrange(16), rng.randrange(2)
        n = rng.choice([0, 1, mtu_b - 4, mtu_b - 3, mtu_b - 2, 2 * mtu_b, 1500, rng.randint(0, 1500)])
        payload = bytes((i * 13 + j) & 0xFF for j in range(n))
        broken = rng.random() < 0.2
        train = rs.avctp_fragment_mtu(label, cr, PID, payload, mtu_b)
        if broken and len(train) >= 2:
            train = train[:-1]        # unfinished train, then the next message
        else:
            want.append((label, cr == 0, payload))
            r.ev('avctp_chan_messages')
            if len(train) > 1:
                r.ev('avctp_chan_fragmented')
        sizes.append((n, len(train), broken))
        for p in train:
            ch.write(p)
            if rng.random() < 0.3:
                await asyncio.sleep(0)
    await rg.quiesce()
    r.ev('oracle_evals')
    if got != want:
        k = next((i for i in range(min(len(got), len(want))) if got[i] != want[i]), min(len(got), len(want)))
        w_ = want[k] if k < len(want) else None
        frag = w_ is not None and len(w_[2]) + 3 > mtu_b
        r.bad('avctp/channel/' + ('fragmented-message-not-delivered' if frag else 'message-not-delivered'),
              f'handler got {len(got)} of {len(want)} messages; first difference at #{k}: want '
              f'{None if w_ is None else (w_[0], w_[1], len(w_[2]))} got '
              f'{None if k >= len(got) else (got[k][0], got[k][1], len(got[k][2]))} (receiver MTU {mtu_b})')
    for where, e in rg.exceptions:
        if any(nfr > 1 for _n, nfr, _b in sizes) and 'unpack_from requires a buffer' in str(e):
            # the one known mechanism (known_findings: CONTINUE/END packets are parsed as if they carried a PID):
            # a last fragment with fewer than two payload bytes makes that read fail outright
            r.bad('avctp/channel/fragmented-message-not-delivered',
                  f'{where}: {e} (a CONTINUE/END packet shorter than header + PID; receiver MTU {mtu_b}, trains {sizes})')
            continue
        r.bad('avctp/channel/exception-in-stack', f'{where}: {e}')
    r.sig('avctp-chan', mtu_b, tuple(sizes))
    r.sched.add(rg.schedule_signature)
    r.evals()
    r.sample = {'kind': 'avctp-chan', 'receiver_mtu': mtu_b, 'messages(payload,packets,broken)': sizes}


# =============================================================================
# AVDTP stream state machines
# =============================================================================
def nth_sequence(index, max_len):
    """index-th sequence in the enumeration of all op sequences of length 1..max_len."""
    n = 1
    while index >= 6 ** n:
        index -= 6 ** n
        n += 1
    seq = []
    for _ in range(n):
        seq.append(index % 6)
        index //= 6
    return tuple(reversed(seq))


def sbc_caps(avdtp, a2dp, sink):
    I = a2dp.SbcMediaCodecInformation
    if sink:
        info = I(sampling_frequency=I.SamplingFrequency.SF_48000 | I.SamplingFrequency.SF_44100,
                 channel_mode=I.ChannelMode.MONO | I.ChannelMode.JOINT_STEREO | I.ChannelMode.STEREO,
                 block_length=I.BlockLength.BL_4 | I.BlockLength.BL_8 | I.BlockLength.BL_12 | I.BlockLength.BL_16,
                 subbands=I.Subbands.S_4 | I.Subbands.S_8,
                 allocation_method=I.AllocationMethod.LOUDNESS | I.AllocationMethod.SNR,
                 minimum_bitpool_value=2, maximum_bitpool_value=53)
    else:
        info = I(sampling_frequency=I.SamplingFrequency.SF_44100, channel_mode=I.ChannelMode.JOINT_STEREO,
                 block_length=I.BlockLength.BL_16, subbands=I.Subbands.S_8,
                 allocation_method=I.AllocationMethod.LOUDNESS, minimum_bitpool_value=2, maximum_bitpool_value=53)
    return avdtp.MediaCodecCapabilities(media_type=avdtp.MediaType.AUDIO, media_codec_type=a2dp.CodecType.SBC,
                                        media_codec_information=info)


async def stream_case(case, r: R):
    from bumble import a2dp, avdtp, core, l2cap
    from vlib import rig as vrig

    rng = random.Random(case['seed'])
    vrig.seed_entropy(case['seed'])
    mode = case['mode']
    if 'random' in case:
        seqs = [tuple(rng.randrange(6) for _ in range(rng.randint(6, 12))) for _ in range(case['random'])]
        # bias half of them towards legal moves so that deep states are reached
        for i in range(0, len(seqs), 2):
            st, out = rs.IDLE, []
            for _ in range(len(seqs[i])):
                legal = [k for k, op in enumerate(rs.STREAM_OPS) if rs.stream_next(st, op)]
                k = rng.choice(legal) if rng.random() < 0.75 else rng.randrange(6)
                out.append(k)
                st = rs.stream_next(st, rs.STREAM_OPS[k]) or st
            seqs[i] = tuple(out)
    else:
        seqs = [nth_sequence(i, case['enum_len']) for i in range(case['lo'], case['hi'])]
    rg = vrig.Rig(2, seed=case['seed'], max_delay=rng.choice([0, 0, 1, 2]), classic=True)
    await rg.power_on()
    ca, cb = await rg.connect_classic(0, 1)
    servers = []
    listener = avdtp.Listener.for_device(rg.devices[1])
    listener.on('connection', servers.append)
    client = await vloop.vwait(avdtp.Protocol.connect(ca))
    await rg.quiesce()
    server = servers[0]
    first = True
    State = avdtp.State

    def name(st):
        return State(st).name

    for seq in seqs:
        if len(server.local_endpoints) >= 60:
            break
        sink = server.add_sink(sbc_caps(avdtp, a2dp, True))
        source = client.add_source(sbc_caps(avdtp, a2dp, False), None)
        if first:
            eps = list(await vloop.vwait(client.discover_remote_endpoints()))
            proxy = next(e for e in eps if e.seid == sink.seid)
            first = False
        else:
            proxy = avdtp.StreamEndPointProxy(client, sink.seid)
        stream = None
        transport = None
        if mode == 'api':
            stream = avdtp.Stream(client, source, proxy)
            client.streams[source.seid] = stream
        model = rs.IDLE
        legal_moves = 0
        had_illegal = False
        ops_done = []

        def states():
            snk = name(sink.stream.state) if sink.stream is not None else rs.IDLE
            src = name(stream.state) if stream is not None else None
            return src, snk

        for k in seq:
            op = rs.STREAM_OPS[k]
            before = states()
            nxt = rs.stream_next(model, op)
            outcome = 'ok'
            try:
                if mode == 'api':
                    if op == 'configure':
                        await vloop.vwait(client.create_stream(source, proxy))
                    elif op == 'open':
                        await vloop.vwait(stream.open())
                    elif op == 'start':
                        await vloop.vwait(stream.start())
                    elif op == 'suspend':
                        await vloop.vwait(stream.stop())
                    elif op == 'close':
                        await vloop.vwait(stream.close())
                    elif hasattr(stream, 'abort'):
                        await vloop.vwait(stream.abort())
                    else:
                        await vloop.vwait(stream.remote_endpoint.abort())
                else:
                    # raw signalling commands against the acceptor; the harness plays the
                    # initiator's part of the transport channel as AVDTP 6.x prescribes
                    if op == 'configure':
                        await vloop.vwait(client.set_configuration(sink.seid, source.seid, source.configuration))
                    elif op == 'open':
                        await vloop.vwait(client.open(sink.seid))
                        transport = await vloop.vwait(ca.create_l2cap_channel(spec=l2cap.ClassicChannelSpec(psm=AVDTP_PSM)))
                    elif op == 'start':
                        await vloop.vwait(client.start([sink.seid]))
                    elif op == 'suspend':
                        await vloop.vwait(client.suspend([sink.seid]))
                    elif op == 'close':
                        await vloop.vwait(client.close(sink.seid))
                        if transport is not None:
                            await vloop.vwait(transport.disconnect())
                            transport = None
                    else:
                        await vloop.vwait(client.abort(sink.seid))
                        if transport is not None:
                            await vloop.vwait(transport.disconnect())
                            transport = None
            except vloop.Hang:
                r.bad(f'stream/{mode}/hang/{op}/in-{model}', f'{op} in {model} pending at T_v; ops so far {ops_done}')
                outcome = 'hang'
            except (core.ProtocolError, core.InvalidStateError) as e:
                outcome = f'refused:{type(e).__name__}'
            except Exception as e:
                outcome = f'raised:{type(e).__name__}: {e}'
            try:
                await rg.quiesce()
            except vloop.Hang:
                r.bad(f'stream/{mode}/livelock/{op}/in-{model}', 'signalling never quiesces')
                return
            after = states()
            ops_done.append((op, outcome, after))
            r.ev('stream_ops')
            r.ev(f'stream_{mode}_ops')
            r.ev('stream_state_comparisons')
            r.ev('oracle_evals')
            if outcome == 'hang':
                break
            ctx = (f'{mode}: {op} in {model} -> {outcome}; source,sink before={before} after={after}; '
                   f'sequence {[rs.STREAM_OPS[x] for x in seq]} history {ops_done[-6:]}')
            if outcome.startswith('raised'):
                r.bad(f'stream/{mode}/raised/{op}/in-{model}', ctx)
                break
            accepted = outcome == 'ok'
            both = [s for s in after if s is not None]
            if nxt is None:
                r.ev('stream_illegal_ops')
                had_illegal = True
                tolerated = None
                if op == 'abort' and model == rs.IDLE:
                    tolerated = rs.IDLE                       # answered either way, still IDLE
                elif op == 'start' and model == rs.CONFIGURED and mode == 'api' and accepted:
                    tolerated = rs.STREAMING                  # documented auto-open
                if tolerated is not None:
                    if any(s != tolerated for s in both):
                        r.bad(f'stream/{mode}/disagree/after-{op}/from-{model}', ctx)
                        break
                    model = tolerated
                    continue
                if accepted:
                    r.bad(f'stream/{mode}/illegal-accepted/{op}/in-{model}', ctx)
                    break
                if after != before or any(s != model for s in both):
                    r.bad(f'stream/{mode}/illegal-changed-state/{op}/in-{model}', ctx)
                    break
                continue
            if not accepted:
                r.bad(f'stream/{mode}/legal-refused/{op}/in-{model}', ctx)
                break
            legal_moves += 1
            if any(s != nxt for s in both):
                which = 'disagree' if len(both) == 2 and both[0] != both[1] else 'wrong-state'
                r.bad(f'stream/{mode}/{which}/after-{op}/from-{model}', ctx)
                break
            model = nxt
        r.ev('stream_sequences')
        if had_illegal or legal_moves >= 3:
            r.sig('stream', mode, seq)
        r.evals()
        # leave nothing behind for the next sequence (not judged)
        try:
            if transport is not None:
                await vloop.vwait(transport.disconnect())
            if stream is not None and stream.rtp_channel is not None:
                await vloop.vwait(stream.rtp_channel.disconnect())
                stream.rtp_channel = None
            if sink.stream is not None and sink.stream.state != State.IDLE:
                await vloop.vwait(client.abort(sink.seid))
            server.channel_acceptor = None
            await rg.quiesce()
        except Exception:
            pass
        r.sample = {'kind': 'stream', 'mode': mode, 'sequence': [rs.STREAM_OPS[x] for x in seq],
                    'trace(op,outcome,(source,sink))': ops_done[:12]}
    for where, e in rg.exceptions:
        r.bad(f'stream/{mode}/exception-in-stack', f'{where}: {e}')
    r.sched.add(rg.schedule_signature)

# =============================================================================
# AVDTP stream procedures REFUSED by the peer
# =============================================================================
REFUSE_HOOKS = {'configure': 'on_set_configuration_command', 'open': 'on_open_command', 'start': 'on_start_command',
                'suspend': 'on_suspend_command', 'close': 'on_close_command', 'reconfigure': 'on_reconfigure_command'}
REFUSE_NEXT = {rs.IDLE: ['configure'], rs.CONFIGURED: ['open'], rs.OPEN: ['start', 'start', 'close', 'reconfigure'],
               rs.STREAMING: ['suspend', 'suspend', 'close']}
REFUSE_AFTER = dict(rs.STREAM_TABLE)
REFUSE_AFTER[(rs.OPEN, 'reconfigure')] = rs.OPEN


async def stream_refuse_case(case, r: R):
    """The initiator walks a stream along LEGAL procedures through the Stream API (configure, open, start, suspend,
    close; reconfigure as a raw command) while the peer REFUSES some of them: its sink application answers the command
    with the signal's reject, or (configure) the sink end-point is held by ANOTHER local source at that moment. A refused
    procedure raises at the caller and changes neither the LOCAL stream state nor the remote one (the refused source is
    not in use); the same procedure, the peer now willing, then succeeds with both ends in the next state; every history
    ends with a whole successful cycle on the same end-points."""
    from bumble import a2dp, avdtp, core
    from vlib import rig as vrig

    rng = random.Random(case['seed'] ^ 0x4EF5)
    vrig.seed_entropy(case['seed'])
    rg = vrig.Rig(2, seed=case['seed'], max_delay=rng.choice([0, 0, 1, 2]), classic=True)
    await rg.power_on()
    ca, cb = await rg.connect_classic(0, 1)
    servers = []
    listener = avdtp.Listener.for_device(rg.devices[1])
    listener.on('connection', servers.append)
    client = await vloop.vwait(avdtp.Protocol.connect(ca))
    await rg.quiesce()
    server = servers[0]
    State = avdtp.State
    err = avdtp.AVDTP_UNSUPPORTED_CONFIGURATION_ERROR
    armed = {}          # (sink seid, op) -> True: the sink application refuses the next such command
    refusals_made = []

    def install(sink):
        def reject_for(op):
            if op in ('configure', 'reconfigure'):
                cls = avdtp.Set_Configuration_Reject if op == 'configure' else avdtp.Reconfigure_Reject
                return cls(service_category=avdtp.AVDTP_MEDIA_CODEC_SERVICE_CATEGORY, error_code=err)
            if op in ('start', 'suspend'):
                return (avdtp.Start_Reject if op == 'start' else avdtp.Suspend_Reject)(sink.seid, err)
            return (avdtp.Open_Reject if op == 'open' else avdtp.Close_Reject)(err)
        for op, method in REFUSE_HOOKS.items():
            stock = getattr(sink, method)

            async def hook(*a, _stock=stock, _op=op, **kw):
                if armed.pop((sink.seid, _op), None):
                    refusals_made.append((sink.seid, _op))
                    return reject_for(_op)
                return await _stock(*a, **kw)
            setattr(sink, method, hook)

    def nm(st):
        return State(st).name

    for h in range(case.get('histories', 10)):
        if len(server.local_endpoints) >= 58 or len(client.local_endpoints) >= 58:
            break
        sink = server.add_sink(sbc_caps(avdtp, a2dp, True))
        install(sink)
        src_a = client.add_source(sbc_caps(avdtp, a2dp, False), None)
        src_b = client.add_source(sbc_caps(avdtp, a2dp, False), None)
        proxy = avdtp.StreamEndPointProxy(client, sink.seid)
        trace = []
        streams = {}

        def local(src):
            return nm(src.stream.state) if src.stream is not None else rs.IDLE

        def remote():
            return nm(sink.stream.state) if sink.stream is not None else rs.IDLE

        async def do(src, op):
            """One procedure through the initiator API. Returns 'ok' or 'refused:<error>'."""
            try:
                if op == 'configure':
                    streams[src.seid] = await vloop.vwait(client.create_stream(src, proxy))
                elif op == 'open':
                    await vloop.vwait(streams[src.seid].open())
                elif op == 'start':
                    await vloop.vwait(streams[src.seid].start())
                elif op == 'suspend':
                    await vloop.vwait(streams[src.seid].stop())
                elif op == 'close':
                    await vloop.vwait(streams[src.seid].close())
                else:
                    await vloop.vwait(client.send_command(avdtp.Reconfigure_Command(sink.seid, [sbc_caps(avdtp, a2dp, False)])))
                out = 'ok'
            except core.ProtocolError as e:
                out = f'refused:ProtocolError({e.error_code:#x})'
            except core.InvalidStateError as e:
                out = f'refused-locally:{e}'
            await rg.quiesce()
            return out

        def ctx():
            return f'history {trace}'

        async def step(src, op, model, how):
            """`op` (legal in `model`), refused by the peer in the way `how` (or not refused when None), then done
            for good. Returns the new model state or None when the history must stop."""
            r.ev('stream_refuse_steps')
            if how is not None:
                other_stream = None
                if how == 'sep-in-use':
                    # the sink is taken by the other source at that moment
                    if await do(src_b, 'configure') != 'ok':
                        r.bad('stream/refused/configure/sep-in-use/other-source-cannot-configure', ctx())
                        return None
                    other_stream = sink.stream
                    trace.append(('configure-by-other-source', 'ok', local(src_b), remote()))
                else:
                    armed[(sink.seid, op)] = True
                before = (local(src), remote())
                out = await do(src, op)
                armed.pop((sink.seid, op), None)
                after = (local(src), remote())
                trace.append((op, how, out, after))
                r.ev('stream_refusals')
                r.ev(f'stream_refusals_{op}_{how.replace("-", "_")}')
                r.ev('stream_state_comparisons', 2)
                r.ev('oracle_evals', 3)
                key = f'stream/refused/{op}/{how}'
                if out == 'ok':
                    r.bad(f'{key}/not-reported-to-caller', f'the peer refused {op}, the call returned normally; {ctx()}')
                    return None
                if out != f'refused:ProtocolError({0x13 if how == "sep-in-use" else int(err):#x})':
                    r.bad(f'{key}/wrong-error', f'{out}; {ctx()}')
                    return None
                if after[0] != before[0]:
                    r.bad(f'{key}/local-state-changed/from-{before[0]}-to-{after[0]}',
                          f'{op} refused by the peer ({out}): the LOCAL stream went from {before[0]} to {after[0]} '
                          f'(remote {before[1]} -> {after[1]}); {ctx()}')
                    return None
                if after[1] != before[1] or (other_stream is not None and sink.stream is not other_stream):
                    r.bad(f'{key}/remote-state-changed/from-{before[1]}-to-{after[1]}',
                          f'{op} refused by the peer ({out}): remote {before[1]} -> {after[1]}; {ctx()}')
                    return None
                if bool(src.in_use) != (before[0] != rs.IDLE):
                    r.bad(f'{key}/in-use-after-refusal', f'source in_use={src.in_use} in state {before[0]}; {ctx()}')
                    return None
                if how == 'sep-in-use':
                    # the other source lets go of the sink (open, close): the sink is free again
                    for op_b in ('open', 'close'):
                        if await do(src_b, op_b) != 'ok':
                            r.bad(f'stream/refused/configure/sep-in-use/other-source-cannot-{op_b}', ctx())
                            return None
                    if (local(src_b), remote()) != (rs.IDLE, rs.IDLE):
                        r.bad('stream/refused/configure/sep-in-use/other-source-not-idle-after-close',
                              f'{local(src_b)} / {remote()}; {ctx()}')
                        return None
                    trace.append(('other-source-open-close', 'ok', local(src_b), remote()))
            # the procedure itself (after a refusal: the retry)
            out = await do(src, op)
            after = (local(src), remote())
            trace.append((op, None, out, after))
            nxt = REFUSE_AFTER[(model, op)]
            r.ev('stream_ops')
            r.ev('stream_state_comparisons', 2)
            r.ev('oracle_evals')
            what = 'retry-after-refusal' if how is not None else 'legal'
            if out != 'ok':
                r.bad(f'stream/refused/{what}-{op}-failed/in-{model}' + (f'/{how}' if how else ''),
                      f'{op} in {model} -> {out}; local,remote={after}; {ctx()}')
                return None
            if after != (nxt, nxt):
                r.bad(f'stream/refused/{what}-{op}-wrong-state/from-{model}' + (f'/{how}' if how else ''),
                      f'{op} in {model} accepted; local,remote={after}, expected {nxt}; {ctx()}')
                return None
            if how is not None:
                r.ev('stream_refusal_retries_ok')
            return nxt

        model = rs.IDLE
        ok = True
        cycles = 0
        for _ in range(rng.randint(6, 14)):
            op = rng.choice(REFUSE_NEXT[model])
            how = None
            if rng.random() < 0.6:
                how = rng.choice(['app-reject', 'sep-in-use']) if op == 'configure' else 'app-reject'
            model = await step(src_a, op, model, how)
            if model is None:
                ok = False
                break
            if model == rs.IDLE:
                cycles += 1
        if ok:
            # the whole cycle on the same end-points, nothing refused
            if model == rs.IDLE:
                path = ['configure', 'open', 'start', 'suspend', 'start', 'close']
            else:
                path = {rs.CONFIGURED: ['open', 'start', 'close'], rs.OPEN: ['start', 'suspend', 'close'],
                        rs.STREAMING: ['suspend', 'close']}[model] + ['configure', 'open', 'start', 'close']
            for op in path:
                model = await step(src_a, op, model, None)
                if model is None:
                    ok = False
                    break
            if ok:
                r.ev('stream_refuse_final_cycles_ok')
        r.ev('stream_refuse_histories')
        r.sig('stream-refuse', tuple((t[0], t[1]) for t in trace))
        r.evals()
        r.sample = {'kind': 'stream-refuse', 'trace(op,refused how,outcome,(local,remote))': [list(map(str, t)) for t in trace[:14]]}
        # leave nothing behind (not judged)
        try:
            for src in (src_a, src_b):
                if src.stream is not None and src.stream.rtp_channel is not None:
                    await vloop.vwait(src.stream.rtp_channel.disconnect())
                    src.stream.rtp_channel = None
            if sink.stream is not None and sink.stream.state != State.IDLE:
                await vloop.vwait(client.abort(sink.seid))
            server.channel_acceptor = None
            await rg.quiesce()
        except Exception:       # noqa: BLE001
            pass
    for where, e in rg.exceptions:
        r.bad('stream/refused/exception-in-stack', f'{where}: {e}')
    r.sched.add(rg.schedule_signature)


async def run_case(case, r: R):
    k = case['kind']
    if k == 'sdp':
        await sdp_case(case, r)
    elif k == 'avdtp-chan':
        await avdtp_chan_case(case, r)
    elif k in ('avdtp-asm', 'avctp-asm'):
        rng = random.Random(case['seed'] ^ (0xC7 if k == 'avctp-asm' else 0))
        hist = avdtp_asm_history if k == 'avdtp-asm' else avctp_history
        # fault-free histories first: can the assembler deliver clean trains at all?
        basic_broken = False
        for _ in range(case['n'] // 8):
            ok, smp = hist(rng, r, force_fault='none')
            basic_broken = basic_broken or not ok
        for _ in range(case['n'] - case['n'] // 8):
            ok, smp = hist(rng, r, basic_broken=basic_broken)
        if r.sample is None:
            r.sample = smp
    elif k == 'avctp-chan':
        await avctp_chan_case(case, r)
    elif k == 'stream':
        await stream_case(case, r)
    elif k == 'stream-refuse':
        await stream_refuse_case(case, r)


LEVEL_TEXT = ('Independent SDP matcher/filter (every pattern UUID, any nesting depth, ids and ranges) compared with '
              'the client API results of ~400 (quick) / ~4000 (thorough) generated record tables x MTU {48,49,51,100,672,'
              '65535} x 1-3 concurrently connected bumble clients, answers tuned to k*capacity-1..+1 up to the client '
              'continuation limit, plus a wire monitor pairing every server response with the request of its link; AVDTP '
              'message equality over real channels with MTU 48..1024 per side (expected bytes written from the spec, '
              'reference reassembler over the wire log); AVDTP and AVCTP assemblers fed spec-built good and broken '
              'fragment trains; every AVDTP stream operation sequence up to length 5 (quick) / 6 (thorough) plus random '
              'ones to length 12, through the Stream API and as raw commands against the acceptor, against the AVDTP '
              'state table; ~320 (quick) / ~4800 (thorough) walks of legal procedures of which ~60% are first REFUSED by the '
              'peer (application reject, SEP in use), judged on the local and the remote state, retried, and closed by a whole '
              'cycle. SDP results are compared value by value (type, value, size of every returned element, records holding '
              'every scalar type x width at boundary values) as well as byte by byte. Held = no refuting execution observed; sampling of tables, sizes and schedules, exhaustive '
              'only for the enumerated operation sequences.')
LEVEL_NOTE = ('Trusted: vlib/ref_sdp.py (data element codec, matcher, filter, AVDTP/AVCTP framing, state table), the rig '
              'taps and independent ACL reassembler, the virtual-time loop. No loss on the link: broken trains are '
              'injected at the assembler or written by the harness. Requests are spec-conformant and sized to the server '
              'MTU; answers are bounded by the 64-response continuation watchdog.')
TECHNIQUE = ('runtime monitoring: reference matcher/filter beside the real SDP client+server, offline wire-log pairing of '
             'responses to requests, sent==delivered oracles on AVDTP/AVCTP reassembly, lock-step AVDTP state table')
