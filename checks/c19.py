"""C19 — SDP answers and AVDTP/AVCTP messages are reassembled exactly across PDUs; AVDTP
stream procedures leave both ends in the same state.

Monitors
  sdp        1-3 bumble SDP clients (each on its own ACL link, own L2CAP MTU) against one
             bumble SDP server holding a generated record table; results of the client API
             compared with an independent matcher/filter over the table (vlib/ref_sdp.py);
             wire monitor on the server's host boundary: every response leaves on the link
             its request came in on, carries that request's transaction id, fits the
             client's MTU
  avdtp-chan two avdtp.Protocol objects over a real L2CAP channel with MTU 48..1024 per
             side: message delivered by the receiving assembler == message sent (expected
             bytes written from the AVDTP spec), wire fragments re-assembled by an
             independent reassembler and bounded by the receiver's MTU
  avdtp-asm  avdtp.MessageAssembler fed harness-built trains with dropped / duplicated /
             relabelled / stray / truncated fragments, each followed by good messages
  avctp-asm  avctp.MessageAssembler fed spec-conformant trains (PID in START only) and broken
             trains; avctp-chan feeds them through a real L2CAP channel into avctp.Protocol
  stream     source and sink endpoints on two devices; operation sequences from the
             initiator (Stream API) and raw signalling commands against the acceptor;
             Stream.state on both ends against the AVDTP state table
"""
from __future__ import annotations

import asyncio
import itertools
import random
import struct

from vlib import ref_sdp as rs
from vlib import vloop
from vlib.result import R

ID = 'C19'
LEVEL = 'exploration'
RULE = ('seeded cases. sdp: (record table, per-client MTU, server MTU, 1-3 concurrent clients, transaction lists); '
        'non-trivial when a transaction needed >= 2 responses, or a pattern of >= 2 UUIDs was only partly present in some '
        'record, or >= 2 clients ran concurrently; distinct = table shape + MTUs + transaction list. avdtp/avctp: '
        '(payload length, MTU / fragment sizes, fault kind); non-trivial when the message needed >= 2 packets. stream: '
        'operation sequence (all sequences up to the enumerated length, then random ones); non-trivial when it has an '
        'operation that is illegal in the state it is issued in or >= 3 legal transitions; distinct = mode + sequence')
ASSUMPTIONS = [
    'search patterns and attribute-id lists are generated as the SDP spec requires a client to send them (ids ascending, '
    'ranges not overlapping) and sized so that the request fits the server MTU and the answer needs no more responses '
    'than the client continuation watchdog (64)',
    'a UUID contained in a data element alternative counts as contained in the attribute value (Core Vol 3 Part B 2.7.2 '
    'does not distinguish sequences from alternatives; ProtocolDescriptorList uses alternatives)',
    'Stream.start() in CONFIGURED is documented as auto-open: both ends STREAMING or a refusal are accepted there',
    'abort in IDLE may be answered either way as long as both ends stay IDLE',
    'the initiator-side abort is Stream.abort() when the class has one, otherwise stream.remote_endpoint.abort(), the '
    'only initiator-side abort the API offers',
    'no loss on the virtual link; broken fragment trains are injected at the assembler or written by the harness into '
    'the channel',
]
MIN_EVENTS = {
    'quick': {'sdp_transactions': 1500, 'sdp_continued_transactions': 300, 'sdp_boundary_transactions': 60,
              'sdp_partial_pattern_transactions': 150, 'sdp_concurrent_client_cases': 60, 'sdp_wire_responses': 5000,
              'avdtp_chan_messages': 400, 'avdtp_chan_fragmented': 150, 'avdtp_asm_good_after_fault': 3000,
              'avctp_asm_fragmented_good': 3000, 'avctp_asm_good_after_fault': 2000, 'avctp_chan_messages': 100,
              'stream_ops': 4000, 'stream_illegal_ops': 1500, 'stream_state_comparisons': 4000},
    'thorough': {'sdp_transactions': 15000, 'sdp_continued_transactions': 3000, 'sdp_boundary_transactions': 600,
                 'sdp_partial_pattern_transactions': 1500, 'sdp_concurrent_client_cases': 600,
                 'sdp_wire_responses': 50000, 'avdtp_chan_messages': 4000, 'avdtp_chan_fragmented': 1500,
                 'avdtp_asm_good_after_fault': 30000, 'avctp_asm_fragmented_good': 30000,
                 'avctp_asm_good_after_fault': 20000, 'avctp_chan_messages': 1000, 'stream_ops': 40000,
                 'stream_illegal_ops': 15000, 'stream_state_comparisons': 40000},
}
CASE_TIMEOUT = 600
SHARD_TIMEOUT = {'quick': 900, 'thorough': 7200}

MTUS = [48, 49, 51, 100, 672, 65535]
WATCHDOG = 64          # SDP_CONTINUATION_WATCHDOG, the client's documented limit
SDP_PSM = 0x0001
AVDTP_PSM = 0x0019
AVCTP_PSM = 0x0017


# =============================================================================
# plan
# =============================================================================
def stream_sequences(max_len):
    out = []
    for n in range(1, max_len + 1):
        out.extend(itertools.product(range(len(rs.STREAM_OPS)), repeat=n))
    return out


def plan(tier, seed):
    q = tier == 'quick'
    base = seed * 1000003
    groups = []
    groups.append([{'kind': 'sdp', 'seed': base + i, 'tier': tier} for i in range(260 if q else 2600)])
    groups.append([{'kind': 'avdtp-chan', 'seed': base + i, 'tier': tier} for i in range(40 if q else 400)])
    groups.append([{'kind': 'avdtp-asm', 'seed': base + i, 'n': 400} for i in range(16 if q else 160)])
    groups.append([{'kind': 'avctp-asm', 'seed': base + i, 'n': 400} for i in range(16 if q else 160)])
    groups.append([{'kind': 'avctp-chan', 'seed': base + i, 'tier': tier} for i in range(12 if q else 120)])
    # streams: exhaustive enumeration of short sequences in chunks, then random long ones
    enum_len = 4 if q else 5
    total = sum(6 ** n for n in range(1, enum_len + 1))
    chunk = 40
    st = []
    for mode in ('api', 'wire'):
        for lo in range(0, total, chunk):
            st.append({'kind': 'stream', 'mode': mode, 'enum_len': enum_len, 'lo': lo, 'hi': min(total, lo + chunk),
                       'seed': base + lo})
        for i in range(24 if q else 240):
            st.append({'kind': 'stream', 'mode': mode, 'random': 30, 'seed': base + 7919 + i})
    groups.append(st)
    # interleave so that round-robin sharding spreads the heavy kinds
    cases = []
    iters = [iter(g) for g in groups]
    sizes = [len(g) for g in groups]
    m = max(sizes)
    pos = [0.0] * len(groups)
    for step in range(m):
        for gi, g in enumerate(groups):
            want = (step + 1) * sizes[gi] / m
            while pos[gi] < want - 1e-9:
                cases.append(next(iters[gi]))
                pos[gi] += 1
    return cases


# =============================================================================
# SDP
# =============================================================================
ID_POINTS = [0, 1, 2, 3, 4, 5, 6, 9, 0xFF, 0x100, 0x101, 0x1FF, 0x200, 0x201, 0x2FF, 0x300, 0x301, 0x7FFF, 0x8000,
             0xFFFE, 0xFFFF]
PAD_ID = 0x0300


def gen_universe(rng):
    uni = [(2, v) for v in rng.sample(range(0x1000, 0x1400), 10)]
    uni += [(4, rng.randrange(0x10000, 1 << 32)) for _ in range(4)]
    uni += [(16, rng.getrandbits(128) | (1 << 127)) for _ in range(6)]
    return uni


def alias(u, rng):
    """The same UUID in another width (16 -> 32/128, 32 -> 128)."""
    s, v = u
    if s == 2:
        return rng.choice([(4, v), (16, rs.uuid128(2, v))])
    if s == 4:
        return (16, rs.uuid128(4, v))
    return u


def gen_scalar(rng, uni, uuid_p):
    x = rng.random()
    if x < uuid_p:
        return ('uuid',) + rng.choice(uni)
    k = rng.choice(['uint', 'uint', 'sint', 'text', 'text', 'bool', 'nil', 'url'])
    if k == 'uint':
        s = rng.choice([1, 2, 2, 4, 8])
        return ('uint', s, rng.choice([0, 1, (1 << (8 * s)) - 1, rng.getrandbits(8 * s)]))
    if k == 'sint':
        s = rng.choice([1, 2, 4, 8])
        return ('sint', s, rng.choice([0, -1, -(1 << (8 * s - 1)), (1 << (8 * s - 1)) - 1]))
    if k == 'text':
        n = rng.choice([0, 1, 5, 17, 40, rng.randint(0, 90)])
        return ('text', bytes(rng.getrandbits(8) for _ in range(n)))
    if k == 'bool':
        return ('bool', rng.random() < 0.5)
    if k == 'url':
        return ('url', 'http://' + 'a' * rng.randint(0, 12) + '/é'[:rng.randint(0, 2)])
    return ('nil',)


def gen_element(rng, uni, depth, uuid_p=0.35):
    if depth <= 0 or rng.random() < 0.45:
        return gen_scalar(rng, uni, uuid_p)
    kind = 'alt' if rng.random() < 0.3 else 'seq'
    return (kind, [gen_element(rng, uni, depth - 1, uuid_p) for _ in range(rng.choice([0, 1, 2, 2, 3, 4]))])


def gen_record(rng, uni, handle, common):
    attrs = {0: ('uint', 4, handle)}
    cls = [('uuid',) + u for u in rng.sample(uni, rng.choice([1, 1, 2, 3]))]
    if common is not None and rng.random() < 0.7:
        cls.append(('uuid',) + common)
    attrs[1] = ('seq', cls)
    if rng.random() < 0.6:
        stack = lambda: ('seq', [('seq', [('uuid',) + rng.choice(uni), ('uint', 2, rng.getrandbits(16))]),
                                 ('seq', [('uuid',) + rng.choice(uni)])])
        attrs[4] = ('alt', [stack(), stack()]) if rng.random() < 0.4 else stack()
    if rng.random() < 0.4:
        attrs[5] = ('seq', [('uuid',) + rng.choice(uni)])
    if rng.random() < 0.3:
        attrs[6] = ('seq', [('uint', 2, 0x656E), ('uint', 2, 0x006A), ('uint', 2, 0x0100)])
    if rng.random() < 0.4:
        attrs[9] = ('seq', [('seq', [('uuid',) + rng.choice(uni), ('uint', 2, 0x0103)])])
    if rng.random() < 0.5:
        attrs[0x100] = ('text', bytes(rng.randrange(32, 127) for _ in range(rng.randint(0, 24))))
    if rng.random() < 0.25:
        # a rich record: many UUIDs, nested
        attrs[0x200] = ('seq', [('uuid',) + u for u in rng.sample(uni, rng.randint(4, 12))] +
                        [('alt', [('uuid',) + rng.choice(uni), ('seq', [('uuid',) + rng.choice(uni)])])])
    for _ in range(rng.choice([0, 0, 1, 2, 3])):
        aid = rng.choice(ID_POINTS[2:])
        if aid not in attrs and aid != PAD_ID:
            attrs[aid] = gen_element(rng, uni, 3)
    items = list(attrs.items())
    if rng.random() < 0.4:
        rng.shuffle(items)          # storage order is the application's business
    return items


def gen_id_list(rng, must_include=None):
    style = rng.choice(['all', 'all', 'single', 'points', 'ranges', 'mixed', 'mixed'])
    if style == 'all':
        return [(0, 0xFFFF)]
    if style == 'single':
        lst = [rng.choice(ID_POINTS)]
    else:
        pts = sorted(set(rng.sample(ID_POINTS, rng.randint(2, 8))))
        lst = []
        i = 0
        while i < len(pts):
            if style != 'points' and i + 1 < len(pts) and rng.random() < (0.8 if style == 'ranges' else 0.4):
                lst.append((pts[i], pts[i + 1]))
                i += 2
            else:
                lst.append(pts[i])
                i += 1
    if must_include is not None and not any(
            (it == must_include) if isinstance(it, int) else (it[0] <= must_include <= it[1]) for it in lst):
        return [(0, 0xFFFF)]
    return lst


def pattern_class(records, pattern):
    want = {rs.uuid128(s, v) for s, v in pattern}
    sets = [rs.record_uuids(a) for a in records.values()]
    if any(want <= s for s in sets):
        full = True
    else:
        full = False
    partial = any((want & s) and not (want <= s) for s in sets)
    return full, partial


def gen_pattern(rng, records, uni, max_uuids, narrow_only):
    """Returns [(size, value)] with 1..max_uuids entries covering the present/absent mixes."""
    handles = list(records)
    target = rng.choice(handles)
    present = sorted(rs.record_uuids(records[target]))
    by128 = {}
    for u in uni:
        by128[rs.uuid128(*u)] = u
    present_u = [by128[x] for x in present if x in by128]
    absent_here = [u for u in uni if rs.uuid128(*u) not in set(present)]
    nowhere = (2, 0x0F00 + rng.randrange(0x100))
    cls = rng.choice(['all-present', 'all-present', 'one-elsewhere', 'one-elsewhere', 'one-nowhere', 'split', 'absent',
                      'single', 'many'])
    n = rng.randint(1, max_uuids)
    if cls == 'single':
        pat = [rng.choice(present_u or uni)]
    elif cls == 'all-present':
        pat = rng.sample(present_u, min(n, len(present_u))) if present_u else [rng.choice(uni)]
    elif cls == 'many':
        pat = rng.sample(present_u, min(max_uuids, len(present_u))) if present_u else [rng.choice(uni)]
    elif cls == 'one-elsewhere':
        pat = rng.sample(present_u, min(max(1, n - 1), len(present_u))) + [rng.choice(absent_here or [nowhere])]
    elif cls == 'one-nowhere':
        pat = rng.sample(present_u, min(max(1, n - 1), len(present_u))) + [nowhere]
    elif cls == 'split':
        other = rng.choice(handles)
        pu = [by128[x] for x in rs.record_uuids(records[other]) if x in by128]
        pat = rng.sample(present_u, min(max(1, n // 2), len(present_u))) + rng.sample(pu, min(max(1, n // 2), len(pu)))
    else:
        pat = [nowhere] + ([rng.choice(absent_here)] if absent_here and n > 1 else [])
    # de-duplicate, shuffle, re-express some in another width
    seen, out = set(), []
    for u in pat:
        k = rs.uuid128(*u)
        if k not in seen:
            seen.add(k)
            out.append(u)
    rng.shuffle(out)
    out = out[:max_uuids]
    if narrow_only:
        out = [u for u in out if u[0] == 2] or [nowhere]
    elif rng.random() < 0.25:
        out = [alias(u, rng) if rng.random() < 0.5 else u for u in out]
    return out


def answer_len(kind, records, tx):
    if kind == 'search':
        return 4 * len(rs.match(records, tx['pattern']))
    if kind == 'attr':
        if tx['handle'] not in records:
            return 0
        return len(rs.enc(rs.attribute_list(rs.select(records[tx['handle']], tx['ids']))))
    lists = []
    for h in rs.match(records, tx['pattern']):
        sel = rs.select(records[h], tx['ids'])
        if sel:
            lists.append(rs.attribute_list(sel))
    return len(rs.enc(('seq', lists)))


def capacity(kind, mtu):
    # what one response can carry for a client MTU: header 5, list length / counts, 2-byte
    # continuation state of at least one information byte
    return (mtu - 11) // 4 * 4 if kind == 'search' else mtu - 9


def gen_sdp(rng, tier):
    nclients = rng.choice([1, 2, 2, 3, 3])
    client_mtus = [rng.choice(MTUS) for _ in range(nclients)]
    if rng.random() < 0.5:
        client_mtus[0] = rng.choice([48, 49, 51, 100])
    server_mtu = rng.choice(MTUS)
    uni = gen_universe(rng)
    common = rng.choice(uni)
    nrec = rng.choice([1, 2, 3, 5, 8, 9, 10, 12, 17, 18, 19, 21, 22, 23, 26, 27, 28, 30, rng.randint(1, 30)])
    # handle-count targets: number of records holding `common` at k*cap-1..+1 of the first client
    records = {}
    h0 = rng.choice([0x00010000, 0x00010001, 0x7FFFFFF0, 0xFFFFFF00])
    for i in range(nrec):
        h = (h0 + i) & 0xFFFFFFFF
        records[h] = gen_record(rng, uni, h, common)
    narrow = server_mtu < 100
    max_uuids = 12

    def fit_pattern(kind, ids):
        for _ in range(8):
            pat = gen_pattern(rng, records, uni, max_uuids, narrow)
            while len(pat) > 1 and rs.sdp_request_len(kind, pat, ids) + 1 > server_mtu:
                pat = pat[:-1]
            if rs.sdp_request_len(kind, pat, ids) + 1 <= server_mtu:   # +1: 2-byte continuation state
                return pat
        return None

    def gen_tx(ci):
        kind = rng.choice(['search', 'attr', 'sa', 'sa'])
        if kind == 'search':
            pat = fit_pattern('search', None)
            if pat is None:
                return None
            if rng.random() < 0.25:
                pat = [common] if common[0] == 2 or not narrow else pat
            return {'kind': 'search', 'pattern': pat}
        ids = gen_id_list(rng)
        while rs.sdp_request_len('attr', None, ids) + 1 > server_mtu and len(ids) > 1:
            ids = ids[:-1]
        if kind == 'attr':
            h = rng.choice(list(records)) if rng.random() < 0.92 else (h0 + nrec + rng.randint(0, 3)) & 0xFFFFFFFF
            return {'kind': 'attr', 'handle': h, 'ids': ids}
        while True:
            pat = fit_pattern('sa', ids)
            if pat is not None or len(ids) <= 1:
                break
            ids = ids[:-1]
        if pat is None:
            return None
        return {'kind': 'sa', 'pattern': pat, 'ids': ids}

    txs = []
    for ci in range(nclients):
        lst = []
        for _ in range(rng.randint(3, 7)):
            t = gen_tx(ci)
            if t is not None:
                lst.append(t)
        txs.append(lst)

    # tune: make the answer of one attr/sa transaction of a small-MTU client land on
    # k*capacity-1 .. +1 by growing a text attribute of one record in its answer
    tuned = None
    order = sorted(range(nclients), key=lambda c: client_mtus[c])
    for ci in order:
        cap = capacity('attr', client_mtus[ci])
        if cap > 2000:
            continue
        cands = [t for t in txs[ci] if t['kind'] in ('attr', 'sa')]
        rng.shuffle(cands)
        for t in cands:
            if t['kind'] == 'attr':
                if t['handle'] not in records:
                    continue
                hs = [t['handle']]
            else:
                hs = rs.match(records, t['pattern'])
            if not hs:
                continue
            t['ids'] = [(0, 0xFFFF)] if rng.random() < 0.5 else gen_id_list(rng, must_include=PAD_ID)
            if rs.sdp_request_len(t['kind'], t.get('pattern'), t['ids']) + 1 > server_mtu:
                t['ids'] = [(0, 0xFFFF)]
            h = rng.choice(hs)
            base_len = answer_len(t['kind'], records, t)
            kmax = max(1, min(WATCHDOG, 2600 // cap))
            k = rng.choice([1, 1, 2, 2, 3, rng.randint(1, kmax), kmax])
            if tier == 'thorough' and rng.random() < 0.1:
                k = WATCHDOG if cap * WATCHDOG < 6000 else k
            d = rng.choice([-1, 0, 1]) if k < WATCHDOG else rng.choice([-1, 0])
            target = k * cap + d
            while target < base_len + 2:
                k += 1
                target = k * cap + d
            if k > WATCHDOG or (k == WATCHDOG and d > 0):
                continue
            attrs = [a for a in records[h] if a[0] != PAD_ID]
            pad = max(0, target - base_len - 5)
            for _ in range(8):
                records[h] = attrs + [(PAD_ID, ('text', bytes((i * 7 + 1) & 0xFF for i in range(pad))))]
                got = answer_len(t['kind'], records, t)
                if got == target:
                    break
                pad = max(0, pad + (target - got))
            if answer_len(t['kind'], records, t) == target:
                tuned = (ci, k, d)
            break
        if tuned:
            break

    # bound every transaction by the continuation watchdog of its client
    dropped = 0
    for ci in range(nclients):
        keep = []
        for t in txs[ci]:
            cap = capacity(t['kind'], client_mtus[ci])
            need = max(1, -(-answer_len(t['kind'], records, t) // cap))
            if need <= WATCHDOG:
                t['need'] = need
                keep.append(t)
            else:
                dropped += 1
        txs[ci] = keep
    return dict(nclients=nclients, client_mtus=client_mtus, server_mtu=server_mtu, records=records, txs=txs,
                tuned=tuned, dropped=dropped, common=common)


def mk_uuid(size, value):
    from bumble import core
    return core.UUID(f'{value:0{size * 2}X}')      # constructor: no registry look-up


def to_bumble(el):
    from bumble.sdp import DataElement as DE
    k = el[0]
    if k == 'nil':
        return DE.nil()
    if k == 'uint':
        return DE.unsigned_integer(el[2], el[1])
    if k == 'sint':
        return DE.signed_integer(el[2], el[1])
    if k == 'uuid':
        return DE.uuid(mk_uuid(el[1], el[2]))
    if k == 'text':
        return DE.text_string(bytes(el[1]))
    if k == 'bool':
        return DE.boolean(el[1])
    if k == 'seq':
        return DE.sequence([to_bumble(e) for e in el[1]])
    if k == 'alt':
        return DE.alternative([to_bumble(e) for e in el[1]])
    if k == 'url':
        return DE.url(el[1])
    raise ValueError(k)


def same_value(got_bytes: bytes, want_el) -> bool:
    if got_bytes == rs.enc(want_el):
        return True
    try:
        return rs.norm(rs.dec_all(got_bytes)) == rs.norm(want_el)     # another legal size descriptor
    except rs.DecodeError:
        return False


def attrs_of(lst):
    """client API result -> [(id, serialised value)]"""
    return [(int(a.id), bytes(a.value)) for a in lst]


def cmp_attr_list(got, want):
    """got [(id, bytes)], want [(id, element)] -> None or (clause, text)"""
    gi, wi = [g[0] for g in got], [w[0] for w in want]
    if gi != wi:
        if sorted(gi) == sorted(wi):
            return 'order', f'ids {gi} not ascending as {wi}'
        return 'ids-differ', f'ids got {[hex(x) for x in gi]} want {[hex(x) for x in wi]}'
    for (aid, gb), (_a, we) in zip(got, want):
        if not same_value(gb, we):
            wb = rs.enc(we)
            n = next((i for i in range(min(len(gb), len(wb))) if gb[i] != wb[i]), min(len(gb), len(wb)))
            return 'value-differs', (f'attribute {aid:#06x}: got {len(gb)} bytes, want {len(wb)}; first difference at '
                                     f'offset {n}: got {gb[n:n + 12].hex()} want {wb[n:n + 12].hex()}')
    return None


def search_mismatch_class(records, pattern, extra, missing):
    want = {rs.uuid128(s, v) for s, v in pattern}
    if extra:
        for h in extra:
            if h in records and (want & rs.record_uuids(records[h])):
                return 'extra-record/has-some-but-not-all-pattern-uuids'
        return 'extra-record/has-no-pattern-uuid'
    for h in missing:
        under_alt = set()
        for _aid, v in records[h]:
            under_alt |= rs.uuids_under_alternative(v)
        plain = set()
        for _aid, v in records[h]:
            plain |= (rs.uuids_in(v) - rs.uuids_under_alternative(v))
        # a pattern UUID that occurs in this record only below an alternative
        if any(u in under_alt and not _occurs_outside_alt(records[h], u) for u in want):
            return 'missing-record/uuid-only-inside-alternative'
    return 'missing-record'


def _occurs_outside_alt(attrs, u128):
    def walk(el, under):
        if el[0] == 'uuid':
            return (not under) and rs.uuid128(el[1], el[2]) == u128
        if el[0] in ('seq', 'alt'):
            return any(walk(e, under or el[0] == 'alt') for e in el[1])
        return False
    return any(walk(v, False) for _a, v in attrs)


async def sdp_case(case, r: R):
    from bumble import core, l2cap, sdp
    from vlib import rig as vrig

    rng = random.Random(case['seed'])
    vrig.seed_entropy(case['seed'])
    g = gen_sdp(rng, case.get('tier', 'quick'))
    n = g['nclients']
    records = g['records']
    multi = '/multi-client' if n > 1 else ''
    rg = vrig.Rig(n + 1, seed=case['seed'], max_delay=rng.choice([0, 0, 1, 3]), classic=True,
                  acl_len=[rng.choice([27, 64, 339, 1021]) for _ in range(n + 1)],
                  acl_num=[rng.choice([1, 2, 8]) for _ in range(n + 1)])
    server = rg.devices[0]
    server.sdp_service_records = {
        h: [sdp.ServiceAttribute(aid, to_bumble(v)) for aid, v in attrs] for h, attrs in records.items()}
    server.l2cap_channel_manager.servers[SDP_PSM].spec.mtu = g['server_mtu']
    await rg.power_on()
    order = list(range(n))
    rng.shuffle(order)
    conns = {}
    srv_handle = {}
    for ci in order:
        cc, sc = await rg.connect_classic(ci + 1, 0)
        conns[ci] = cc
        srv_handle[sc.handle] = ci
    clients = {ci: sdp.Client(conns[ci], mtu=g['client_mtus'][ci]) for ci in range(n)}
    late = {ci for ci in range(n) if n > 1 and rng.random() < 0.25}
    sdp_order = [ci for ci in range(n) if ci not in late]
    rng.shuffle(sdp_order)
    for ci in sdp_order:
        await vloop.vwait(clients[ci].connect())
    yields = {ci: [rng.choice([0, 0, 1, 3, 10]) for _ in range(len(g['txs'][ci]) + 1)] for ci in range(n)}
    leave = {ci: rng.random() < 0.3 for ci in range(n)}
    results = {ci: [] for ci in range(n)}
    hung = []

    async def run_client(ci):
        cl = clients[ci]
        for _ in range(yields[ci][0] * 3):
            await asyncio.sleep(0)
        if ci in late:
            try:
                await vloop.vwait(cl.connect())
            except vloop.Hang:
                hung.append((ci, 'connect'))
                r.bad('sdp/hang/channel-connect' + multi, f'client {ci} SDP channel connect pending at T_v')
                return
        for ti, t in enumerate(g['txs'][ci]):
            for _ in range(yields[ci][ti + 1]):
                await asyncio.sleep(0)
            try:
                if t['kind'] == 'search':
                    res = await vloop.vwait(cl.search_services([mk_uuid(*u) for u in t['pattern']]))
                    out = ('ok', list(res))
                elif t['kind'] == 'attr':
                    res = await vloop.vwait(cl.get_attributes(t['handle'], t['ids']))
                    out = ('ok', attrs_of(res))
                else:
                    res = await vloop.vwait(cl.search_attributes([mk_uuid(*u) for u in t['pattern']], t['ids']))
                    out = ('ok', [attrs_of(x) for x in res])
            except vloop.Hang:
                hung.append((ci, ti))
                results[ci].append(('hang', None))
                return
            except core.ProtocolError as e:
                out = ('protocol-error', getattr(e, 'error_code', None))
            except Exception as e:  # whatever the client raises is an outcome to judge
                out = ('raised', f'{type(e).__name__}: {e}')
            results[ci].append(out)
        if leave[ci]:
            try:
                await vloop.vwait(cl.disconnect())
            except Exception:
                pass

    await asyncio.gather(*[run_client(ci) for ci in range(n)])
    try:
        await rg.quiesce()
    except vloop.Hang:
        r.bad('sdp/livelock' + multi, 'SDP traffic never quiesces')
        return

    # ---- wire monitor on the server's host boundary -------------------------------
    pending: dict[int, tuple[int, int]] = {}     # acl handle -> (tid, request pdu id)
    cross = 0
    for _seq, _dev, direction, handle, cid, payload in vrig.l2cap_log(rg.boundary_log, dev=0):
        if cid < 0x40:
            continue
        hd = rs.sdp_header(payload)
        if hd is None:
            continue
        pid, tid, plen = hd
        if direction == vrig.C2H:
            pending[handle] = (tid, pid)
            r.ev('sdp_wire_requests')
            continue
        r.ev('sdp_wire_responses')
        r.ev('oracle_evals', 3)
        ci = srv_handle.get(handle)
        req = pending.pop(handle, None)
        if req is None or req[0] != tid or pid not in (rs.SDP_ERROR_RSP, rs.SDP_RESPONSE_OF.get(req[1])):
            cross += 1
            owner = [h for h, (t2, p2) in pending.items() if t2 == tid and rs.SDP_RESPONSE_OF.get(p2) == pid]
            r.bad('sdp/cross-client/response-on-link-without-that-request',
                  f'server sent response pdu={pid} tid={tid} on the link of client {ci} whose outstanding request is '
                  f'{req}; requests outstanding on other links: { {srv_handle.get(h): v for h, v in pending.items()} } '
                  f'(clients={n}, candidates {owner})')
            if req is not None:
                pending[handle] = req
        if plen != len(payload) - 5:
            r.bad('sdp/wire/parameter-length', f'ParameterLength {plen} on a PDU with {len(payload) - 5} parameter bytes')
        if ci is not None and len(payload) > g['client_mtus'][ci]:
            r.bad('sdp/wire/response-exceeds-client-mtu',
                  f'response of {len(payload)} bytes to a client with MTU {g["client_mtus"][ci]}')

    # ---- API oracle ------------------------------------------------------------------
    nontrivial = n > 1
    for ci in range(n):
        cap_mtu = g['client_mtus'][ci]
        for ti, t in enumerate(g['txs'][ci]):
            if ti >= len(results[ci]):
                break
            status, val = results[ci][ti]
            kind = t['kind']
            r.ev('sdp_transactions')
            r.ev(f'sdp_{kind}_transactions')
            r.ev('oracle_evals')
            alen = answer_len(kind, records, t)
            cap = capacity(kind, cap_mtu)
            if t.get('need', 1) >= 2:
                r.ev('sdp_continued_transactions')
                nontrivial = True
            boundary = alen > 0 and cap < 3000 and min(alen % cap, cap - alen % cap) <= (4 if kind == 'search' else 1)
            if boundary:
                r.ev('sdp_boundary_transactions')
            if t.get('need', 1) == WATCHDOG:
                r.ev('sdp_transactions_at_watchdog_limit')
            bsfx = ('/continued' if t.get('need', 1) >= 2 else '') + multi
            if 'pattern' in t:
                full, partial = pattern_class(records, t['pattern'])
                if len(t['pattern']) >= 2:
                    r.ev('sdp_multi_uuid_patterns')
                if partial:
                    r.ev('sdp_partial_pattern_transactions')
                    if len(t['pattern']) >= 2:
                        nontrivial = True
                if any(u[0] != 2 for u in t['pattern']):
                    r.ev('sdp_wide_uuid_patterns')
            ctx = (f'client {ci}/{n} mtu={cap_mtu} server_mtu={g["server_mtu"]} tx#{ti} '
                   f'{ {k: v for k, v in t.items() if k != "need"} } answer={alen}B capacity={cap} records={len(records)}')
            if status == 'hang':
                r.bad(f'sdp/hang/{kind}' + multi, f'{ctx}: still pending at T_v; wire cross-link responses={cross}')
                continue
            if kind == 'search':
                want = rs.match(records, t['pattern'])
                if status != 'ok':
                    r.bad('sdp/search/raised' + bsfx, f'{ctx}: {status} {val}')
                    continue
                extra = [h for h in val if h not in set(want)]
                missing = [h for h in want if h not in set(val)]
                if extra or missing:
                    r.bad(f'sdp/search/{search_mismatch_class(records, t["pattern"], extra, missing)}' + bsfx,
                          f'{ctx}: extra={[hex(h) for h in extra][:6]} missing={[hex(h) for h in missing][:6]} '
                          f'(got {len(val)}, want {len(want)})')
                elif len(val) != len(set(val)):
                    r.bad('sdp/search/duplicate-handle' + bsfx, f'{ctx}: {len(val)} handles, {len(set(val))} distinct')
                continue
            if kind == 'attr':
                if t['handle'] not in records:
                    r.ev('sdp_unknown_handle_requests')
                    if status == 'ok':
                        r.bad('sdp/attr/unknown-handle-answered' + multi, f'{ctx}: got {val!r:.200}')
                    continue
                if status != 'ok':
                    r.bad('sdp/attr/raised' + bsfx, f'{ctx}: {status} {val}')
                    continue
                d = cmp_attr_list(val, rs.select(records[t['handle']], t['ids']))
                if d:
                    r.bad(f'sdp/attr/{d[0]}' + ('/at-capacity-boundary' if boundary else '') + bsfx, f'{ctx}: {d[1]}')
                continue
            # search-attribute
            if status != 'ok':
                r.bad('sdp/search-attr/raised' + ('/at-capacity-boundary' if boundary else '') + bsfx,
                      f'{ctx}: {status} {val}')
                continue
            want_lists = []
            for h in rs.match(records, t['pattern']):
                sel = rs.select(records[h], t['ids'])
                if sel:
                    want_lists.append((h, sel))
            got_lists = [x for x in val if x]
            unmatched = list(want_lists)
            bad_lists = []
            for gl in got_lists:
                k = next((i for i, (_h, wl) in enumerate(unmatched) if cmp_attr_list(gl, wl) is None), None)
                if k is None:
                    bad_lists.append(gl)
                else:
                    unmatched.pop(k)
            if not bad_lists and not unmatched:
                continue
            # classify: is the surplus list the selection of a record that does not match?
            wantset = {h for h, _ in want_lists}
            extra_records = []
            for gl in bad_lists:
                for h, attrs in records.items():
                    if h not in wantset and cmp_attr_list(gl, rs.select(attrs, t['ids'])) is None:
                        extra_records.append(h)
                        break
            if bad_lists and len(extra_records) == len(bad_lists):
                cls = search_mismatch_class(records, t['pattern'], extra_records, [])
            elif not bad_lists and unmatched:
                cls = search_mismatch_class(records, t['pattern'], [], [h for h, _ in unmatched])
            else:
                d = None
                if bad_lists and unmatched:
                    d = cmp_attr_list(bad_lists[0], unmatched[0][1])
                cls = (d[0] if d else 'lists-differ') + ('/at-capacity-boundary' if boundary else '')
            r.bad(f'sdp/search-attr/{cls}' + bsfx,
                  f'{ctx}: {len(got_lists)} lists, want {len(want_lists)}; lists matching no expected record: '
                  f'{len(bad_lists)} (records not matching the pattern: {[hex(h) for h in extra_records][:5]}); '
                  f'expected lists not returned: {[hex(h) for h, _ in unmatched][:5]}')
    if n > 1:
        r.ev('sdp_concurrent_client_cases')
    r.ev('sdp_tx_dropped_over_watchdog', g['dropped'])
    if g['tuned']:
        r.ev('sdp_tuned_cases')
    for where, e in rg.exceptions:
        r.bad('sdp/exception-in-stack' + multi, f'{where}: {e}')
    if nontrivial:
        r.sig('sdp', n, tuple(g['client_mtus']), g['server_mtu'], len(records),
              tuple(tuple(sorted((k, repr(v)) for k, v in t.items())) for lst in g['txs'] for t in lst))
    r.sched.add(rg.schedule_signature)
    r.evals()
    r.sample = {'kind': 'sdp', 'clients': n, 'client_mtus': g['client_mtus'], 'server_mtu': g['server_mtu'],
                'records': len(records), 'tuned(client,k,d)': g['tuned'],
                'first_record': [[aid, rs.to_jsonable(v)] for aid, v in list(records.values())[0]][:4],
                'transactions': [[{k: (v if k != 'pattern' else [f'{s * 8}:{x:x}' for s, x in v]) for k, v in t.items()}
                                  for t in lst][:3] for lst in g['txs']],
                'outcomes': [[o[0] for o in results[ci]] for ci in range(n)]}


async def run_case(case, r: R):
    k = case['kind']
    if k == 'sdp':
        await sdp_case(case, r)


LEVEL_TEXT = ''
LEVEL_NOTE = ''
TECHNIQUE = ''
