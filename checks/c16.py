"""C16 — teardown is complete: no stale connection state, no waiter left hanging.

For each procedure, a dry run counts the HCI messages it takes; then the procedure is
re-run once per (message index, cut kind) with the cut injected at that message:
  disc-initiator / disc-responder   Connection.disconnect() from that side
  lost-initiator / lost-responder   the HCI transport of that host is lost
                                    (pipes dropped + Host.on_transport_lost())
Oracles at quiescence afterwards
  waiter    the awaited API call of the interrupted procedure finished (result or error)
            within T_v virtual seconds
  tables    host / device / controller agree on live connections (transport loss: host and
            device of the cut side are both empty)
  leftover  no per-connection state for a dead connection in the GATT server, SMP manager,
            L2CAP channel manager, outbound data queues (ACL, LE ACL and ISO)
  links     procedures on links that ride on the ACL connection (1-2 CIS over an LE ACL: establishment,
            idle, ISO SDUs in flight with drain() waiters, CIS disconnect; an eSCO link over a BR/EDR ACL:
            establishment, idle, disconnect): after the cut host.cis_links / sco_links / bis_links and
            device.cis_links / sco_links / bis_links are empty on every judged side (every link of the
            scenario rode on the ACL that was closed or on the transport that was lost), after a
            disconnection the controller keeps no CIS / SCO link attached to the dead ACL, every CisLink /
            ScoLink object that had been established got exactly one 'disconnection' event, and
            create_cis / accept_cis_request / CisLink.disconnect / drain waiters are finished
  handles   (every run) the connection handles each controller announces, kept by an independent ledger fed with the raw
            HCI events (vlib/ref_hci_links.py): one handle names one link, whatever its kind

Round 7 - (a) TEARDOWN procedures of the layers above classic L2CAP (rfcomm Client.shutdown / DLC.disconnect / Multiplexer.disconnect,
sdp Client.disconnect, closing an AVDTP signalling channel with a command outstanding, HFP on a DLC) cut at every message:
every classic channel / DLC object that had been open emitted exactly one 'close' event and is not left OPEN / CONNECTED /
WAIT_DISCONNECT / DISCONNECTING, application tasks waiting for those close events and the HFP run loop ended.
(b) client requests still being served when the link goes (CCCD read, CCCD write + read, long read of a slow dynamic value,
prepared write), with refined cut positions: index 0 (together with the procedure), 'sync' (disconnect() in the turn the message
is emitted) and 'delivered' (when the receiver is handed the message, before anything it spawns for it runs); leftover
inspection over EVERY dict of the GATT server keyed by a bearer, an empty subscribers entry of a dead bearer included.
(c) pairing with a user who takes 5 virtual s per prompt and never answers once the link went (passkey entry either side, legacy
passkey, numeric comparison, just-works confirmation): every delegate call the stack made ended; and, for ALL cut runs, a
snapshot of asyncio.all_tasks() after the settling time minus the tasks that existed before the connection and the harness's own:
no task that works for a judged device is still pending.

Kind 'multi' - SEVERAL links at once on one device (three devices; 18 topologies: two ACLs to different peers or to the
same peer over both transports; ACL + eSCO + another ACL; ACL + CIS + another ACL; both; the same CIG / CIS identifiers
on two ACLs of one device). For every link of the topology as the victim x 5 endings (disconnect from device 0's side, from
the peer, from both at once; HCI transport of device 0 / of the peer lost): the victim is torn down, then made again (the
lowest free handle is handed out again), then everything is torn down link by link; plus seeded walks over the same
operations. After EVERY step, at quiescence, with the harness's own record of which links it made and closed:
  tables    per device and link kind, the handles announced over HCI (ledger), host table, device table and controller
            table are the same set, and as many as the links that should be up; after a transport loss host and device
            tables are empty
  objects   the device table still holds the very object each live link was reported with; a live link got no
            'disconnection' event, a closed one exactly one
  handles   no handle is announced while it still names another live link (or is reserved for a CIS)
  reports   a new ACL is reported by exactly one 'connection' event per device, with the addresses of the two ends that the
            harness connected (and the role, for LE)
  data      an L2CAP PDU sent on every live ACL, both ways, arrives once, at the other end of THAT link, on its handle
  waiter    disconnect() of any link ends; leftover: as above for the links that just went

Kind 'order' - event orders and failure reports a controller may choose that bumble's virtual controller never produces;
the rig's pipes reorder / answer / inject HCI packets (class AdvOrder, class Answered):
  ext-adv             peripheral with LE Extended Advertising, 3 consecutive connections (all on the same handle) through
                      a set with its own random address / a set on the public address / start_advertising(); LE Advertising
                      Set Terminated before the Connection Complete, after it, or after the first data packet of the new
                      connection; every connection is reported once with the address of the set it came in through,
                      nothing keyed by the handle survives the connection
  refused-disconnect  Command Status(pending) then Disconnection Complete with a failure status for an LE ACL, BR/EDR ACL,
                      eSCO or CIS link, from either end: disconnect() and sustain() end, the link and a bystander link
                      stay whole (tables, data), a later disconnection and re-connection work
  failed-connect      LE (Enhanced) Connection Complete / Connection Complete with a failure status for a pending
                      connect(), and for an incoming BR/EDR connection the host accepted: connect() ends with an error,
                      nothing is left (pending_connections, le_connecting), the next connection of the same two devices
                      is reported once with the right addresses
  failed-security     Encryption Change (v1, v2), Encryption Key Refresh Complete, Authentication Complete with a failure
                      status: encrypt() / authenticate() end (key refresh: at the latest when the link goes), the link
                      stays whole
"""
from __future__ import annotations

import asyncio
import random

from vlib import vloop
from vlib.result import R

ID = 'C16'
LEVEL = 'fault_enumeration'
RULE = ('one case per (procedure, cut kind); inside it every HCI-message index of the dry run (stride 1 thorough, '
        'coarser for long procedures in quick) gets its own fresh rig and run; a run is non-trivial when the cut '
        'landed before the procedure finished; distinct = (procedure, cut kind, index). '
        'multi: one case per topology, inside it one history per (victim link, ending), each on a fresh 3-device rig; '
        'distinct = (topology, victim, ending); seeded walks: distinct = seed. '
        'order: one case per (scenario, variant, failure status, delay); distinct = that tuple')
ASSUMPTIONS = [
    'task snapshot: a leftover task is attributed to a device through the locals of its coroutine chain (device, connection, '
    'session, host, harness delegate); after a transport loss only tasks of the cut side are judged, the others are counted',
    'a delegate prompt / value callback of the side whose peer lost its transport still has a live connection and is not judged',
    'the state of an rfcomm Multiplexer after its channel closed is counted, not judged (it has no close event and nothing reads it)',
    'after a transport loss the controller (beyond the lost transport) and the remote side are not judged',
    'a waiter may end with a result, an exception or a cancellation; only "still pending at T_v" is a violation',
    'the peripheral accepts CIS requests with accept_cis_request guarded by cancel_on_disconnection of the ACL, the way '
    'tests/device_test.py does; the SCO acceptor answers with Enhanced Accept Synchronous Connection Request',
    'the virtual controller has no BIG support, so BIS links cannot be created; host.bis_links / device.bis_links are only '
    'checked to be empty',
    'a controller SCO entry with handle 0 is its placeholder for a request the host has not answered, not a link',
    'a procedure that ends with the stack\'s own TimeoutError (GATT 30 s) has ended with an error: an indication whose '
    'confirmation can no longer come is released by that timeout, which the property accepts',
    'multi: after a transport loss the far ends of the lost device\'s links are still up as far as their controllers know; '
    'they are judged as up there, not pinged, and can be disconnected from the far end',
    'multi / order: the virtual controller carries no SCO or ISO data, so "data still flows" is judged on ACL links',
    'order: both orders of LE Advertising Set Terminated and Connection Complete are taken as legal (bumble handles both); '
    'a Disconnection Complete with a failure status leaves the link up; encrypt() is only required to end with the link '
    'when the controller answers with Encryption Key Refresh Complete (it does not listen for that event)',
    'the order of the descriptors in plan() is a load-balancing choice (case k runs in process k mod 16), nothing else',
]
MULTI_MIN = {'multi_histories': 700, 'multi_victim_teardowns': 400, 'multi_victims_le': 120, 'multi_victims_bredr': 100,
             'multi_victims_sco': 50, 'multi_victims_cis': 70, 'multi_table_checks': 60000, 'multi_link_object_checks': 30000,
             'multi_pings': 10000, 'multi_disconnect_waiters': 2400, 'multi_leftover_checks': 4000, 'multi_remakes': 240,
             'handle_distinctness_checks': 20000, 'handles_reused': 1500, 'handles_reused_by_another_link_kind': 500,
             'connection_reports_checked': 4000,
             'order_histories': 45, 'order_ext_adv_connections': 75, 'order_ext_adv_terminated-first': 18,
             'order_ext_adv_terminated-after-data': 18, 'order_adv_event_swaps': 36,
             'order_connections_on_a_handle_used_before': 50, 'order_refused_disconnections': 8, 'order_failed_connections': 6,
             'order_failed_security_procedures': 5, 'order_waiters_judged': 25}
R7_MIN = {'upper_close_event_checks': 300, 'upper_layer_waiters': 200, 'upper_objects_dlc': 100, 'task_snapshots': 1800,
          'delegate_prompts_pending_at_cut': 100, 'delegate_prompts_pending_at_cut_get_number': 30,
          'delegate_prompts_pending_at_cut_display_number': 30, 'delegate_prompts_pending_at_cut_compare_numbers': 4,
          'delegate_prompts_pending_at_cut_confirm': 4, 'cut_runs_delivered': 150, 'cut_runs_sync': 60,
          'value_callbacks_started': 300}
MULTI_MIN.update(R7_MIN)
MIN_EVENTS = {
    'quick': dict({'cut_runs': 1800, 'cuts_before_completion': 1200, 'table_checks': 1800, 'leftover_checks': 1800,
                   'link_table_checks': 100, 'links_tracked': 150, 'link_disconnection_event_checks': 120, 'side_waiters': 100,
                   'real_transport_losses_observed': 6}, **MULTI_MIN),
    'thorough': dict({'cut_runs': 3000, 'cuts_before_completion': 1200, 'table_checks': 3000, 'leftover_checks': 3000,
                      'link_table_checks': 100, 'links_tracked': 150, 'link_disconnection_event_checks': 120,
                      'side_waiters': 100, 'real_transport_losses_observed': 12}, **MULTI_MIN),
}
CASE_TIMEOUT = 1800
EXHAUSTIVE_NOTE = 'thorough tier: every HCI message index of every listed procedure x 4 cut kinds'

PROCS = ['gatt-read', 'gatt-long-read', 'gatt-write', 'gatt-discover', 'gatt-subscribe', 'gatt-indicate',
         'pair-legacy', 'pair-sc', 'coc-connect', 'coc-disconnect', 'coc-drain', 'classic-connect',
         'classic-disconnect', 'rfcomm-open', 'sdp-query', 'hci-queued-command', 'encrypt']
# procedures on links that ride on an ACL connection: CIS (LE isochronous) and SCO/eSCO (BR/EDR synchronous)
ISO_PROCS = ['cis-establish', 'cis-idle', 'cis-iso-stream', 'cis-disconnect', 'sco-establish', 'sco-idle', 'sco-disconnect']
PROCS += ISO_PROCS
# the same procedure with the link made the other way round (the GATT server is the link central)
PROCS += ['gatt-subscribe-rev', 'gatt-indicate-rev', 'coc-drain-rev']
# waiters an independent reader pointed at: an indication awaiting its confirmation on an enhanced (EATT) bearer, through
# indicate_subscriber (one bearer after the other) and several indications queued behind one another; an LE credit-based
# channel whose disconnect() was given up by its caller (cancelled) before the link goes; a pending AVDTP command
PROCS += ['gatt-eatt-read', 'gatt-eatt-indicate', 'gatt-eatt-indicate-single', 'gatt-indicate-queued',
          'coc-disconnect-cancelled', 'avdtp-discover']
NEW_PROCS = ('gatt-eatt-read', 'gatt-eatt-indicate', 'gatt-eatt-indicate-single', 'gatt-indicate-queued',
             'coc-disconnect-cancelled', 'avdtp-discover')


# --- round 7 ----------------------------------------------------------------------------------------------------------
# TEARDOWN procedures of the layers above classic L2CAP (each ends in an L2CAP Disconnection Request whose answer may
# never come because the ACL goes first): the upper-layer objects (DLCs, multiplexers, channels that had been open) must be
# told, their waiters released
TEARDOWN_PROCS = ['rfcomm-shutdown', 'rfcomm-dlc-disconnect', 'rfcomm-mux-disconnect', 'sdp-disconnect',
                  'avdtp-channel-close', 'hfp-dlc-shutdown']
# client requests still being SERVED when the link goes (the server answers from a spawned task)
INFLIGHT_PROCS = ['gatt-cccd-read', 'gatt-cccd-write', 'gatt-dynamic-long-read', 'gatt-prepared-write']
# pairing with a user who is slow to answer, one procedure per association model / prompting side
PROMPT_PROCS = ['pair-passkey-initiator-inputs', 'pair-passkey-responder-inputs', 'pair-legacy-passkey',
                'pair-numeric-comparison', 'pair-just-works-confirm']
PROMPT_SETUP = {  # io capability of device 0 (initiator), of device 1, secure connections, mitm
    'pair-passkey-initiator-inputs': ('KEYBOARD_INPUT_ONLY', 'DISPLAY_OUTPUT_ONLY', True, True),
    'pair-passkey-responder-inputs': ('DISPLAY_OUTPUT_ONLY', 'KEYBOARD_INPUT_ONLY', True, True),
    'pair-legacy-passkey': ('KEYBOARD_INPUT_ONLY', 'DISPLAY_OUTPUT_ONLY', False, True),
    'pair-numeric-comparison': ('DISPLAY_OUTPUT_AND_YES_NO_INPUT', 'DISPLAY_OUTPUT_AND_YES_NO_INPUT', True, True),
    'pair-just-works-confirm': ('DISPLAY_OUTPUT_AND_YES_NO_INPUT', 'NO_OUTPUT_NO_INPUT', True, False),
}
PROCS += TEARDOWN_PROCS + INFLIGHT_PROCS + PROMPT_PROCS
NEW_PROCS += tuple(TEARDOWN_PROCS + INFLIGHT_PROCS + PROMPT_PROCS)
# procedures whose cut points are refined below the message index: besides 'log' (a loop turn after message k was
# emitted) also 'sync' (disconnect() called in the very turn message k is emitted, so that the Disconnect command travels
# right behind it) and 'delivered' (the cut lands when message k has been handed to its receiver and before anything the
# receiver spawned for it has run); and index 0 (the cut starts together with the procedure)
FINE_PROCS = tuple(INFLIGHT_PROCS)
CLASSIC_PROCS = ('classic-connect', 'classic-disconnect', 'rfcomm-open', 'sdp-query', 'avdtp-discover') + tuple(TEARDOWN_PROCS)


def positions(proc, cut):
    if proc not in FINE_PROCS:
        return ('log',)
    return ('log', 'sync', 'delivered') if cut.startswith('disc') else ('log', 'delivered')


def kp(proc):
    """Key suffix: the table / leftover keys of the procedures added later name the procedure (a caller that gave up, an
    enhanced bearer ... are mechanisms of their own); the keys of the older procedures stay as they were."""
    return f'/{proc}' if proc in NEW_PROCS else ''


# procedures whose awaited call runs on device 1 (the GATT server indicating)
SERVER_WAITS = ('gatt-indicate', 'gatt-eatt-indicate', 'gatt-eatt-indicate-single', 'gatt-indicate-queued')
CUTS = ['disc-initiator', 'disc-responder', 'lost-initiator', 'lost-responder']


def plan(tier, seed):
    cases = []
    # thorough: every index; the index set of a (procedure, cut) pair is dealt over PARTS cases so that the longest
    # procedures (coc-drain: thousands of messages) stay inside the per-case watchdog and spread over the cores
    parts = 1 if tier == 'quick' else 6
    for p in PROCS:
        for c in CUTS:
            sd = seed * 1000003 + len(cases)
            for part in range(parts):
                cases.append({'kind': 'cut', 'proc': p, 'cut': c, 'seed': sd, 'part': part, 'parts': parts,
                              'max_points': 150 if tier == 'quick' else 10 ** 6})
    for tr_ in ('tcp-client', 'unix-client'):
        for how in ('eof', 'reset'):
            for warm in ((0, 2) if tier == 'quick' else (0, 1, 2, 5)):
                cases.append({'kind': 'real-transport', 'transport': tr_, 'how': how, 'warm': warm,
                              'seed': seed * 1000003 + 2000 + len(cases)})
    for tr in ('le', 'bredr'):
        for how in ('disc-initiator', 'disc-responder', 'lost'):
            for k in range(2):
                cases.append({'kind': 'stale', 'transport': tr, 'how': how, 'seed': seed * 1000003 + 900 + len(cases)})
    # several links at once on one device: every topology x every link as the victim x every ending; seeded walks
    for rep in range(2 if tier == 'quick' else 6):
        for i, topo in enumerate(MULTI_TOPOLOGIES):
            cases.append({'kind': 'multi', 'topology': topo, 'seed': seed * 1000003 + 5000 + 100 * rep + i, 'pick': None})
    for i in range(96 if tier == 'quick' else 400):
        cases.append({'kind': 'multi-random', 'seed': seed * 1000003 + 6000 + i, 'count': 4 if tier == 'quick' else 8})
    # event orders / failure reports of a controller that is not bumble's
    for i, d in enumerate(order_plan(tier, seed)):
        cases.append(dict(d, kind='order', seed=seed * 1000003 + 7000 + i))
    return balance(cases)


# measured CPU seconds of one quick-tier case
CASE_WEIGHT = {'coc-drain': 8.2, 'coc-drain-rev': 8.2, 'gatt-long-read': 3.4, 'gatt-discover': 2.1, 'gatt-read': 1.5,
               'gatt-write': 1.5, 'pair-sc': 1.1, 'pair-legacy': 1.0, 'rfcomm-open': 0.9, 'avdtp-discover': 0.7,
               'pair-passkey-initiator-inputs': 2.7, 'pair-passkey-responder-inputs': 2.7, 'gatt-dynamic-long-read': 1.4,
               'gatt-prepared-write': 0.8, 'pair-legacy-passkey': 0.5, 'pair-numeric-comparison': 0.6,
               'pair-just-works-confirm': 0.6, 'gatt-cccd-write': 0.5,
               'sdp-query': 0.6, 'gatt-indicate-queued': 0.5, 'gatt-eatt-indicate-single': 0.4, 'classic-connect': 0.4}
KIND_WEIGHT = {'multi': 0.4, 'multi-random': 0.2, 'order': 0.04, 'stale': 0.02, 'real-transport': 0.05, 'cut': 0.2}


def balance(cases):
    """The runner gives case k to process k mod 16. The descriptors (and the seeds in them) stay what they are; only their
    order changes, so that the few long cases (thousands of cut points) do not share a process: heaviest first, each to
    the process with the least work so far that still has room (all processes get the same number of cases)."""
    jobs = 16

    def weight(c):
        return CASE_WEIGHT.get(c.get('proc'), KIND_WEIGHT.get(c.get('kind'), 0.3))
    room = [len(cases) // jobs + (1 if k < len(cases) % jobs else 0) for k in range(jobs)]
    bins = [[] for _ in range(jobs)]
    load = [0.0] * jobs
    for i in sorted(range(len(cases)), key=lambda i: (-weight(cases[i]), i)):
        k = min((k for k in range(jobs) if len(bins[k]) < room[k]), key=lambda k: (load[k], k))
        bins[k].append(cases[i])
        load[k] += weight(cases[i])
    return [bins[k][row] for row in range(max(room, default=0)) for k in range(jobs) if row < len(bins[k])]


# -----------------------------------------------------------------------------
class LinkWatch:
    """Every CisLink / ScoLink object a device ever held, with the events it was sent."""

    def __init__(self, rg):
        self.rg = rg
        self.links = {}       # id(link) -> record

    def see(self, dev, kind, link):
        if id(link) in self.links:
            return
        rec = {'dev': dev, 'kind': kind, 'link': link, 'handle': link.handle, 'established': 0, 'failed': 0, 'disconnected': 0}
        self.links[id(link)] = rec
        if kind == 'cis':
            if link.state.name == 'ESTABLISHED':
                rec['established'] = 1
            link.on('establishment', lambda *a, _r=rec: _r.__setitem__('established', _r['established'] + 1))
            link.on('establishment_failure', lambda *a, _r=rec: _r.__setitem__('failed', _r['failed'] + 1))
        else:
            rec['established'] = 1
        link.on('disconnection', lambda *a, _r=rec: _r.__setitem__('disconnected', _r['disconnected'] + 1))

    def sweep(self):
        for dev, d in enumerate(self.rg.devices):
            for link in list(d.cis_links.values()):
                self.see(dev, 'cis', link)
            for link in list(d.sco_links.values()):
                self.see(dev, 'sco', link)

    def attach(self):
        for dev, d in enumerate(self.rg.devices):
            d.on('cis_request', lambda link, _dev=dev: self.see(_dev, 'cis', link))
            d.on('sco_connection', lambda link, _dev=dev: self.see(_dev, 'sco', link))
        self.rg.on_hci_logged.append(lambda rec: self.sweep())


def sco_parameters():
    # the parameters are workload, not oracle: bumble's own eSCO CVSD S1 table is good enough
    from bumble import hfp
    return hfp.ESCO_PARAMETERS[hfp.DefaultCodecParameters.ESCO_CVSD_S1].asdict()


async def build_iso(case, proc, ctx):
    """CIS procedures: LE ACL, the peripheral accepts every CIS request the way tests/device_test.py does
    (accept_cis_request guarded by cancel_on_disconnection of the ACL). SCO procedures: BR/EDR ACL, the acceptor
    answers every synchronous connection request."""
    from bumble import hci
    from bumble.device import CigParameters
    rg, c0, c1 = ctx['rg'], ctx['c0'], ctx['c1']
    d0, d1 = rg.devices
    watch = ctx['watch'] = LinkWatch(rg)
    watch.attach()
    side = ctx['side_waiters'] = []      # (name, device index, task)
    if proc.startswith('cis'):
        def on_cis_request(link):
            side.append(('accept_cis_request', 1, asyncio.ensure_future(
                link.acl_connection.cancel_on_disconnection(d1.accept_cis_request(link)))))
        d1.on('cis_request', on_cis_request)
        ncis = 1 + (case['seed'] + PROCS.index(proc)) % 2 if proc != 'cis-disconnect' else 2
        ctx['cig'] = CigParameters(cig_id=1, cis_parameters=[CigParameters.CisParameters(cis_id=2 + i) for i in range(ncis)],
                                   sdu_interval_c_to_p=10000, sdu_interval_p_to_c=10000)
        if proc != 'cis-establish':
            handles = await vloop.vwait(d0.setup_cig(ctx['cig']))
            ctx['cis'] = await vloop.vwait(d0.create_cis([(h, c0) for h in handles]))
            await rg.quiesce()
            if any(h not in rg.hosts[1].cis_links for h in [l.handle for l in d1.cis_links.values()]) or \
                    len(rg.hosts[1].cis_links) != ncis:
                raise RuntimeError('CIS set-up did not complete on the peripheral')
    else:
        def on_sco_request(connection, link_type):
            side.append(('accept_sco', 1, asyncio.ensure_future(connection.cancel_on_disconnection(d1.send_command(
                hci.HCI_Enhanced_Accept_Synchronous_Connection_Request_Command(bd_addr=connection.peer_address,
                                                                               **sco_parameters()))))))
        d1.on('sco_request', on_sco_request)
        if proc != 'sco-establish':
            await vloop.vwait(d0.send_command(hci.HCI_Enhanced_Setup_Synchronous_Connection_Command(
                connection_handle=c0.handle, **sco_parameters())))
            await rg.quiesce()
            if len(d0.sco_links) != 1 or len(d1.sco_links) != 1:
                raise RuntimeError('SCO set-up did not complete')
            ctx['sco'] = list(d0.sco_links.values())[0]
    watch.sweep()
    if proc == 'cis-iso-stream':
        # SDUs are already with the controller (which never completes them) and a drain() waiter exists on each end
        for dev, links in ((0, list(d0.cis_links.values())), (1, list(d1.cis_links.values()))):
            for link in links:
                link.write(bytes(range(40)))
                side.append(('cis-drain', dev, asyncio.ensure_future(link.drain())))
        await rg.quiesce()


# -----------------------------------------------------------------------------
def slow_user_class():
    from bumble.pairing import PairingDelegate

    class SlowUserDelegate(PairingDelegate):
        """A user who takes 5 (virtual) seconds to answer every prompt, and who does not answer at all once the link has
        gone while the prompt was up. Keeps its own record of every prompt: started / ended (the `finally` of the call
        the stack made ran)."""

        def __init__(self, dev, io, st):
            super().__init__(io)
            self.dev_index, self.st = dev, st

        async def _prompt(self, name, answer, wait_for_passkey=False):
            rec = {'dev': self.dev_index, 'prompt': name, 'ended': False, 'pending_at_cut': False}
            self.st['prompts'].append(rec)
            try:
                for _ in range(2000 if wait_for_passkey else 0):
                    if self.st['passkey'] is not None:
                        break
                    await asyncio.sleep(0.01)
                if not self.st['dry']:
                    await asyncio.sleep(5)
                    if self.st['cut']:
                        await asyncio.sleep(10 ** 7)
                return answer() if callable(answer) else answer
            finally:
                rec['ended'] = True

        async def confirm(self, auto=False):
            return await self._prompt('confirm', True)

        async def compare_numbers(self, number, digits):
            return await self._prompt('compare_numbers', True)

        async def get_number(self):
            return await self._prompt('get_number', lambda: self.st['passkey'], wait_for_passkey=True)

        async def display_number(self, number, digits):
            self.st['passkey'] = number
            return await self._prompt('display_number', None)
    return SlowUserDelegate


def SlowUser(dev, io, st):
    return slow_user_class()(dev, io, st)


class UpperWatch:
    """Classic L2CAP channel objects (found by sweeping the channel manager's table at every HCI message), RFCOMM DLCs and
    multiplexers (handed in by the harness), with the 'open' / 'close' events each one emitted. What must be true after
    the ACL went is decided from these records: an object that had been open must have said that it closed."""

    def __init__(self, rg):
        self.rg = rg
        self.objs = {}

    def see(self, dev, kind, obj, was_open=None):
        if obj is None or id(obj) in self.objs:
            return
        rec = {'dev': dev, 'kind': kind, 'obj': obj, 'opened': 0, 'closed': 0}
        self.objs[id(obj)] = rec
        state = getattr(getattr(obj, 'state', None), 'name', '')
        if was_open or (was_open is None and state in ('OPEN', 'CONNECTED')):
            rec['opened'] = 1
        if kind != 'multiplexer':
            obj.on('open', lambda *a, _r=rec: _r.__setitem__('opened', _r['opened'] + 1))
            obj.on('close', lambda *a, _r=rec: _r.__setitem__('closed', _r['closed'] + 1))

    def sweep(self):
        for dev, d in enumerate(self.rg.devices):
            for chans in list(d.l2cap_channel_manager.channels.values()):
                for ch in list(chans.values()):
                    self.see(dev, 'classic-channel', ch)

    def attach(self):
        self.rg.on_hci_logged.append(lambda rec: self.sweep())
        self.sweep()


async def build_teardown(proc, ctx):
    from bumble import rfcomm, sdp, core
    rg, c0, c1 = ctx['rg'], ctx['c0'], ctx['c1']
    d0, d1 = rg.devices
    up = ctx['upper'] = UpperWatch(rg)
    up.attach()
    side = ctx.setdefault('side_waiters', [])
    loop = asyncio.get_running_loop()

    def closed_waiter(name, dev, obj):
        # an application task that waits for the object to say that it closed
        ev = asyncio.Event()
        obj.on('close', ev.set)
        side.append((name, dev, asyncio.ensure_future(ev.wait())))

    if proc.startswith('rfcomm') or proc.startswith('hfp'):
        accepted = loop.create_future()
        server = ctx['rf_server'] = rfcomm.Server(d1)
        channel = server.listen(acceptor=lambda dlc: accepted.done() or accepted.set_result(dlc))
        client = ctx['rf_client'] = rfcomm.Client(c0)
        mux = ctx['rf_mux'] = await vloop.vwait(client.start())
        dlc0 = ctx['dlc'] = await vloop.vwait(mux.open_dlc(channel))
        dlc1 = ctx['dlc_server'] = await vloop.vwait(accepted)
        await rg.quiesce()
        up.see(0, 'dlc', dlc0, True)
        up.see(1, 'dlc', dlc1, True)
        up.see(0, 'multiplexer', mux, True)
        for m in list(getattr(server, 'multiplexers', {}).values()):
            up.see(1, 'multiplexer', m, True)
        closed_waiter('dlc-close-event', 0, dlc0)
        closed_waiter('dlc-close-event', 1, dlc1)
        if proc.startswith('hfp'):
            from bumble import hfp
            hf = ctx['hf'] = hfp.HfProtocol(dlc0, hfp.HfConfiguration(
                supported_hf_features=[], supported_hf_indicators=[], supported_audio_codecs=[hfp.AudioCodec.CVSD]))
            ctx['ag'] = hfp.AgProtocol(dlc1, hfp.AgConfiguration(
                supported_ag_features=[], supported_ag_indicators=[
                    hfp.AgIndicatorState.call(), hfp.AgIndicatorState.callsetup(), hfp.AgIndicatorState.service(),
                    hfp.AgIndicatorState.signal(), hfp.AgIndicatorState.roam(), hfp.AgIndicatorState.callheld(),
                    hfp.AgIndicatorState.battchg()],
                supported_hf_indicators=[], supported_ag_call_hold_operations=[], supported_audio_codecs=[hfp.AudioCodec.CVSD]))
            await vloop.vwait(hf.initiate_slc())
            side.append(('hfp-run-loop', 0, asyncio.ensure_future(hf.run())))
            await rg.quiesce()
    elif proc == 'sdp-disconnect':
        d1.sdp_service_records = {0x10001: [
            sdp.ServiceAttribute(sdp.SDP_SERVICE_RECORD_HANDLE_ATTRIBUTE_ID, sdp.DataElement.unsigned_integer_32(0x10001)),
            sdp.ServiceAttribute(sdp.SDP_SERVICE_CLASS_ID_LIST_ATTRIBUTE_ID,
                                 sdp.DataElement.sequence([sdp.DataElement.uuid(core.UUID('1101'))]))]}
        client = ctx['sdp_client'] = sdp.Client(c0)
        await vloop.vwait(client.connect())
        await vloop.vwait(client.search_attributes([core.UUID('1101')], [(0, 0xFFFF)]))
        await rg.quiesce()
        closed_waiter('sdp-channel-close-event', 0, client.channel)
    elif proc == 'avdtp-channel-close':
        from bumble import avdtp, a2dp
        caps = avdtp.MediaCodecCapabilities(
            media_type=avdtp.MediaType.AUDIO, media_codec_type=a2dp.CodecType.SBC,
            media_codec_information=a2dp.SbcMediaCodecInformation(
                sampling_frequency=a2dp.SbcMediaCodecInformation.SamplingFrequency.SF_48000,
                channel_mode=a2dp.SbcMediaCodecInformation.ChannelMode.JOINT_STEREO,
                block_length=a2dp.SbcMediaCodecInformation.BlockLength.BL_16,
                subbands=a2dp.SbcMediaCodecInformation.Subbands.S_8,
                allocation_method=a2dp.SbcMediaCodecInformation.AllocationMethod.LOUDNESS,
                minimum_bitpool_value=2, maximum_bitpool_value=53))
        listener = ctx['avdtp_listener'] = avdtp.Listener.for_device(d1)
        listener.on('connection', lambda server: server.add_sink(caps))
        protocol = ctx['avdtp'] = await vloop.vwait(avdtp.Protocol.connect(c0))
        await vloop.vwait(protocol.discover_remote_endpoints())
        await rg.quiesce()
        closed_waiter('avdtp-channel-close-event', 0, protocol.l2cap_channel)
    up.sweep()
    if not any(rec['kind'] == 'classic-channel' and rec['opened'] for rec in up.objs.values()):
        raise RuntimeError(f'{proc}: no open classic channel found by the sweep')


# -----------------------------------------------------------------------------
async def build(case, proc):
    """Returns ctx dict with rig, conns, op factory. A procedure name ending in -rev runs over a link made the other
    way round (device 0, which starts the procedure, is the link PERIPHERAL; the GATT server sits on the link central)."""
    rev = proc.endswith('-rev')
    proc = proc.removesuffix('-rev')
    from bumble import l2cap, gatt
    from bumble.device import Peer
    from bumble.pairing import PairingConfig, PairingDelegate
    from vlib import rig as vrig
    vrig.seed_entropy(case['seed'])
    classic = proc in CLASSIC_PROCS or proc.startswith('sco')
    # VERIF_SEED selects the delay schedule (0: none, 1, 2: up to that many loop turns per
    # hop) and, in the quick tier, which message indices are sampled
    rg = vrig.Rig(2, seed=case['seed'], max_delay=(case['seed'] // 1000003) % 3, classic=classic)
    d0, d1 = rg.devices
    ctx = {'rg': rg}
    # the handles each controller announces, kept from the raw events (one handle names one link, whatever its kind)
    from vlib.ref_hci_links import HandleLedger
    ledgers = ctx['ledgers'] = [HandleLedger(), HandleLedger()]
    rg.on_hci_logged.append(lambda rec: ledgers[rec[1]].feed(rec[3]) if rec[2] == 'c2h' else None)
    if proc.startswith('gatt'):
        ch = gatt.Characteristic(
            'D0000001-0000-1000-8000-00805F9B34FB',
            gatt.Characteristic.Properties.READ | gatt.Characteristic.Properties.WRITE
            | gatt.Characteristic.Properties.NOTIFY | gatt.Characteristic.Properties.INDICATE,
            gatt.Characteristic.READABLE | gatt.Characteristic.WRITEABLE,
            bytes(range(256)) + bytes(44) if proc == 'gatt-long-read' else bytes(range(10)))
        chars_ = [ch]
        if proc == 'gatt-dynamic-long-read':
            # a value the application computes on demand, slowly (1 virtual second per ATT read / read blob)
            async def slow_read(connection):
                r_ = ctx.setdefault('value_callbacks', [0, 0])
                r_[0] += 1
                try:
                    await asyncio.sleep(1)
                    return bytes(range(100))
                finally:
                    r_[1] += 1
            ch = gatt.Characteristic(
                'D0000002-0000-1000-8000-00805F9B34FB',
                gatt.Characteristic.Properties.READ | gatt.Characteristic.Properties.NOTIFY, gatt.Characteristic.READABLE,
                gatt.CharacteristicValue(read=slow_read))
            chars_ = [ch]
        svc = gatt.Service('D0000000-0000-1000-8000-00805F9B34FB', chars_)
        d1.add_service(svc)
        ctx['server_char'] = ch
        if 'eatt' in proc:
            d1.gatt_server.register_eatt()
    if proc in ('pair-legacy', 'pair-sc', 'encrypt'):
        for d in (d0, d1):
            d.pairing_config_factory = lambda conn, _sc=(proc != 'pair-legacy'): PairingConfig(
                sc=_sc, mitm=False, bonding=True, delegate=PairingDelegate(),
                identity_address_type=PairingConfig.AddressType.RANDOM)
    if proc in PROMPT_PROCS:
        io0, io1, sc_, mitm_ = PROMPT_SETUP[proc]
        st = ctx['prompt_state'] = {'dry': case.get('_dry', False), 'cut': False, 'prompts': [], 'passkey': None}
        dels = ctx['delegates'] = [SlowUser(0, getattr(PairingDelegate.IoCapability, io0), st),
                                   SlowUser(1, getattr(PairingDelegate.IoCapability, io1), st)]
        for d, dl in zip((d0, d1), dels):
            d.pairing_config_factory = lambda conn, _dl=dl: PairingConfig(
                sc=sc_, mitm=mitm_, bonding=True, delegate=_dl, identity_address_type=PairingConfig.AddressType.RANDOM)
    await rg.power_on()
    await rg.quiesce()
    # every task that exists before there is a connection (the harness's own included) is not the connection's
    ctx['tasks_before'] = set(asyncio.all_tasks())
    ctx['own_tasks'] = []
    if classic:
        c0, c1 = await rg.connect_classic(0, 1)
    elif rev:
        c1, c0 = await rg.connect_le(1, 0)
    else:
        c0, c1 = await rg.connect_le(0, 1)
    ctx['c0'], ctx['c1'] = c0, c1
    await rg.quiesce()

    if proc.startswith('gatt'):
        peer = Peer(c0)
        ctx['peer'] = peer
        if proc != 'gatt-discover':
            await vloop.vwait(peer.discover_services())
            for s in peer.services:
                await vloop.vwait(s.discover_characteristics())
            chars = peer.get_characteristics_by_uuid(ctx['server_char'].uuid)
            ctx['char'] = chars[0]
            await vloop.vwait(ctx['char'].discover_descriptors())
        if proc in ('gatt-indicate', 'gatt-indicate-queued', 'gatt-eatt-indicate-single'):
            await vloop.vwait(ctx['char'].subscribe(lambda v: None, prefer_notify=False))
        if proc in ('gatt-cccd-read', 'gatt-cccd-write'):
            ctx['cccd'] = ctx['char'].get_descriptor(gatt.GATT_CLIENT_CHARACTERISTIC_CONFIGURATION_DESCRIPTOR)
            if ctx['cccd'] is None:
                raise RuntimeError('no CCCD discovered')
        if 'eatt' in proc:
            # one enhanced bearer next to the unenhanced one, with its own client, proxies and subscription
            from bumble import gatt_client
            eatt = ctx['eatt_client'] = await vloop.vwait(gatt_client.Client.connect_eatt(c0))
            await vloop.vwait(eatt.discover_services())
            for s in eatt.services:
                await vloop.vwait(s.discover_characteristics())
            ctx['eatt_char'] = eatt.get_characteristics_by_uuid(ctx['server_char'].uuid)[0]
            await vloop.vwait(ctx['eatt_char'].discover_descriptors())
            if proc != 'gatt-eatt-read':
                await vloop.vwait(ctx['eatt_char'].subscribe(lambda v: None, prefer_notify=False))
        await rg.quiesce()
    if proc in ('coc-connect', 'coc-disconnect', 'coc-drain', 'coc-disconnect-cancelled'):
        def accept(ch):
            ch.sink = lambda data: None   # a consuming receiver (without a sink no credits are returned)
        d1.create_l2cap_server(spec=l2cap.LeCreditBasedChannelSpec(psm=0x80, max_credits=4), handler=accept)
        if proc != 'coc-connect':
            ctx['chan'] = await vloop.vwait(c0.create_l2cap_channel(spec=l2cap.LeCreditBasedChannelSpec(psm=0x80, max_credits=4)))
            await rg.quiesce()
    if proc in ('classic-connect', 'classic-disconnect'):
        d1.create_l2cap_server(spec=l2cap.ClassicChannelSpec(psm=0x1001), handler=lambda ch: None)
        if proc == 'classic-disconnect':
            ctx['chan'] = await vloop.vwait(c0.create_l2cap_channel(spec=l2cap.ClassicChannelSpec(psm=0x1001)))
            await rg.quiesce()
    if proc == 'rfcomm-open':
        from bumble import rfcomm
        ctx['rf_channel'] = rfcomm.Server(d1).listen(acceptor=lambda dlc: None)
    if proc == 'sdp-query':
        from bumble import sdp, core
        d1.sdp_service_records = {0x10001: [
            sdp.ServiceAttribute(sdp.SDP_SERVICE_RECORD_HANDLE_ATTRIBUTE_ID, sdp.DataElement.unsigned_integer_32(0x10001)),
            sdp.ServiceAttribute(sdp.SDP_SERVICE_CLASS_ID_LIST_ATTRIBUTE_ID,
                                 sdp.DataElement.sequence([sdp.DataElement.uuid(core.UUID('1101'))]))]}
    if proc == 'avdtp-discover':
        from bumble import avdtp, a2dp
        caps = avdtp.MediaCodecCapabilities(
            media_type=avdtp.MediaType.AUDIO, media_codec_type=a2dp.CodecType.SBC,
            media_codec_information=a2dp.SbcMediaCodecInformation(
                sampling_frequency=a2dp.SbcMediaCodecInformation.SamplingFrequency.SF_48000,
                channel_mode=a2dp.SbcMediaCodecInformation.ChannelMode.JOINT_STEREO,
                block_length=a2dp.SbcMediaCodecInformation.BlockLength.BL_16,
                subbands=a2dp.SbcMediaCodecInformation.Subbands.S_8,
                allocation_method=a2dp.SbcMediaCodecInformation.AllocationMethod.LOUDNESS,
                minimum_bitpool_value=2, maximum_bitpool_value=53))
        listener = ctx['avdtp_listener'] = avdtp.Listener.for_device(d1)
        listener.on('connection', lambda server: server.add_sink(caps))
    if proc in TEARDOWN_PROCS:
        await build_teardown(proc, ctx)
    if proc == 'encrypt':
        await vloop.vwait(c0.pair())
        await rg.quiesce()
    if proc in ISO_PROCS:
        await build_iso(case, proc, ctx)
    return ctx


def make_op(ctx, proc):
    from bumble import l2cap, hci
    proc = proc.removesuffix('-rev')
    rg, c0, c1 = ctx['rg'], ctx['c0'], ctx['c1']
    d0, d1 = rg.devices

    async def op():
        if proc in ('gatt-read', 'gatt-long-read'):
            return await ctx['char'].read_value()
        if proc == 'gatt-write':
            return await ctx['char'].write_value(bytes(range(10)), with_response=True)
        if proc == 'gatt-discover':
            await ctx['peer'].discover_services()
            for s in ctx['peer'].services:
                await s.discover_characteristics()
            return True
        if proc == 'gatt-subscribe':
            return await ctx['char'].subscribe(lambda v: None)
        if proc == 'gatt-indicate':
            return await d1.indicate_subscribers(ctx['server_char'], b'hello')
        if proc == 'gatt-eatt-read':
            return await ctx['eatt_char'].read_value()
        if proc == 'gatt-eatt-indicate':
            return await d1.gatt_server.indicate_subscribers(ctx['server_char'], b'hello')
        if proc == 'gatt-eatt-indicate-single':
            # the enhanced bearers of the connection first, then the unenhanced one, each awaiting its confirmation
            return await d1.gatt_server.indicate_subscriber(c1, ctx['server_char'], b'hello')
        if proc == 'gatt-indicate-queued':
            res = await asyncio.gather(*[d1.gatt_server.indicate_subscriber(c1, ctx['server_char'], bytes([i]) * 4)
                                         for i in range(3)], return_exceptions=True)
            for x in res:
                if isinstance(x, BaseException) and not isinstance(x, Exception):
                    raise x
            return res
        if proc == 'coc-disconnect-cancelled':
            # the caller of disconnect() gives up (as asyncio.wait_for does on a timeout) once the request is out
            t = asyncio.ensure_future(ctx['chan'].disconnect())
            await asyncio.sleep(0)
            t.cancel()
            try:
                await t
            except asyncio.CancelledError:
                pass
            return None
        if proc == 'avdtp-discover':
            from bumble import avdtp
            protocol = await avdtp.Protocol.connect(c0)
            return await protocol.discover_remote_endpoints()
        if proc in ('pair-legacy', 'pair-sc') or proc in PROMPT_PROCS:
            return await c0.pair()
        if proc == 'gatt-cccd-read':
            return await ctx['cccd'].read_value()
        if proc == 'gatt-cccd-write':
            await ctx['cccd'].write_value(bytes([1, 0]), with_response=True)
            return await ctx['cccd'].read_value()
        if proc == 'gatt-dynamic-long-read':
            return await ctx['char'].read_value()
        if proc == 'gatt-prepared-write':
            from bumble import att
            client = c0.gatt_client
            out = []
            for req in (att.ATT_Prepare_Write_Request(attribute_handle=ctx['char'].handle, value_offset=0,
                                                      part_attribute_value=bytes(range(18))),
                        att.ATT_Prepare_Write_Request(attribute_handle=ctx['char'].handle, value_offset=18,
                                                      part_attribute_value=bytes(range(6))),
                        att.ATT_Execute_Write_Request(flags=1)):
                out.append(type(await client.send_request(req)).__name__)
            return out
        if proc in ('rfcomm-shutdown', 'hfp-dlc-shutdown'):
            return await ctx['rf_client'].shutdown()
        if proc == 'rfcomm-dlc-disconnect':
            await ctx['dlc'].disconnect()
            return await ctx['rf_client'].shutdown()
        if proc == 'rfcomm-mux-disconnect':
            await ctx['rf_mux'].disconnect()
            return await ctx['rf_client'].l2cap_channel.disconnect()
        if proc == 'sdp-disconnect':
            return await ctx['sdp_client'].disconnect()
        if proc == 'avdtp-channel-close':
            # a command is outstanding while the signalling channel is being closed
            t = asyncio.ensure_future(ctx['avdtp'].get_capabilities(1))
            ctx['side_waiters'].append(('avdtp-pending-command', 0, t))
            await asyncio.sleep(0)
            return await ctx['avdtp'].l2cap_channel.disconnect()
        if proc == 'encrypt':
            return await c0.encrypt()
        if proc == 'coc-connect':
            return await c0.create_l2cap_channel(spec=l2cap.LeCreditBasedChannelSpec(psm=0x80, max_credits=4))
        if proc == 'coc-disconnect':
            return await ctx['chan'].disconnect()
        if proc == 'coc-drain':
            ctx['chan'].write(bytes(24000))   # ~100 credit rounds: every message index stays enumerable
            return await ctx['chan'].drain()
        if proc == 'classic-connect':
            return await c0.create_l2cap_channel(spec=l2cap.ClassicChannelSpec(psm=0x1001))
        if proc == 'classic-disconnect':
            return await ctx['chan'].disconnect()
        if proc == 'rfcomm-open':
            from bumble import rfcomm
            mux = await rfcomm.Client(c0).start()
            return await mux.open_dlc(ctx['rf_channel'])
        if proc == 'sdp-query':
            from bumble import sdp
            client = sdp.Client(c0)
            await client.connect()
            from bumble import core
            res = await client.search_attributes([core.UUID('1101')], [(0, 0xFFFF)])
            await client.disconnect()
            return res
        if proc == 'cis-establish':
            handles = await d0.setup_cig(ctx['cig'])
            return await d0.create_cis([(h, c0) for h in handles])
        if proc in ('cis-idle', 'sco-idle'):
            return None
        if proc == 'cis-iso-stream':
            for i in range(4):
                for link in ctx['cis']:
                    link.write(bytes(60 + i))
                await asyncio.sleep(0)
            return None
        if proc == 'cis-disconnect':
            return await ctx['cis'][0].disconnect()
        if proc == 'sco-establish':
            return await d0.send_command(hci.HCI_Enhanced_Setup_Synchronous_Connection_Command(
                connection_handle=c0.handle, **sco_parameters()))
        if proc == 'sco-disconnect':
            return await ctx['sco'].disconnect()
        if proc == 'hci-queued-command':
            a = d0.host.send_command(hci.HCI_Read_BD_ADDR_Command())
            b = d0.host.send_command(hci.HCI_LE_Rand_Command())
            c = d0.host.send_command(hci.HCI_Read_Local_Name_Command())
            res = await asyncio.gather(a, b, c, return_exceptions=True)
            for x in res:
                if isinstance(x, BaseException) and not isinstance(x, Exception):
                    raise x
            return res
    return op


def dead_handle_leftovers(rg, dev, dead_handles, dead_conns):
    """List of (subsystem, description) for per-connection state of dead connections."""
    out = []
    d = rg.devices[dev]
    gs = d.gatt_server
    # every map of the GATT server that is keyed by a bearer (a Connection, or an enhanced ATT channel riding on one)
    names = ['subscribers', 'indication_semaphores', 'pending_confirmations']
    names += [n for n, v in vars(gs).items() if isinstance(v, dict) and n not in names]
    for name in names:
        tbl = getattr(gs, name, {})
        if not isinstance(tbl, dict):
            continue
        for bearer in list(tbl):
            conn = bearer if bearer in dead_conns else getattr(bearer, 'connection', None)
            if not isinstance(bearer, (int, str, bytes)) and (bearer in dead_conns or conn in dead_conns):
                v = tbl[bearer]
                if name == 'subscribers' and v == {}:
                    # the server's subscription record of the bearer, made again after the teardown: it keeps the closed
                    # bearer (and the whole Connection behind it) alive and nothing will ever remove it
                    out.append(('gatt_server.subscribers/empty-entry-made-after-teardown'
                                + ('' if bearer in dead_conns else '/enhanced-bearer'),
                                f'subscribers has an (empty) entry for dead connection {getattr(bearer, "handle", bearer)}'))
                    continue
                # a default value (None or a free semaphore) of the two defaultdicts, re-created by a
                # finishing coroutine, carries no state
                if v is None or v == {} or (hasattr(v, 'locked') and not v.locked()):
                    continue
                out.append((f'gatt_server.{name}' + ('' if bearer in dead_conns else '/enhanced-bearer'),
                            f'entry for dead connection {getattr(bearer, "handle", bearer)}'))
    for h in list(getattr(d.smp_manager, 'sessions', {})):
        if h in dead_handles:
            out.append(('smp.sessions', f'pairing session for dead handle {h:#x}'))
    mgr = d.l2cap_channel_manager
    for name in ('channels', 'le_coc_channels', 'pending_credit_based_connections'):
        for h, v in getattr(mgr, name, {}).items():
            if h in dead_handles and v:
                out.append((f'l2cap.{name}', f'{len(v)} entries for dead handle {h:#x}'))
    for h in getattr(mgr, 'identifiers', {}):
        if h in dead_handles:
            out.append(('l2cap.identifiers', f'identifier counter for dead handle {h:#x}'))
    for key in getattr(mgr, 'le_coc_requests', {}):
        h = key[0] if isinstance(key, tuple) else None
        if h is None or h in dead_handles:
            out.append(('l2cap.le_coc_requests', f'pending request {key}'))
    for h in getattr(d, 'connecting_extended_advertising_sets', {}):
        if h in dead_handles:
            out.append(('device.connecting_extended_advertising_sets', f'advertising set parked for dead handle {h:#x}'))
    for qn in ('acl_packet_queue', 'le_acl_packet_queue', 'iso_packet_queue'):
        q = getattr(d.host, qn, None)
        if q is not None:
            for h in getattr(q, '_connection_state', {}):
                if h in dead_handles:
                    out.append((f'host.{qn}', f'per-connection queue state for dead handle {h:#x}'))
            for pkt, h in list(getattr(q, '_packets', [])):
                if h in dead_handles:
                    out.append((f'host.{qn}', f'queued packet for dead handle {h:#x}'))
                    break
    return out


def link_snapshot(rg, dev):
    host, device = rg.hosts[dev], rg.devices[dev]
    snap = {}
    for kind in ('cis', 'sco', 'bis'):
        snap[f'host.{kind}'] = set(getattr(host, f'{kind}_links'))
        snap[f'device.{kind}'] = set(getattr(device, f'{kind}_links'))
    return snap


def judge_links(r, ctx, proc, cut, cut_dev, waiter_dev, sides, cut_at):
    """Every CIS / SCO link of these scenarios rides on the one ACL connection that was closed (or on the transport
    that was lost), so at quiescence after the cut: no such link in host.*_links / device.*_links (nor, for a
    disconnection, in the controller); every link object that had been established got exactly one 'disconnection'
    event; the waiters that existed at the cut (accept_cis_request, drain) are finished."""
    rg, watch = ctx['rg'], ctx['watch']
    watch.sweep()
    lost = cut.startswith('lost')
    klass = 'transport-loss' if lost else 'acl-disconnect'
    where = f'({proc}, {cut} at message {cut_at})'
    handles = {0: set(), 1: set()}
    for rec in watch.links.values():
        handles[rec['dev']].add(rec['handle'])
    r.ev('link_table_checks')

    def when(dev, table, entries):
        # a link that was not in the table when the host stack learnt that the ACL went away (transport: was lost) came
        # into being afterwards: another mechanism than a link that was not removed (controller entries are compared
        # with what the device listed at that moment, the controller being ahead of the host by the events in flight)
        snap = ctx['snaps'].get(dev)
        if snap is None:
            return '/connection-object-not-told'
        return '/appeared-after-acl-gone' if not (set(entries) & snap[table]) else ''

    for dev in sides:
        host, device, ctl = rg.hosts[dev], rg.devices[dev], rg.controllers[dev]
        for kind in ('cis', 'sco', 'bis'):
            hh = sorted(getattr(host, f'{kind}_links'))
            dl = getattr(device, f'{kind}_links')
            dd = {h: getattr(getattr(l, 'state', None), 'name', 'present') for h, l in dl.items()}
            r.ev('oracle_evals', 2)
            if hh:
                r.bad(f'tables/{kind}-links-after-{klass}/host' + when(dev, f'host.{kind}', hh),
                      f'dev{dev}: host.{kind}_links={hh} (device.{kind}_links={dd}, host.connections='
                      f'{sorted(host.connections)}) {where}')
            if dd:
                r.bad(f'tables/{kind}-links-after-{klass}/device' + ('/pending' if set(dd.values()) == {'PENDING'} else '')
                      + when(dev, f'device.{kind}', dd),
                      f'dev{dev}: device.{kind}_links={dd} (host.{kind}_links={hh}, device.connections='
                      f'{sorted(device.connections)}) {where}')
        if not lost:
            r.ev('oracle_evals', 2)
            acl = {c.handle for c in list(ctl.le_connections.values()) + list(ctl.classic_connections.values())}
            stale = sorted(h for h, l in list(ctl.central_cis_links.items()) + list(ctl.peripheral_cis_links.items())
                           if l.acl_connection is not None and l.acl_connection.handle not in acl)
            if stale:
                r.bad('tables/cis-links-after-acl-disconnect/controller' + when(dev, 'device.cis', stale),
                      f'dev{dev}: controller CIS links {stale} still attached to an ACL connection that is gone '
                      f'(controller ACL handles {sorted(acl)}) {where}')
            # (handle 0 is the controller's placeholder for a request its host has not answered, not a link)
            if [l for l in ctl.sco_links.values() if l.handle]:
                r.bad('tables/sco-links-after-acl-disconnect/controller'
                      + when(dev, 'device.sco', [l.handle for l in ctl.sco_links.values() if l.handle]),
                      f'dev{dev}: controller.sco_links={[l.handle for l in ctl.sco_links.values()]} with ACL handles '
                      f'{sorted(acl)} {where}')
    for rec in watch.links.values():
        if rec['dev'] not in sides:
            continue
        r.ev('links_tracked')
        r.ev(f'links_tracked_{rec["kind"]}')
        r.ev('oracle_evals')
        if rec['established']:
            r.ev('link_disconnection_event_checks')
            if rec['disconnected'] != 1:
                r.bad(f'events/{rec["kind"]}-disconnection/{"none" if rec["disconnected"] == 0 else "repeated"}/{klass}',
                      f'dev{rec["dev"]}: the {rec["kind"].upper()} link object with handle {rec["handle"]:#x} was established '
                      f'and its link is gone, it got {rec["disconnected"]} disconnection events {where}')
        else:
            r.ev('links_never_established')
            if rec['disconnected'] > 1 or rec['failed'] > 1:
                r.bad(f'events/{rec["kind"]}-pending-link/repeated/{klass}',
                      f'dev{rec["dev"]}: pending link {rec["handle"]:#x} got {rec["disconnected"]} disconnection and '
                      f'{rec["failed"]} establishment_failure events {where}')
    for name, dev, task in ctx.get('side_waiters', []):
        r.ev('side_waiters')
        r.ev('oracle_evals')
        if task.done():
            if not task.cancelled():
                task.exception()
            continue
        task.cancel()
        if dev not in sides:
            r.ev('waiter_not_judged_peer_transport_lost')
        else:
            r.bad(f'waiter/hang/{name}/{cut}', f'dev{dev}: {name} started before the cut is still pending {where}')
    return handles


def judge_side_waiters(r, ctx, cut, sides, where):
    for name, dev, task in ctx.get('side_waiters', []):
        r.ev('side_waiters')
        r.ev('upper_layer_waiters')
        r.ev('oracle_evals')
        if task.done():
            if not task.cancelled():
                task.exception()
            continue
        task.cancel()
        if dev not in sides:
            r.ev('waiter_not_judged_peer_transport_lost')
        else:
            r.bad(f'waiter/hang/{name}/{cut}', f'dev{dev}: {name} started before the cut is still pending {where}')


def judge_upper(r, ctx, proc, cut, sides, klass, where):
    """The ACL under every object of the scenario is gone: a classic channel / DLC that had been open must have said that
    it closed (once), and may not be left in a state that promises service."""
    up = ctx['upper']
    up.sweep()
    for rec in up.objs.values():
        if rec['dev'] not in sides:
            continue
        kind, obj = rec['kind'], rec['obj']
        state = getattr(getattr(obj, 'state', None), 'name', '?')
        r.ev('upper_objects_tracked')
        r.ev(f'upper_objects_{kind}')
        r.ev('oracle_evals')
        if kind == 'multiplexer':
            # (has no close event of its own)
            if state in ('CONNECTED', 'OPENING', 'CONNECTING'):
                r.ev('multiplexer_state_after_link_gone_' + state)
            continue
        if rec['opened']:
            r.ev('upper_close_event_checks')
            if rec['closed'] != 1:
                r.bad(f'events/{kind}-close/{"none" if not rec["closed"] else "repeated"}/{klass}/{proc}',
                      f'dev{rec["dev"]}: the {kind} object had been open, its ACL connection is gone, and it emitted '
                      f'{rec["closed"]} close events; state {state} {where}')
            if state in ('OPEN', 'CONNECTED', 'WAIT_DISCONNECT', 'DISCONNECTING'):
                r.bad(f'leftover/{kind}-state/{state}/{klass}/{proc}',
                      f'dev{rec["dev"]}: {kind} left in state {state} after its ACL connection went {where}')


def task_owners(task, rg):
    """Device indices a task works for, found in the locals of its coroutine chain (self.device, self.connection.device,
    self.manager.device, a harness delegate)."""
    from bumble.device import Device, Connection
    owners = set()
    notes = []

    def look(v, depth=0):
        if isinstance(v, Device):
            if v in rg.devices:
                owners.add(rg.devices.index(v))
            return
        if isinstance(v, Connection):
            return look(v.device)
        if hasattr(v, 'dev_index'):
            owners.add(v.dev_index)
            return
        if v in rg.hosts:
            owners.add(rg.hosts.index(v))
            return
        if depth < 2 and hasattr(v, '__dict__') and type(v).__module__.startswith('bumble'):
            for name in ('device', 'connection', 'manager', 'session', 'acl_connection', 'host'):
                w = getattr(v, name, None)
                if w is not None:
                    look(w, depth + 1)
    co = task.get_coro()
    for _ in range(30):
        if co is None:
            break
        frame = getattr(co, 'cr_frame', None) or getattr(co, 'gi_frame', None) or getattr(co, 'ag_frame', None)
        if frame is not None:
            for k_, v in list(frame.f_locals.items()):
                try:
                    look(v)
                    if k_ == 'command' and f'command={v.name}' not in notes:
                        notes.append(f'command={v.name}')
                except Exception:
                    pass
        co = getattr(co, 'cr_await', None) or getattr(co, 'gi_yieldfrom', None) or getattr(co, 'ag_await', None)
    task_owners.notes = notes
    return owners


def judge_tasks(r, ctx, proc, cut, sides, klass, where):
    """Tasks that came into being after the connection was made, are not the harness's, and are still not done although
    the connection is gone and the settling time (40 virtual seconds, longer than every protocol timeout) has passed:
    something the stack started for the connection still waits."""
    rg = ctx['rg']
    own = set(ctx['own_tasks']) | {t for _n, _d, t in ctx.get('side_waiters', [])} | {asyncio.current_task()}
    r.ev('task_snapshots')
    for t in asyncio.all_tasks():
        if t.done() or t in ctx['tasks_before'] or t in own:
            continue
        co = t.get_coro()
        name = getattr(co, '__qualname__', type(co).__name__).replace('.<locals>', '')
        owners = task_owners(t, rg)
        r.ev('tasks_left_seen')
        r.ev('oracle_evals')
        judged = (set(sides) >= owners and owners) or (not owners and len(sides) == 2)
        t.cancel()
        if not judged:
            r.ev('tasks_left_not_judged_other_side_or_unattributed')
            r.add_extra_list('tasks_left_not_judged', f'{name} owners={sorted(owners)} sides={list(sides)}')
            continue
        cmd = ''.join(f'[{n.split("=")[1]}]' for n in task_owners.notes[:1])
        r.bad(f'waiter/task-left/{name}{cmd}/{klass}',
              f'a task the stack created after the connection was made ({name}, working for device(s) {sorted(owners)}) is '
              f'still pending after the connection went and 40 virtual s passed {" ".join(task_owners.notes)} {where}')


async def scenario(case, r, proc, cut, cut_at, pos='log'):
    ctx = await build(dict(case, _dry=cut_at is None), proc)
    rg, c0, c1 = ctx['rg'], ctx['c0'], ctx['c1']
    op = make_op(ctx, proc)
    start = len(rg.hci_log)
    fired = []
    cut_dev = 0 if cut.endswith('initiator') else 1
    finished = []

    snaps = ctx['snaps'] = {}
    if 'watch' in ctx:
        for _dev, _conn in ((0, c0), (1, c1)):
            _conn.on('disconnection', lambda *a, _d=_dev: snaps.setdefault(_d, link_snapshot(rg, _d)))

    def do_cut():
        if 'prompt_state' in ctx:
            ctx['prompt_state']['cut'] = True
            for rec in ctx['prompt_state']['prompts']:
                rec['pending_at_cut'] = not rec['ended']
        if 'value_callbacks' in ctx:
            ctx['value_callbacks_pending_at_cut'] = ctx['value_callbacks'][0] - ctx['value_callbacks'][1]
        if cut.startswith('lost') and 'watch' in ctx:
            snaps.setdefault(cut_dev, link_snapshot(rg, cut_dev))
        if cut.startswith('disc'):
            conn = c0 if cut_dev == 0 else c1

            async def go():
                try:
                    await conn.disconnect()
                except Exception:
                    pass
            ctx['own_tasks'].append(asyncio.ensure_future(go()))
        else:
            rg.cut_transport(cut_dev)
            try:
                rg.hosts[cut_dev].on_transport_lost()
            except Exception as e:
                rg.note_exception(f'on_transport_lost{cut_dev}', e)

    target = []

    def on_log(rec):
        if cut_at and not fired and len(rg.hci_log) - start >= cut_at:
            if pos == 'log':
                fired.append(len(finished) == 0)
                rg.loop.call_soon(do_cut)
            elif pos == 'sync':
                # in the very turn the message is emitted (a disconnect() started now puts its command right behind it)
                fired.append(len(finished) == 0)
                do_cut()
            elif not target:
                target.append((rec[1], rec[2], bytes(rec[3])))

    def on_delivery(dev, direction, packet):
        # called just before the receiver is handed the packet: what is scheduled here runs before anything the receiver
        # spawns for that packet
        if target and not fired and (dev, direction, bytes(packet)) == target[0]:
            fired.append(len(finished) == 0)
            rg.loop.call_soon(do_cut)

    rg.on_hci_logged.append(on_log)
    if pos == 'delivered':
        rg.on_hci_delivery.append(on_delivery)
    task = asyncio.ensure_future(op())
    task.add_done_callback(lambda t: finished.append(1))
    ctx['own_tasks'].append(task)
    if cut_at == 0:
        # the cut starts together with the procedure (request and Disconnect command leave back to back)
        fired.append(True)
        if cut.startswith('disc'):
            do_cut()
        else:
            rg.loop.call_soon(do_cut)   # (after the first step of the procedure: it was started on a live connection)
    outcome = 'ok'
    try:
        await vloop.vwait(asyncio.shield(task))
    except vloop.Hang:
        outcome = 'hang'
        if task.done() and not task.cancelled() and task.exception() is not None:
            # the procedure itself ended with the built-in TimeoutError (a protocol timeout of the stack, which
            # asyncio.wait_for inside vwait cannot tell from its own): it ended, with an error
            outcome = f'raised:{type(task.exception()).__name__}'
    except asyncio.CancelledError:
        outcome = 'cancelled'
    except BaseException as e:
        if type(e).__name__ == 'CaseTimeout' or isinstance(e, (KeyboardInterrupt, SystemExit)):
            raise
        outcome = f'raised:{type(e).__name__}'
    try:
        await rg.quiesce()
    except vloop.Hang:
        outcome = outcome + '+no-quiescence'
    n = len(rg.hci_log) - start
    if cut_at is None:
        if outcome != 'ok':
            raise RuntimeError(f'dry run of {proc} did not complete normally: {outcome}')
        return n
    if not fired:
        # the procedure needed fewer messages this time; apply the cut now (after completion)
        do_cut()
        fired.append(False)
        await rg.quiesce()
    r.ev('cut_runs')
    if fired[0]:
        r.ev('cuts_before_completion')
    key = f'{proc}/{cut}'
    r.ev('oracle_evals')
    waiter_dev = 1 if proc.removesuffix('-rev') in SERVER_WAITS else 0
    if outcome.startswith('hang'):
        if not task.done():
            task.cancel()
        if cut.startswith('lost') and cut_dev != waiter_dev:
            # the waiter's own connection and transport are intact, its peer merely went
            # silent: whether a protocol timeout ends the wait is not this property
            r.ev('waiter_not_judged_peer_transport_lost')
        else:
            r.bad(f'waiter/hang/{key}', f'{proc} still pending {vloop.T_V} virtual s after the cut at message {cut_at}')
    r.ev(f'outcome_{outcome.split(":")[0]}')
    # let any remaining timers (e.g. GATT 30 s) expire, then judge tables
    await asyncio.sleep(40)
    await rg.quiesce()
    # ---- tables ----------------------------------------------------------------
    r.ev('table_checks')
    sides = (cut_dev,) if cut.startswith('lost') else (0, 1)
    for dev in sides:
        hh = set(rg.hosts[dev].connections)
        dh = set(rg.devices[dev].connections)
        r.ev('oracle_evals')
        if cut.startswith('lost'):
            if hh or dh:
                r.bad(f'tables/connections-after-transport-loss/{"host" if hh else "device"}' + kp(proc),
                      f'dev{dev}: host.connections={sorted(hh)} device.connections={sorted(dh)} after transport loss '
                      f'({proc}, cut at {cut_at})')
        else:
            ch = {c.handle for c in list(rg.controllers[dev].le_connections.values()) +
                  list(rg.controllers[dev].classic_connections.values())}
            if not (hh == dh == ch):
                r.bad(f'tables/disagree/{cut}' + kp(proc), f'dev{dev}: host={sorted(hh)} device={sorted(dh)} controller={sorted(ch)} '
                                                f'({proc}, cut at {cut_at})')
            if hh or dh or ch:
                r.bad(f'tables/connection-survived/{cut}' + kp(proc), f'dev{dev} still has connections {sorted(hh | dh | ch)}')
    # ---- links riding on the connection (CIS, SCO) ----------------------------------
    iso_handles = {0: set(), 1: set()}
    if 'watch' in ctx:
        iso_handles = judge_links(r, ctx, proc, cut, cut_dev, waiter_dev, sides, cut_at)
    # ---- leftovers ---------------------------------------------------------------
    r.ev('leftover_checks')
    for dev in sides:
        conn = c0 if dev == 0 else c1
        left = dead_handle_leftovers(rg, dev, {conn.handle} | iso_handles[dev], {conn})
        r.ev('oracle_evals')
        for sub, what in left:
            r.bad(f'leftover/{sub}/{"transport-loss" if cut.startswith("lost") else "disconnect"}' + kp(proc),
                  f'dev{dev}: {what} ({proc}, {cut} at message {cut_at})')
    klass = 'transport-loss' if cut.startswith('lost') else 'disconnect'
    where_ = f'({proc}, {cut} at message {cut_at}/{pos})'
    if 'upper' in ctx:
        judge_upper(r, ctx, proc, cut, sides, klass, where_)
    if 'watch' not in ctx and 'upper' in ctx:
        judge_side_waiters(r, ctx, cut, sides, where_)
    if 'prompt_state' in ctx:
        for rec in ctx['prompt_state']['prompts']:
            r.ev('delegate_prompts')
            r.ev(f'delegate_prompts_{rec["prompt"]}')
            if rec['pending_at_cut']:
                r.ev('delegate_prompts_pending_at_cut')
                r.ev(f'delegate_prompts_pending_at_cut_{rec["prompt"]}')
            if rec['dev'] in sides:
                r.ev('oracle_evals')
                if not rec['ended']:
                    r.bad(f'waiter/delegate-prompt-left/{rec["prompt"]}/{klass}/{proc}',
                          f'dev{rec["dev"]}: the call delegate.{rec["prompt"]}() made by the stack for the pairing is still '
                          f'waiting for the user after the connection went and the settling time passed {where_}')
    if 'value_callbacks' in ctx:
        r.ev('value_callbacks_started', ctx['value_callbacks'][0])
        r.ev('value_callbacks_pending_at_cut', ctx.get('value_callbacks_pending_at_cut', 0))
        if 1 in sides:
            r.ev('oracle_evals')
            if ctx['value_callbacks'][0] != ctx['value_callbacks'][1]:
                r.bad(f'waiter/value-callback-left/{klass}/{proc}',
                      f'{ctx["value_callbacks"][0]} value callbacks of the GATT server started, {ctx["value_callbacks"][1]} '
                      f'ended {where_}')
    judge_tasks(r, ctx, proc, cut, sides, klass, where_)
    for dev, led in enumerate(ctx['ledgers']):
        r.ev('handle_distinctness_checks')
        r.ev('oracle_evals')
        for new, handle, old in led.collisions:
            r.bad(f'handles/collision/{new}-given-handle-of-live-{old}',
                  f'dev{dev}: the controller announced a {new} link with handle {handle:#x} while that handle still named a {old} '
                  f'link ({proc}, {cut} at message {cut_at})')
    for where, e in rg.exceptions:
        if where.startswith('on_transport_lost'):
            r.bad(f'waiter/exception-in-on_transport_lost/{proc}', f'{e}')
        else:
            r.ev('exceptions_in_stack_after_cut')
            r.add_extra_list('exceptions_after_cut', f'{proc}/{cut}: {where}: {e}'[:160])
    r.sig(proc, cut, cut_at, pos) if pos != 'log' else r.sig(proc, cut, cut_at)
    if pos != 'log':
        r.ev(f'cut_runs_{pos}')
    r.sched.add(rg.schedule_signature)
    return n


async def stale_object(case, r: R):
    """A connection is closed, a new one is made (the virtual controller reuses the lowest free
    handle), and then something starts waiting on the OLD Connection object: it must be released,
    the disconnection it would wait for has already happened."""
    from bumble import l2cap
    from vlib import rig as vrig
    rng = random.Random(case['seed'])
    vrig.seed_entropy(case['seed'])
    classic = case['transport'] == 'bredr'
    rg = vrig.Rig(2, seed=case['seed'], max_delay=rng.choice([0, 1]), classic=classic)
    await rg.power_on()
    rg.devices[1].create_l2cap_server(spec=l2cap.ClassicChannelSpec(psm=0x1001), handler=lambda ch: None) if classic else None
    old0, old1 = await (rg.connect_classic(0, 1) if classic else rg.connect_le(0, 1))
    await rg.quiesce()
    how = case['how']
    if how.startswith('lost'):
        side = 0
        rg.cut_transport(side)
        rg.hosts[side].on_transport_lost()
        olds = [(0, old0)]
    else:
        await vloop.vwait((old0 if how == 'disc-initiator' else old1).disconnect())
        olds = [(0, old0), (1, old1)]
    await rg.quiesce()
    new = None
    if not how.startswith('lost'):
        new = await (rg.connect_classic(0, 1) if classic else rg.connect_le(0, 1))
        await rg.quiesce()
        r.ev('stale_handle_reused' if new[0].handle == old0.handle else 'stale_handle_not_reused')
    loop = asyncio.get_running_loop()
    for dev, old in olds:
        r.ev('stale_object_waiters')
        r.ev('oracle_evals')
        fut = loop.create_future()
        try:
            await vloop.vwait(old.cancel_on_disconnection(fut))
            outcome = 'returned'
        except vloop.Hang:
            outcome = 'hang'
        except asyncio.CancelledError:
            outcome = 'cancelled'
        except Exception as e:
            outcome = type(e).__name__
        if outcome == 'hang':
            r.bad(f'waiter/hang/stale-connection-object/{how}' + ('/handle-reused' if new and new[0].handle == old0.handle else ''),
                  f'a waiter registered with cancel_on_disconnection on the closed connection of dev{dev} '
                  f'(handle {old.handle:#x}) is still pending after {vloop.T_V} virtual s')
            fut.cancel()
    r.ev('cut_runs')
    r.ev('table_checks')
    r.ev('leftover_checks')
    r.ev('cuts_before_completion')
    r.sig('stale', case['transport'], how)
    r.evals()
    r.sample = {'kind': 'stale-object', 'transport': case['transport'], 'how': how}


async def real_transport(case, r: R):
    """The loss of a REAL stream transport (tcp-client, unix-client) as the transports announce it: the far end
    closes the socket in an orderly way (EOF) or abruptly (reset) while one HCI command is outstanding and another
    waits for the command slot. Counted events, not time, decide: once asyncio has told the transport that the
    connection is lost, both callers must be released within 200 loop turns."""
    import os, shutil, socket, struct, tempfile
    from bumble import hci
    from bumble.host import Host
    kind, how = case['transport'], case['how']
    rng = random.Random(case['seed'])
    got = {'bytes': 0, 'writer': None}
    ev_cmd = asyncio.Event()

    async def serve(reader, writer):
        got['writer'] = writer
        answered = 0
        while True:
            data = await reader.read(4096)
            if not data:
                return
            got['bytes'] += len(data)
            # answer the first `warm` commands (so that the host has seen traffic), then go silent
            while answered < case['warm'] and got['bytes'] >= 4 * (answered + 1):
                # Command Complete, Read_BD_ADDR, status 0, BD_ADDR (a whole one: a truncated event is dropped by the host and
                # each warm-up command then costs its 20 s of wall-clock timeout)
                writer.write(bytes([4, 0x0E, 10, 1, 0x09, 0x10, 0]) + bytes([0xA0, 0x10, 0x10, 0x10, 0x10, 0x10]))
                answered += 1
            if got['bytes'] >= 4 * (case['warm'] + 1):
                ev_cmd.set()

    tmp = None
    if kind == 'tcp-client':
        from bumble.transport.tcp_client import open_tcp_client_transport
        server = await asyncio.start_server(serve, '127.0.0.1', 0)
        port = server.sockets[0].getsockname()[1]
        transport = await open_tcp_client_transport(f'127.0.0.1:{port}')
    else:
        from bumble.transport.unix import open_unix_client_transport
        tmp = tempfile.mkdtemp(prefix='c16-')
        path = os.path.join(tmp, 'hci.sock')
        server = await asyncio.start_unix_server(serve, path)
        transport = await open_unix_client_transport(path)
    try:
        src = transport.source
        lost = []
        inner = src.connection_lost

        def connection_lost(exc):
            lost.append(exc)
            return inner(exc)
        src.connection_lost = connection_lost
        host = Host(transport.source, transport.sink)
        if case['warm']:
            # as after HCI_Reset: a host that has not seen its reset complete drops every event, and each warm-up command
            # would only burn its 20 s of wall-clock timeout
            host.ready = True
        for _ in range(case['warm']):
            try:
                await asyncio.wait_for(host.send_command(hci.HCI_Read_BD_ADDR_Command()), 20)
            except Exception:
                pass
        a = asyncio.ensure_future(host.send_command(hci.HCI_Read_BD_ADDR_Command()))
        b = asyncio.ensure_future(host.send_command(hci.HCI_Read_Local_Name_Command()))
        try:
            await asyncio.wait_for(ev_cmd.wait(), 20)
        except asyncio.TimeoutError:
            r.ev('real_transport_harness_timeouts')
            return
        w = got['writer']
        if how == 'eof':
            w.close()
        else:
            sock = w.get_extra_info('socket')
            if kind == 'tcp-client':
                sock.setsockopt(socket.SOL_SOCKET, socket.SO_LINGER, struct.pack('ii', 1, 0))
            w.transport.abort()
        for _ in range(3000):
            if lost:
                break
            await asyncio.sleep(0.01)
        if not lost:
            r.ev('real_transport_harness_timeouts')
            return
        r.ev('real_transport_losses_observed')
        r.ev('real_transport_lost_with_' + ('exception' if lost[0] is not None else 'eof'))
        for _ in range(200):
            if a.done() and b.done():
                break
            await asyncio.sleep(0)
        r.ev('oracle_evals')
        for name, t in (('outstanding', a), ('queued', b)):
            if not t.done():
                r.bad(f'waiter/hang/real-transport/{kind}/{how}/{name}-command',
                      f'asyncio reported connection_lost({lost[0]!r}) to the {kind} transport, yet the {name} HCI command is '
                      f'still pending 200 loop turns later')
                t.cancel()
            elif t.exception() is None:
                r.bad(f'waiter/completed-without-transport/{kind}/{how}/{name}-command', f'{name} command returned {t.result()!r}')
        # a command issued after the loss fails at once as well
        try:
            await asyncio.wait_for(host.send_command(hci.HCI_Read_BD_ADDR_Command()), 5)
            r.bad(f'waiter/completed-without-transport/{kind}/{how}/later-command', 'a command sent after the loss returned')
        except asyncio.TimeoutError:
            r.bad(f'waiter/hang/real-transport/{kind}/{how}/later-command', 'a command sent after the loss never ends')
        except Exception:
            pass
        r.sig('real-transport', kind, how, case['warm'])
        r.evals()
        r.sample = {'kind': 'real-transport', 'transport': kind, 'how': how, 'connection_lost_argument': repr(lost[0])}
    finally:
        try:
            await transport.close()
        except Exception:
            pass
        server.close()
        if tmp:
            shutil.rmtree(tmp, ignore_errors=True)


# =============================================================================
# Several links at once on one device, handle re-use across all link kinds (kind 'multi')
# =============================================================================
PING_CID = 0x0070
ACL_KINDS = ('le', 'bredr')


class Lk:
    """The harness's own record of one link it asked for. What SHOULD exist is decided from these records (which links
    were made, which were torn down, on which ACL a CIS / SCO link rides) and from the HCI events in the ledger, never
    from bumble's tables."""

    def __init__(self, kind, a, b, parent=None):
        self.kind, self.a, self.b, self.parent = kind, a, b, parent
        self.obj = {}                 # device index -> Connection / ScoLink / CisLink
        self.up = {a: True, b: True}  # device index -> the link exists as far as that device's controller knows
        self.disc = {a: 0, b: 0}      # device index -> 'disconnection' events seen on the object
        self.children = []
        if parent is not None:
            parent.children.append(self)

    def ends(self):
        return (self.a, self.b)

    def peer(self, dev):
        return self.b if dev == self.a else self.a

    def __repr__(self):
        return f'{self.kind}({self.a}->{self.b})'


class OpFailed(Exception):
    pass


class World:
    """n devices on one link; a history of link set-ups and tear-downs with an independent model next to it."""

    def __init__(self, r, seed, n=3, ext_adv=(), max_delay=0, prefix='multi'):
        self.r, self.seed, self.n, self.ext_adv, self.max_delay, self.prefix = r, seed, n, tuple(ext_adv), max_delay, prefix
        self.links = []
        self.lost = set()
        self.side = []
        self.reported_collisions = [0] * n
        self.ping_no = 0
        self.cig_no = [0] * n
        self.nbad = 0

    async def start(self):
        from bumble import hci
        from vlib import rig as vrig
        from vlib.ref_hci_links import HandleLedger
        vrig.seed_entropy(self.seed)
        self.rg = rg = vrig.Rig(self.n, seed=self.seed, max_delay=self.max_delay, classic=True)
        for i in self.ext_adv:
            rg.controllers[i].le_features = rg.controllers[i].le_features | hci.LeFeatureMask.LE_EXTENDED_ADVERTISING
        self.ledgers = [HandleLedger() for _ in range(self.n)]
        rg.on_hci_logged.append(lambda rec: self.ledgers[rec[1]].feed(rec[3]) if rec[2] == 'c2h' else None)
        self.conn_events = [[] for _ in range(self.n)]
        self.received = [[] for _ in range(self.n)]
        self.sco_seen = [[] for _ in range(self.n)]
        self.cis_seen = [[] for _ in range(self.n)]
        for i, d in enumerate(rg.devices):
            # (the addresses as they are when the event is emitted: the object may be updated afterwards)
            d.on('connection', lambda c, _i=i: self.conn_events[_i].append((c, c.self_address, c.peer_address)))
            d.l2cap_channel_manager.register_fixed_channel(
                PING_CID, lambda h, pdu, _i=i: self.received[_i].append((h, bytes(pdu))))
            d.on('sco_connection', lambda link, _i=i: self.sco_seen[_i].append(link))

            def on_sco_request(connection, link_type, _d=d):
                self.side.append(asyncio.ensure_future(connection.cancel_on_disconnection(_d.send_command(
                    hci.HCI_Enhanced_Accept_Synchronous_Connection_Request_Command(bd_addr=connection.peer_address,
                                                                                   **sco_parameters())))))
            d.on('sco_request', on_sco_request)

            def on_cis_request(link, _d=d, _i=i):
                self.cis_seen[_i].append(link)
                self.side.append(asyncio.ensure_future(link.acl_connection.cancel_on_disconnection(_d.accept_cis_request(link))))
            d.on('cis_request', on_cis_request)
        await rg.power_on()
        return self

    # -- what the harness expects -------------------------------------------------------------------------------------
    def bad(self, key, detail):
        if any(key.startswith(self.k(x)) for x in ('tables', 'link-count', 'handle-collision', 'object-replaced')):
            self.nbad += 1
        self.r.bad(key, detail)

    def k(self, *parts):
        return '/'.join((self.prefix,) + tuple(str(p) for p in parts))

    def watch(self, lk, dev, obj):
        lk.obj[dev] = obj
        obj.on('disconnection', lambda *a, _lk=lk, _dev=dev: _lk.disc.__setitem__(_dev, _lk.disc[_dev] + 1))

    def expect_addresses(self, lk):
        """Who is connected to whom is known from what the harness asked for: the central of an LE link connects from its
        random address to the address the peripheral advertises with (random, unless lk.adv_public); a BR/EDR link joins
        the two public addresses."""
        from bumble import hci
        rg = self.rg
        rnd = lambda i: (hci.Address(rg.random_addresses[i], hci.Address.RANDOM_DEVICE_ADDRESS))   # noqa: E731
        pub = lambda i: (hci.Address(rg.addresses[i], hci.Address.PUBLIC_DEVICE_ADDRESS))          # noqa: E731
        if lk.kind == 'le':
            padv = getattr(lk, 'adv_address', None) or rnd(lk.b)
            return {lk.a: (rnd(lk.a), padv, 'CENTRAL'), lk.b: (padv, rnd(lk.a), 'PERIPHERAL')}
        return {lk.a: (pub(lk.a), pub(lk.b), 'CENTRAL'), lk.b: (pub(lk.b), pub(lk.a), 'PERIPHERAL')}

    def check_reported(self, lk, before, tag):
        """The new connection is reported by exactly one 'connection' event per device, carrying the right addresses."""
        r = self.r
        want = self.expect_addresses(lk)
        for dev in lk.ends():
            new = self.conn_events[dev][before[dev]:]
            r.ev('connection_reports_checked')
            r.ev('oracle_evals')
            if len(new) != 1:
                self.bad(self.k('connection-reported', 'never' if not new else 'repeated', lk.kind, tag),
                         f'dev{dev}: the new {lk.kind} connection was reported by {len(new)} connection events '
                         f'{[(c.handle, str(sa), str(pa)) for c, sa, pa in new]}')
            if not new:
                continue
            c, self_address, peer_address = new[0]
            own, peer, role = want[dev]
            r.ev('oracle_evals')
            if (peer_address != peer or peer_address.address_type != peer.address_type
                    or self_address != own or self_address.address_type != own.address_type):
                which = 'own' if (self_address != own or self_address.address_type != own.address_type) else 'peer'
                self.bad(self.k('connection-reported', f'wrong-{which}-address', lk.kind, tag),
                         f'dev{dev}: connection event with self_address={self_address} peer_address={peer_address}, the '
                         f'link joins own={own} and peer={peer}')
            if c.role.name != role and lk.kind == 'le':
                self.bad(self.k('connection-reported', 'wrong-role', lk.kind, tag), f'dev{dev}: role {c.role.name}, expected {role}')

    # -- operations ---------------------------------------------------------------------------------------------------
    async def call(self, what, aw):
        """An API call of the history itself: it must end (Hang = violation), an exception aborts the history."""
        try:
            return await vloop.vwait(aw)
        except vloop.Hang:
            self.bad(self.k('waiter', 'hang', what), f'{what} still pending after {vloop.T_V} virtual s '
                                                       f'(links {self.links})')
            raise OpFailed(what)
        except Exception as e:
            self.bad(self.k('op-raised', what), f'{what}: {type(e).__name__}: {e} (links {self.links})')
            raise OpFailed(what)

    async def connect(self, kind, a, b, tag=None):
        lk = Lk(kind, a, b)
        before = [len(x) for x in self.conn_events]
        if kind == 'le':
            ca, cb = await self.call('connect-le', self.rg.connect_le(a, b))
        else:
            ca, cb = await self.call('connect-bredr', self.rg.connect_classic(a, b))
        self.watch(lk, a, ca)
        self.watch(lk, b, cb)
        self.links.append(lk)
        self.r.ev('multi_links_made')
        self.r.ev(f'multi_links_made_{kind}')
        await self.rg.quiesce()
        self.check_reported(lk, before, tag or f'connect-{kind}')
        return lk

    async def add_sco(self, acl):
        from bumble import hci
        a, b = acl.a, acl.b
        n0 = [len(x) for x in self.sco_seen]
        await self.call('sco-setup', self.rg.devices[a].send_command(hci.HCI_Enhanced_Setup_Synchronous_Connection_Command(
            connection_handle=acl.obj[a].handle, **sco_parameters())))
        await self.rg.quiesce()
        lk = Lk('sco', a, b, parent=acl)
        for dev in (a, b):
            new = self.sco_seen[dev][n0[dev]:]
            if len(new) != 1:
                self.bad(self.k('sco-reported', 'never' if not new else 'repeated'),
                           f'dev{dev}: {len(new)} sco_connection events for one eSCO set-up')
                raise OpFailed('sco-setup')
            self.watch(lk, dev, new[0])
        self.links.append(lk)
        self.r.ev('multi_links_made')
        self.r.ev('multi_links_made_sco')
        return lk

    async def add_cis(self, acl):
        from bumble.device import CigParameters
        a, b = acl.a, acl.b
        d = self.rg.devices[a]
        self.cig_no[a] += 1
        n0 = len(self.cis_seen[b])
        cig = CigParameters(cig_id=self.cig_no[a], cis_parameters=[CigParameters.CisParameters(cis_id=self.cig_no[a])],
                            sdu_interval_c_to_p=10000, sdu_interval_p_to_c=10000)
        handles = await self.call('cig-setup', d.setup_cig(cig))
        got = await self.call('cis-create', d.create_cis([(h, acl.obj[a]) for h in handles]))
        await self.rg.quiesce()
        lk = Lk('cis', a, b, parent=acl)
        new = self.cis_seen[b][n0:]
        if len(got) != 1 or len(new) != 1:
            self.bad(self.k('cis-reported', 'never' if not new else 'repeated'),
                       f'{len(got)} links from create_cis, {len(new)} cis_request events on the peripheral')
            raise OpFailed('cis-create')
        self.watch(lk, a, got[0])
        self.watch(lk, b, new[0])
        self.links.append(lk)
        self.r.ev('multi_links_made')
        self.r.ev('multi_links_made_cis')
        return lk

    def mark_down(self, lk, devs=None):
        for dev in (devs if devs is not None else lk.ends()):
            lk.up[dev] = False
        for ch in lk.children:
            self.mark_down(ch, devs)

    async def disconnect(self, lk, by):
        """by: a device index, or 'both' (the two ends ask at the same moment)."""
        sides = lk.ends() if by == 'both' else (by,)
        going = [x for x in [lk] + lk.children if any(x.up.values())]     # (a child torn down earlier: its handle may be in use again)
        handles = {dev: {x.obj[dev].handle for x in going if dev in x.obj} for dev in lk.ends()}
        conns = {dev: [x.obj[dev] for x in going if dev in x.obj and x.kind in ACL_KINDS] for dev in lk.ends()}
        tasks = [asyncio.ensure_future(lk.obj[dev].disconnect()) for dev in sides]
        for dev, t in zip(sides, tasks):
            self.r.ev('multi_disconnect_waiters')
            self.r.ev('oracle_evals')
            try:
                await vloop.vwait(asyncio.shield(t))
            except vloop.Hang:
                if not t.done():
                    t.cancel()
                    self.bad(self.k('waiter', 'hang', f'{lk.kind}-disconnect', 'both' if by == 'both' else 'one-side'),
                               f'dev{dev}: disconnect() of {lk} still pending after {vloop.T_V} virtual s; links {self.links}')
                    self.mark_down(lk)
                    raise OpFailed('disconnect')
            except Exception as e:
                if by != 'both':
                    self.bad(self.k('op-raised', f'{lk.kind}-disconnect'), f'dev{dev}: disconnect() of {lk}: '
                                                                             f'{type(e).__name__}: {e}')
                    self.mark_down(lk)
                    raise OpFailed('disconnect')
        self.mark_down(lk)
        return handles, conns

    def lose_transport(self, dev):
        self.lost.add(dev)
        self.rg.cut_transport(dev)
        try:
            self.rg.hosts[dev].on_transport_lost()
        except Exception as e:
            self.bad(self.k('exception-in-on_transport_lost'), f'dev{dev}: {type(e).__name__}: {e}')
        for lk in self.links:
            if dev in lk.ends():
                lk.up[dev] = False     # (the far end's controller still holds the link: nothing told it otherwise)

    # -- the oracle ---------------------------------------------------------------------------------------------------
    def views(self, dev):
        from bumble.core import PhysicalTransport
        host, device, ctl = self.rg.hosts[dev], self.rg.devices[dev], self.rg.controllers[dev]
        le, br = PhysicalTransport.LE, PhysicalTransport.BR_EDR
        hostv = {'le': {h for h, c in host.connections.items() if c.transport == le},
                 'bredr': {h for h, c in host.connections.items() if c.transport == br},
                 'sco': set(host.sco_links), 'cis': set(host.cis_links)}
        devv = {'le': {h for h, c in device.connections.items() if c.transport == le},
                'bredr': {h for h, c in device.connections.items() if c.transport == br},
                'sco': set(device.sco_links),
                'cis': {h for h, l in device.cis_links.items() if l.state.name == 'ESTABLISHED'}}
        ctlv = {'le': {c.handle for c in ctl.le_connections.values()},
                'bredr': {c.handle for c in ctl.classic_connections.values()},
                'sco': {l.handle for l in ctl.sco_links.values() if l.handle},
                'cis': {l.handle for l in list(ctl.central_cis_links.values()) + list(ctl.peripheral_cis_links.values())
                        if l.established}}
        return hostv, devv, ctlv

    async def settle(self, tag, dead=None):
        """Quiescence, then every judgement that does not need traffic. `dead`: (handles, connection objects) per device
        of the links that the last operation tore down (leftover inspection)."""
        r, rg = self.r, self.rg
        try:
            await rg.quiesce()
        except vloop.Hang:
            self.bad(self.k('no-quiescence', tag), 'messages keep flowing')
            raise OpFailed('quiesce')
        r.ev('multi_settles')
        found = self.nbad
        for dev in range(self.n):
            here = [lk for lk in self.links if dev in lk.ends()]
            if dev in self.lost:
                host, device = rg.hosts[dev], rg.devices[dev]
                left = {'host.connections': sorted(host.connections), 'device.connections': sorted(device.connections)}
                for kind in ('cis', 'sco', 'bis'):
                    left[f'host.{kind}_links'] = sorted(getattr(host, f'{kind}_links'))
                    left[f'device.{kind}_links'] = sorted(getattr(device, f'{kind}_links'))
                r.ev('oracle_evals')
                r.ev('multi_table_checks')
                for name, v in left.items():
                    if v:
                        self.bad(self.k('tables', 'after-transport-loss', name), f'dev{dev}: {name}={v} after its transport was lost; '
                                                                              f'links {self.links}')
            else:
                led = self.ledgers[dev]
                ledv = led.live_by_kind()
                hostv, devv, ctlv = self.views(dev)
                for kind in ('le', 'bredr', 'sco', 'cis'):
                    r.ev('oracle_evals', 2)
                    r.ev('multi_table_checks')
                    model = sum(1 for lk in here if lk.kind == kind and lk.up[dev])
                    if not (ledv[kind] == hostv[kind] == devv[kind] == ctlv[kind]):
                        self.bad(self.k('tables-disagree', kind, tag),
                              f'dev{dev}: {kind} handles announced over HCI {sorted(ledv[kind])}, host {sorted(hostv[kind])}, '
                              f'device {sorted(devv[kind])}, controller {sorted(ctlv[kind])}; links {self.links}')
                    elif len(ledv[kind]) != model:
                        self.bad(self.k('link-count', kind, 'missing' if len(ledv[kind]) < model else 'extra', tag),
                              f'dev{dev}: {model} {kind} links should be up (links {[(l, l.up) for l in here]}), tables have '
                              f'{sorted(ledv[kind])}')
                # one handle names one link, whatever its kind
                r.ev('oracle_evals', 2)
                r.ev('handle_distinctness_checks')
                for new, handle, old in led.collisions[self.reported_collisions[dev]:]:
                    self.bad(self.k('handle-collision', f'{new}-given-handle-of-live-{old}'),
                          f'dev{dev}: the controller announced a {new} link with handle {handle:#x} while that handle still named a '
                          f'{old} link (history {led.history[-8:]})')
                self.reported_collisions[dev] = len(led.collisions)
                table = {'le': rg.devices[dev].connections, 'bredr': rg.devices[dev].connections,
                         'sco': rg.devices[dev].sco_links, 'cis': rg.devices[dev].cis_links}
                live_handles = [lk.obj[dev].handle for lk in here if lk.up[dev] and dev in lk.obj]
                if len(set(live_handles)) != len(live_handles):
                    self.bad(self.k('handle-collision', 'two-live-link-objects-one-handle'),
                          f'dev{dev}: live link objects {[(l, l.obj[dev].handle) for l in here if l.up[dev]]}')
                for lk in here:
                    if dev not in lk.obj:
                        continue
                    r.ev('oracle_evals', 2)
                    r.ev('multi_link_object_checks')
                    obj = lk.obj[dev]
                    if lk.up[dev]:
                        if table[lk.kind].get(obj.handle) is not obj:
                            self.bad(self.k('object-replaced', lk.kind, tag),
                                  f'dev{dev}: {lk} is up, device table entry for its handle {obj.handle:#x} is '
                                  f'{table[lk.kind].get(obj.handle)!r}, not the object the link was reported with')
                        if lk.disc[dev]:
                            self.bad(self.k('disconnection-event', 'on-live-link', lk.kind, tag),
                                  f'dev{dev}: {lk} (handle {obj.handle:#x}) is up and got {lk.disc[dev]} disconnection events; '
                                  f'links {[(l, l.up) for l in self.links]}')
                    elif lk.disc[dev] != 1:
                        self.bad(self.k('disconnection-event', 'none' if not lk.disc[dev] else 'repeated', lk.kind, tag),
                              f'dev{dev}: {lk} (handle {obj.handle:#x}) is gone and got {lk.disc[dev]} disconnection events; '
                              f'links {[(l, l.up) for l in self.links]}')
            if dead is not None and dev in dead[0]:
                r.ev('multi_leftover_checks')
                r.ev('oracle_evals')
                for sub, what in dead_handle_leftovers(rg, dev, dead[0][dev], dead[1][dev]):
                    self.bad(self.k('leftover', sub, tag), f'dev{dev}: {what}; links {self.links}')
        for t in self.side:
            if t.done() and not t.cancelled():
                t.exception()
        for where, e in rg.exceptions[getattr(self, '_exc_seen', 0):]:
            r.ev('exceptions_in_stack_multi')
            r.add_extra_list('exceptions_multi', f'{tag}: {where}: {e}'[:160])
        self._exc_seen = len(rg.exceptions)
        if self.nbad != found:
            # what follows wrong tables / handles would only be their consequences: the history ends here
            raise OpFailed('judged')

    async def ping_all(self, tag):
        """Data still flows, both ways, on every ACL link whose two ends are with us, and reaches the right device on the
        handle of that very link."""
        r, rg = self.r, self.rg
        for lk in self.links:
            if lk.kind not in ACL_KINDS or not all(lk.up[d] for d in lk.ends()) or any(d in self.lost for d in lk.ends()):
                continue
            for src in lk.ends():
                dst = lk.peer(src)
                self.ping_no += 1
                payload = b'ping' + self.ping_no.to_bytes(4, 'big') + bytes([src, dst])
                marks = [len(x) for x in self.received]
                try:
                    rg.devices[src].send_l2cap_pdu(lk.obj[src].handle, PING_CID, payload)
                except Exception as e:
                    self.bad(self.k('data', 'send-raised', lk.kind, tag), f'dev{src}: {type(e).__name__}: {e}')
                    continue
                await rg.quiesce()
                r.ev('multi_pings')
                r.ev('oracle_evals')
                got = {d: [x for x in self.received[d][marks[d]:] if x[1] == payload] for d in range(self.n)}
                if got[dst] != [(lk.obj[dst].handle, payload)]:
                    self.bad(self.k('data', 'lost' if not got[dst] else 'wrong-handle-or-repeated', lk.kind, tag),
                          f'a PDU sent by dev{src} on {lk} (handle {lk.obj[src].handle:#x}) reached dev{dst} as {got[dst]} '
                          f'(its end of the link has handle {lk.obj[dst].handle:#x}); links {[(l, l.up) for l in self.links]}')
                stray = {d: v for d, v in got.items() if d != dst and v}
                if stray:
                    self.bad(self.k('data', 'misrouted', lk.kind, tag), f'a PDU sent by dev{src} on {lk} also reached {stray}')

    def finish(self):
        for t in self.side:
            if not t.done():
                t.cancel()
        for led in getattr(self, 'ledgers', []):
            self.r.ev('handles_opened', led.opens)
            self.r.ev('handles_closed', led.closes)
            self.r.ev('handles_reused', len(led.reuses))
            self.r.ev('handles_reused_by_another_link_kind', sum(1 for new, old in led.reuses if new != old))


MULTI_TOPOLOGIES = {
    # name: steps; ('le'|'bredr', a, b) makes an ACL, ('sco'|'cis', index of the ACL it rides on)
    'le+le': [('le', 0, 1), ('le', 0, 2)],
    'le+le-incoming': [('le', 0, 1), ('le', 2, 0)],
    'bredr+bredr': [('bredr', 0, 1), ('bredr', 0, 2)],
    'bredr+bredr-incoming': [('bredr', 0, 1), ('bredr', 2, 0)],
    'bredr+le-same-peer': [('bredr', 0, 1), ('le', 0, 1)],
    'bredr+sco+le-same-peer': [('bredr', 0, 1), ('sco', 0), ('le', 0, 1)],
    'bredr+sco+le': [('bredr', 0, 1), ('sco', 0), ('le', 0, 2)],
    'bredr+sco+le-incoming': [('bredr', 0, 1), ('sco', 0), ('le', 2, 0)],
    'bredr+sco+bredr': [('bredr', 0, 1), ('sco', 0), ('bredr', 0, 2)],
    'bredr+sco+bredr-incoming': [('bredr', 1, 0), ('sco', 0), ('bredr', 2, 0)],
    'le+cis+le': [('le', 0, 1), ('cis', 0), ('le', 0, 2)],
    'le+cis+le-incoming': [('le', 0, 1), ('cis', 0), ('le', 2, 0)],
    'le+cis+bredr-same-peer': [('le', 0, 1), ('cis', 0), ('bredr', 0, 1)],
    'le+cis+bredr': [('le', 0, 1), ('cis', 0), ('bredr', 2, 0)],
    'bredr+sco+le+cis': [('bredr', 0, 1), ('sco', 0), ('le', 0, 2), ('cis', 2)],
    'le+cis+bredr+sco': [('le', 0, 1), ('cis', 0), ('bredr', 0, 2), ('sco', 2)],
    # CIG / CIS identifiers are chosen by each central on its own (here every central numbers its CIGs from 1): two
    # centrals with the same identifiers on one peripheral; a device that is central of its own CIG and peripheral in another
    'le+cis+le+cis-two-centrals': [('le', 0, 1), ('cis', 0), ('le', 2, 1), ('cis', 2)],
    'le+cis+le+cis-both-roles': [('le', 0, 1), ('cis', 0), ('le', 1, 2), ('cis', 2)],
}
MULTI_ENDINGS = ['by-0', 'by-peer', 'both', 'lost-0', 'lost-peer']


async def multi_step(w, step):
    if step[0] in ACL_KINDS:
        return await w.connect(step[0], step[1], step[2])
    acl = w.links[step[1]]
    return await (w.add_sco(acl) if step[0] == 'sco' else w.add_cis(acl))


async def multi_history(case, r, topo, victim, ending, seed):
    """Build the topology, tear down ONE link (the victim) in the given way, judge; make the same link again (the
    controller hands the lowest free handle out again), judge; then tear everything down link by link."""
    rng = random.Random(seed)
    w = await World(r, seed, n=3, max_delay=rng.choice([0, 0, 1, 2])).start()
    steps = MULTI_TOPOLOGIES[topo]
    try:
        for st in steps:
            lk = await multi_step(w, st)
            await w.settle(f'{lk.kind}-set-up')
        await w.ping_all('set-up')
        v = w.links[victim]
        tag = f'{v.kind}-{"transport-loss" if ending.startswith("lost") else "disconnect"}'
        other = v.peer(0) if 0 in v.ends() else v.b
        r.ev('multi_victim_teardowns')
        r.ev(f'multi_victims_{v.kind}')
        if ending.startswith('lost'):
            w.lose_transport(0 if ending == 'lost-0' else other)
            await w.settle(tag)
            await w.ping_all(tag)
        else:
            by = {'by-0': 0 if 0 in v.ends() else v.a, 'by-peer': other, 'both': 'both'}[ending]
            dead = await w.disconnect(v, by)
            await w.settle(tag, dead)
            await w.ping_all(tag)
            # the same link again: its handle is free again
            r.ev('multi_remakes')
            if v.kind in ACL_KINDS:
                again = await w.connect(v.kind, v.a, v.b, tag=f're-connect-{v.kind}')
            else:
                again = await (w.add_sco(v.parent) if v.kind == 'sco' else w.add_cis(v.parent))
            if set(again.obj[d].handle for d in again.ends()) & set(v.obj[d].handle for d in v.ends()):
                r.ev('multi_handle_reused')
            await w.settle(f're-made-{v.kind}')
            await w.ping_all(f're-made-{v.kind}')
        # everything goes, one link at a time, from a side that still has its transport
        order = [lk for lk in w.links if any(lk.up.values())]
        rng.shuffle(order)
        for lk in order:
            sides = [d for d in lk.ends() if lk.up[d] and d not in w.lost]
            if not sides:
                continue
            dead = await w.disconnect(lk, rng.choice(sides))
            await w.settle(f'{lk.kind}-disconnect', dead)
            await w.ping_all(f'{lk.kind}-disconnect')
        r.sig('multi', topo, victim, ending)
    except OpFailed:
        r.ev('multi_histories_cut_short')
    finally:
        w.finish()
    r.ev('multi_histories')
    r.evals()
    r.sched.add(w.rg.schedule_signature)


async def multi_random(case, r, seed):
    """A seeded walk over three devices: set up an ACL (LE or BR/EDR, either direction), put a SCO / CIS link on one,
    tear one link down (either side, or both at once), lose a transport; judged after every step."""
    rng = random.Random(seed)
    w = await World(r, seed, n=3, max_delay=rng.choice([0, 1, 2])).start()
    trail = []
    try:
        for _ in range(rng.randint(8, 14)):
            alive = [d for d in range(3) if d not in w.lost]
            if len(alive) < 2:
                break
            ups = [lk for lk in w.links if any(lk.up[d] and d not in w.lost for d in lk.ends())]
            choices = ['connect'] * 3 + (['sync'] * 2 + ['disconnect'] * 3 if ups else []) + (['lose'] if rng.random() < 0.15 else [])
            what = rng.choice(choices)
            if what == 'connect':
                kind = rng.choice(ACL_KINDS)
                a, b = rng.sample(alive, 2)
                if any(lk.kind == kind and set(lk.ends()) == {a, b} and any(lk.up.values()) for lk in w.links):
                    continue
                trail.append((kind, a, b))
                lk = await w.connect(kind, a, b)
                await w.settle(f'{kind}-set-up')
            elif what == 'sync':
                acls = [lk for lk in ups if lk.kind in ACL_KINDS and all(lk.up.values()) and not (set(lk.ends()) & w.lost)
                        and not any(ch.up[ch.a] or ch.up[ch.b] for ch in lk.children)]
                if not acls:
                    continue
                acl = rng.choice(acls)
                trail.append(('sync', acl))
                lk = await (w.add_sco(acl) if acl.kind == 'bredr' else w.add_cis(acl))
                await w.settle(f'{lk.kind}-set-up')
            elif what == 'disconnect':
                lk = rng.choice(ups)
                sides = [d for d in lk.ends() if lk.up[d] and d not in w.lost]
                by = 'both' if len(sides) == 2 and rng.random() < 0.2 else rng.choice(sides)
                trail.append(('disconnect', lk, by))
                dead = await w.disconnect(lk, by)
                await w.settle(f'{lk.kind}-disconnect', dead)
            else:
                dev = rng.choice(alive)
                trail.append(('lose', dev))
                w.lose_transport(dev)
                await w.settle('transport-loss')
            await w.ping_all(what)
        r.sig('multi-random', seed)
    except OpFailed:
        r.ev('multi_histories_cut_short')
    finally:
        w.finish()
    r.ev('multi_histories')
    r.ev('multi_random_histories')
    r.evals()
    r.sample = {'kind': 'multi-random', 'trail': [str(t) for t in trail][:14]}
    r.sched.add(w.rg.schedule_signature)


def run_history(r, coro, key):
    """One history on its own virtual-time loop; a loop that runs dry while the history still waits is a hang."""
    try:
        vloop.run(coro)
    except vloop.Hang as e:
        r.bad(key, f'{e}')


def multi_case(case, r):
    topo = case['topology']
    nlinks = len(MULTI_TOPOLOGIES[topo])
    k = 0
    for victim in range(nlinks):
        for ending in MULTI_ENDINGS:
            k += 1
            if case.get('pick') and (k + case['pick'][0]) % case['pick'][1]:
                continue
            run_history(r, multi_history(case, r, topo, victim, ending, case['seed'] * 131 + k), 'multi/waiter/hang/history')
    r.sample = {'kind': 'multi', 'topology': topo, 'steps': [list(s) for s in MULTI_TOPOLOGIES[topo]], 'endings': MULTI_ENDINGS}


# =============================================================================
# Event orders and failure reports a controller may legally choose, which bumble's own virtual controller never
# produces (kind 'order'): the rig's taps reorder / replace / inject controller-to-host packets
# =============================================================================
def hci_event(code, params):
    return bytes([0x04, code, len(params)]) + bytes(params)


def ev_command_status(opcode, status=0x00):
    return hci_event(0x0F, bytes([status, 1]) + opcode.to_bytes(2, 'little'))


def ev_disconnection_complete(status, handle, reason):
    return hci_event(0x05, bytes([status]) + handle.to_bytes(2, 'little') + bytes([reason]))


def ev_connection_complete(status, handle, bd_addr, link_type=0x01):
    return hci_event(0x03, bytes([status]) + handle.to_bytes(2, 'little') + bytes(bd_addr) + bytes([link_type, 0]))


def ev_connection_request(bd_addr, link_type=0x01):
    return hci_event(0x04, bytes(bd_addr) + bytes([0x0C, 0x02, 0x5A]) + bytes([link_type]))


def ev_le_connection_complete_failed(status, enhanced):
    # Vol 4 Part E 7.7.65.1 / 7.7.65.10: with a non-zero status every other parameter is zero
    if enhanced:
        return hci_event(0x3E, bytes([0x0A, status]) + bytes(29))
    return hci_event(0x3E, bytes([0x01, status]) + bytes(17))


def ev_encryption_change(status, handle, enabled, v2=False):
    if v2:
        return hci_event(0x59, bytes([status]) + handle.to_bytes(2, 'little') + bytes([enabled, 16 if enabled else 0]))
    return hci_event(0x08, bytes([status]) + handle.to_bytes(2, 'little') + bytes([enabled]))


def ev_key_refresh_complete(status, handle):
    return hci_event(0x30, bytes([status]) + handle.to_bytes(2, 'little'))


def ev_authentication_complete(status, handle):
    return hci_event(0x06, bytes([status]) + handle.to_bytes(2, 'little'))


OP_DISCONNECT = 0x0406
OP_CREATE_CONNECTION = 0x0405
OP_ACCEPT_CONNECTION = 0x0409
OP_AUTHENTICATION_REQUESTED = 0x0411
OP_SET_CONNECTION_ENCRYPTION = 0x0413
OP_LE_CREATE_CONNECTION = 0x200D
OP_LE_EXTENDED_CREATE_CONNECTION = 0x2043
OP_LE_ENABLE_ENCRYPTION = 0x2019


class Answered:
    """Host-to-controller filter: the next command with one of these opcodes (and this connection handle, when given) never
    reaches the virtual controller; the harness answers it with the given controller-to-host packets: the Command Status
    at once, the rest `delay` virtual seconds later."""

    def __init__(self, w, dev, opcodes, answer, handle=None, delay=0.0):
        self.w, self.dev, self.opcodes, self.answer, self.handle, self.delay = w, dev, tuple(opcodes), answer, handle, delay
        self.seen = None
        w.rg.h2c[dev].filters.append(self)

    def __call__(self, pkt):
        if self.seen is not None or pkt[0] != 0x01:
            return pkt
        opcode = int.from_bytes(pkt[1:3], 'little')
        if opcode not in self.opcodes:
            return pkt
        if self.handle is not None and (int.from_bytes(pkt[4:6], 'little') & 0xFFF) != self.handle:
            return pkt
        self.seen = pkt
        pipe = self.w.rg.c2h[self.dev]
        pipe.on_packet(ev_command_status(opcode))
        rest = self.answer(opcode) if callable(self.answer) else self.answer

        def later():
            for p in rest:
                pipe.on_packet(p)
        if self.delay:
            self.w.rg.loop.call_later(self.delay, later)
        else:
            later()
        return None


class AdvOrder:
    """Controller-to-host filter of an advertiser: chooses where LE Advertising Set Terminated goes relative to the LE
    (Enhanced) Connection Complete of the connection that ended the advertising.
      normal                 Connection Complete, then Advertising Set Terminated (what the virtual controller does)
      terminated-first       Advertising Set Terminated, then Connection Complete
      terminated-after-data  Connection Complete, the first ACL data packet of the new connection, then Advertising Set Terminated"""

    def __init__(self, w, dev):
        self.w, self.dev, self.mode = w, dev, 'normal'
        self.held_cc = self.held_term = None
        self.swaps = 0
        w.rg.c2h[dev].filters.append(self)

    def emit(self, pkt):
        pipe = self.w.rg.c2h[self.dev]
        self.w.rg.log_hci(self.dev, 'c2h', pkt)
        pipe.fifo.push(pipe._deliver, pkt)

    def __call__(self, pkt):
        if pkt[0] == 0x04 and pkt[1] == 0x3E:
            sub = pkt[3]
            if sub in (0x01, 0x0A, 0x29) and pkt[4] == 0 and pkt[7] == 0x01 and self.mode == 'terminated-first':
                self.held_cc = pkt
                return None
            if sub == 0x12:
                if self.held_cc is not None:
                    held, self.held_cc = self.held_cc, None
                    self.swaps += 1
                    self.emit(pkt)
                    return held
                if self.mode == 'terminated-after-data' and pkt[4] == 0:
                    self.held_term = pkt
                    return None
        elif pkt[0] == 0x02 and self.held_term is not None:
            held, self.held_term = self.held_term, None
            self.swaps += 1
            self.emit(pkt)
            return held
        return pkt


ADV_MODES = ['normal', 'terminated-first', 'terminated-after-data']
ADV_SETS = ['set-random', 'set-public', 'legacy-api']


async def order_ext_adv(case, r, plan_, seed):
    """plan_: list of (advertising set kind, event order, who disconnects) - consecutive connections to ONE peripheral whose
    controller has LE Extended Advertising; the virtual controller hands the same connection handle out every time."""
    from bumble import hci
    from bumble.device import AdvertisingParameters
    w = await World(r, seed, n=2, ext_adv=(1,), max_delay=seed % 3, prefix='order/ext-adv').start()
    rg = w.rg
    d0, d1 = rg.devices
    adv = AdvOrder(w, 1)
    own_random = hci.Address('C4:C4:C4:C4:C4:C4', hci.Address.RANDOM_DEVICE_ADDRESS)
    try:
        if not d1.supports_le_extended_advertising:
            raise RuntimeError('the peripheral does not use extended advertising')
        previous = None
        for n, (set_kind, mode, by) in enumerate(plan_):
            lk = Lk('le', 0, 1)
            tag = f'{mode}' + ('/handle-used-before' if previous is not None else '')
            adv.mode = mode
            before = [len(x) for x in w.conn_events]
            known = set(id(c) for c in d1.connections.values())
            if set_kind == 'set-random':
                lk.adv_address = own_random
                aset = await w.call('create-advertising-set', d1.create_advertising_set(
                    advertising_parameters=AdvertisingParameters(own_address_type=hci.OwnAddressType.RANDOM),
                    random_address=own_random))
            elif set_kind == 'set-public':
                lk.adv_address = hci.Address(rg.addresses[1], hci.Address.PUBLIC_DEVICE_ADDRESS)
                aset = await w.call('create-advertising-set', d1.create_advertising_set(
                    advertising_parameters=AdvertisingParameters(own_address_type=hci.OwnAddressType.PUBLIC)))
            else:
                lk.adv_address = hci.Address(rg.random_addresses[1], hci.Address.RANDOM_DEVICE_ADDRESS)
                aset = None
                await w.call('start-advertising', d1.start_advertising(auto_restart=False))
            cc = await w.call('connect-le', d0.connect(lk.adv_address))
            await rg.quiesce()
            w.watch(lk, 0, cc)
            w.links.append(lk)
            if mode == 'terminated-after-data':
                # the first data of the new connection overtakes the Advertising Set Terminated event
                d0.send_l2cap_pdu(cc.handle, PING_CID, b'early')
                await rg.quiesce()
            r.ev('order_ext_adv_connections')
            r.ev(f'order_ext_adv_{mode}')
            if previous is not None and previous == cc.handle:
                r.ev('order_connections_on_a_handle_used_before')
            new = [c for c in d1.connections.values() if id(c) not in known]
            if len(new) == 1:
                w.watch(lk, 1, new[0])
            w.check_reported(lk, before, tag)
            if len(new) != 1:
                r.bad(w.k('tables', 'peripheral-connection-missing', tag), f'device.connections of the peripheral: {d1.connections}')
                raise OpFailed('connect')
            await w.settle(tag)
            await w.ping_all(tag)
            previous = new[0].handle
            dead = await w.disconnect(lk, by)
            await w.settle(f'disconnect-after-{mode}', dead)
            if aset is not None and (seed + n) % 2:
                await w.call('remove-advertising-set', aset.remove())
            elif aset is None:
                await w.call('stop-advertising', d1.stop_advertising())
        r.ev('order_adv_event_swaps', adv.swaps)
        r.sig('order', 'ext-adv', tuple(plan_))
    except OpFailed:
        r.ev('order_histories_cut_short')
    finally:
        w.finish()
    r.ev('order_histories')
    r.evals()
    r.sched.add(rg.schedule_signature)


async def order_refused_disconnect(case, r, kind, side, status, delay, seed):
    """The controller accepts HCI_Disconnect (Command Status: pending) and then reports with a Disconnection Complete whose
    status is not SUCCESS that the link is still there (Vol 4 Part E 7.7.5). The link must stay whole, the callers waiting
    for the disconnection (disconnect(), sustain()) must be released; a later, genuine disconnection works, and so does
    the next connection."""
    w = await World(r, seed, n=3, max_delay=seed % 3, prefix='order/refused-disconnect').start()
    rg = w.rg
    try:
        acl = await w.connect('le' if kind in ('le', 'cis') else 'bredr', 0, 1)
        v = acl if kind in ACL_KINDS else await (w.add_sco(acl) if kind == 'sco' else w.add_cis(acl))
        by = await w.connect('le' if kind in ('bredr', 'sco') else 'bredr', 0, 2)    # a bystander on the same device
        await w.settle('set-up')
        obj = v.obj[side]
        Answered(w, side, [OP_DISCONNECT], [ev_disconnection_complete(status, obj.handle, 0)], handle=obj.handle, delay=delay)
        waiters = [('disconnect', asyncio.ensure_future(obj.disconnect()))]
        if kind in ACL_KINDS:
            waiters.append(('sustain', asyncio.ensure_future(obj.sustain())))
        r.ev('order_refused_disconnections')
        for name, t in waiters:
            r.ev('order_waiters_judged')
            r.ev('oracle_evals')
            try:
                await vloop.vwait(asyncio.shield(t))
                r.ev('order_waiter_returned_normally_after_refusal')
            except vloop.Hang:
                if not t.done():
                    t.cancel()
                    r.bad(w.k('waiter', 'hang', name, kind), f'dev{side}: {name}() on the {kind} link still pending {vloop.T_V} virtual '
                                                             f's after Disconnection Complete(status={status:#x})')
            except Exception:
                r.ev('order_waiter_ended_with_error')
        tag = f'{kind}-refused'
        await w.settle(tag)
        await w.ping_all(tag)
        # now for good
        dead = await w.disconnect(v, side)
        await w.settle(f'{kind}-disconnect-after-refusal', dead)
        await w.ping_all(f'{kind}-disconnect-after-refusal')
        if kind in ACL_KINDS:
            await w.connect(kind, 0, 1, tag=f're-connect-{kind}')
        else:
            await (w.add_sco(acl) if kind == 'sco' else w.add_cis(acl))
        await w.settle(f're-made-{kind}')
        for lk in [x for x in w.links if x.kind in ACL_KINDS and any(x.up.values())]:
            dead = await w.disconnect(lk, lk.a)
            await w.settle(f'{lk.kind}-disconnect', dead)
        r.sig('order', 'refused-disconnect', kind, side, status, delay)
    except OpFailed:
        r.ev('order_histories_cut_short')
    finally:
        w.finish()
    r.ev('order_histories')
    r.evals()
    r.sched.add(rg.schedule_signature)


async def order_failed_connect(case, r, variant, status, delay, seed):
    """A connection that is reported as failed (Connection Complete / LE (Enhanced) Connection Complete with a non-zero
    status): connect() ends, nothing is left of the attempt, and the next connection between the same two devices is
    reported once, with the right addresses."""
    from bumble import hci
    from bumble.core import PhysicalTransport
    w = await World(r, seed, n=3, max_delay=seed % 3, prefix='order/failed-connect').start()
    rg = w.rg
    d0, d1 = rg.devices[0], rg.devices[1]
    pub = [bytes(hci.Address(a, hci.Address.PUBLIC_DEVICE_ADDRESS)) for a in rg.addresses]
    try:
        by = await w.connect('le' if variant.startswith('bredr') else 'bredr', 0, 2)     # a bystander
        await w.settle('set-up')
        before = [len(x) for x in w.conn_events]
        t = None
        if variant in ('le', 'le-enhanced'):
            Answered(w, 0, [OP_LE_CREATE_CONNECTION, OP_LE_EXTENDED_CREATE_CONNECTION],
                     [ev_le_connection_complete_failed(status, variant == 'le-enhanced')], delay=delay)
            t = asyncio.ensure_future(d0.connect(hci.Address(rg.random_addresses[1], hci.Address.RANDOM_DEVICE_ADDRESS)))
            kind = 'le'
        elif variant == 'bredr':
            Answered(w, 0, [OP_CREATE_CONNECTION], [ev_connection_complete(status, 0, pub[1])], delay=delay)
            t = asyncio.ensure_future(d0.connect(hci.Address(rg.addresses[1], hci.Address.PUBLIC_DEVICE_ADDRESS),
                                                 transport=PhysicalTransport.BR_EDR))
            kind = 'bredr'
        else:
            # incoming: the controller of device 1 reports a Connection Request of device 0, the host accepts it, and the
            # connection then fails (for instance: Connection Accept Timeout Exceeded)
            a = Answered(w, 1, [OP_ACCEPT_CONNECTION], [ev_connection_complete(status, 0, pub[0])], delay=delay)
            rg.c2h[1].on_packet(ev_connection_request(pub[0]))
            kind = 'bredr'
        r.ev('order_failed_connections')
        if t is not None:
            r.ev('order_waiters_judged')
            r.ev('oracle_evals')
            try:
                await vloop.vwait(asyncio.shield(t))
                r.bad(w.k('waiter', 'returned-a-connection', variant), f'connect() returned {t.result()} for a connection reported as '
                                                                       f'failed with status {status:#x}')
            except vloop.Hang:
                if not t.done():
                    t.cancel()
                    r.bad(w.k('waiter', 'hang', 'connect', variant), f'connect() still pending {vloop.T_V} virtual s after the '
                                                                     f'connection was reported as failed with status {status:#x}')
            except Exception:
                r.ev('order_waiter_ended_with_error')
        else:
            await asyncio.sleep(delay + 1.0)
            await rg.quiesce()
            if a.seen is None:
                raise RuntimeError('the host did not accept the incoming connection')
        tag = f'{variant}-failed'
        await w.settle(tag)
        r.ev('oracle_evals', 2)
        r.ev('order_leftover_checks')
        for dev in (0, 1):
            d = rg.devices[dev]
            if [len(x) for x in w.conn_events][dev] != before[dev]:
                r.bad(w.k('connection-reported', 'for-a-failed-connection', variant), f'dev{dev}: {w.conn_events[dev][before[dev]:]}')
            if d.pending_connections:
                r.bad(w.k('leftover', 'device.pending_connections', tag),
                      f'dev{dev}: {list(d.pending_connections.values())} after the connection failed')
            if getattr(d, 'le_connecting', False) or getattr(d, 'connect_own_address_type', None) is not None:
                r.bad(w.k('leftover', 'device.le_connecting', tag), f'dev{dev}: le_connecting={d.le_connecting} '
                                                                    f'connect_own_address_type={d.connect_own_address_type}')
        await w.ping_all(tag)
        lk = await w.connect(kind, 0, 1, tag=f'connect-after-{variant}-failed')
        await w.settle(f'connect-after-{variant}-failed')
        await w.ping_all(f'connect-after-{variant}-failed')
        for lk in [x for x in w.links if any(x.up.values())]:
            dead = await w.disconnect(lk, lk.b)
            await w.settle(f'{lk.kind}-disconnect', dead)
        r.sig('order', 'failed-connect', variant, status, delay)
    except OpFailed:
        r.ev('order_histories_cut_short')
    finally:
        w.finish()
    r.ev('order_histories')
    r.evals()
    r.sched.add(rg.schedule_signature)


async def order_failed_security(case, r, variant, status, delay, seed):
    """Encryption Change / Encryption Key Refresh Complete / Authentication Complete with a failure status while
    encrypt() / authenticate() waits. The events that answer the pending request must release the caller; in every case
    the link stays whole, and whoever still waits is released when the link goes."""
    from bumble.pairing import PairingConfig, PairingDelegate
    w = World(r, seed, n=3, max_delay=seed % 3, prefix='order/failed-security')
    await w.start()
    rg = w.rg
    try:
        le = variant.startswith('le')
        if le:
            for d in rg.devices:
                d.pairing_config_factory = lambda conn: PairingConfig(
                    sc=True, mitm=False, bonding=True, delegate=PairingDelegate(),
                    identity_address_type=PairingConfig.AddressType.RANDOM)
        v = await w.connect('le' if le else 'bredr', 0, 1)
        by = await w.connect('bredr' if le else 'le', 0, 2)
        c0 = v.obj[0]
        if le:
            await w.call('pair', c0.pair())
            await rg.quiesce()
        h = c0.handle
        must_end = True
        if variant == 'le-encryption-change':
            Answered(w, 0, [OP_LE_ENABLE_ENCRYPTION], [ev_encryption_change(status, h, 0)], handle=h, delay=delay)
            t = asyncio.ensure_future(c0.encrypt())
        elif variant == 'le-encryption-change-v2':
            Answered(w, 0, [OP_LE_ENABLE_ENCRYPTION], [ev_encryption_change(status, h, 0, v2=True)], handle=h, delay=delay)
            t = asyncio.ensure_future(c0.encrypt())
        elif variant == 'le-key-refresh':
            # (encrypt() does not listen for the key refresh events: it is only required to end with the link)
            Answered(w, 0, [OP_LE_ENABLE_ENCRYPTION], [ev_key_refresh_complete(status, h)], handle=h, delay=delay)
            t = asyncio.ensure_future(c0.encrypt())
            must_end = False
        elif variant == 'bredr-authentication':
            Answered(w, 0, [OP_AUTHENTICATION_REQUESTED], [ev_authentication_complete(status, h)], handle=h, delay=delay)
            t = asyncio.ensure_future(c0.authenticate())
        else:
            Answered(w, 0, [OP_SET_CONNECTION_ENCRYPTION], [ev_encryption_change(status, h, 0)], handle=h, delay=delay)
            t = asyncio.ensure_future(c0.encrypt())
        r.ev('order_failed_security_procedures')
        await asyncio.sleep(delay + 1.0)
        await rg.quiesce()
        ended_at_event = t.done()
        if must_end:
            r.ev('order_waiters_judged')
            r.ev('oracle_evals')
            try:
                await vloop.vwait(asyncio.shield(t))
                r.ev('order_waiter_returned_normally_after_refusal')
            except vloop.Hang:
                if not t.done():
                    r.bad(w.k('waiter', 'hang', variant), f'still pending {vloop.T_V} virtual s after the failure event '
                                                          f'(status {status:#x})')
            except Exception:
                r.ev('order_waiter_ended_with_error')
        tag = f'{variant}-failed'
        await w.settle(tag)
        await w.ping_all(tag)
        dead = await w.disconnect(v, 1 if seed % 2 else 0)
        await w.settle(f'disconnect-after-{variant}-failed', dead)
        r.ev('order_waiters_judged')
        r.ev('oracle_evals')
        if not t.done():
            try:
                await vloop.vwait(asyncio.shield(t))
            except vloop.Hang:
                if not t.done():
                    t.cancel()
                    r.bad(w.k('waiter', 'hang', variant, 'after-the-link-is-gone'), 'still pending after the disconnection')
            except BaseException as e:
                if not isinstance(e, (Exception, asyncio.CancelledError)):
                    raise
        r.ev('order_waiter_ended_at_the_event' if ended_at_event else 'order_waiter_ended_with_the_link')
        await w.ping_all(f'disconnect-after-{variant}-failed')
        dead = await w.disconnect(by, 0)
        await w.settle('bystander-disconnect', dead)
        r.sig('order', 'failed-security', variant, status, delay)
    except OpFailed:
        r.ev('order_histories_cut_short')
    finally:
        w.finish()
    r.ev('order_histories')
    r.evals()
    r.sched.add(rg.schedule_signature)


def order_plan(tier, seed):
    """The variants of each scenario, as JSON-able descriptors."""
    rng = random.Random(seed * 7919 + 17)
    out = []
    # consecutive connections of an extended advertiser: every pair of orders for the first two connections
    for m1 in ADV_MODES:
        for m2 in ADV_MODES:
            for rep in range(3 if tier == 'quick' else 8):
                sets = [rng.choice(ADV_SETS) for _ in range(3)]
                if rep == 0:
                    sets[0], sets[1] = 'set-random', 'set-public'
                out.append({'scenario': 'ext-adv', 'plan': [[sets[0], m1, rng.choice([0, 1])], [sets[1], m2, rng.choice([0, 1])],
                                                            [sets[2], rng.choice(ADV_MODES), rng.choice([0, 1, 'both'])]]})
    for kind in ('le', 'bredr', 'sco', 'cis'):
        for side in (0, 1):
            for status in ((0x0C,) if tier == 'quick' else (0x0C, 0x1F, 0x02)):
                out.append({'scenario': 'refused-disconnect', 'link': kind, 'side': side, 'status': status,
                            'delay': rng.choice([0.0, 2.0])})
    for variant, statuses in (('le', (0x3E, 0x02)), ('le-enhanced', (0x3E,)), ('bredr', (0x04, 0x0B)), ('bredr-incoming', (0x10,))):
        for status in statuses:
            for delay in ((rng.choice([0.0, 2.0]),) if tier == 'quick' else (0.0, 2.0)):
                out.append({'scenario': 'failed-connect', 'variant': variant, 'status': status, 'delay': delay})
    for variant, status in (('le-encryption-change', 0x06), ('le-encryption-change-v2', 0x06), ('le-key-refresh', 0x3D),
                            ('bredr-authentication', 0x05), ('bredr-encryption-change', 0x25)):
        for delay in ((rng.choice([0.0, 2.0]),) if tier == 'quick' else (0.0, 2.0)):
            out.append({'scenario': 'failed-security', 'variant': variant, 'status': status, 'delay': delay})
    return out


def order_run(case, r):
    sc = case['scenario']
    if sc == 'ext-adv':
        return order_ext_adv(case, r, [tuple(x) for x in case['plan']], case['seed'])
    if sc == 'refused-disconnect':
        return order_refused_disconnect(case, r, case['link'], case['side'], case['status'], case['delay'], case['seed'])
    if sc == 'failed-connect':
        return order_failed_connect(case, r, case['variant'], case['status'], case['delay'], case['seed'])
    return order_failed_security(case, r, case['variant'], case['status'], case['delay'], case['seed'])


def run_case(case, r: R):
    if case.get('kind') == 'stale':
        return stale_object(case, r)
    if case.get('kind') == 'real-transport':
        return asyncio.run(real_transport(case, r))
    if case.get('kind') == 'multi':
        return multi_case(case, r)
    if case.get('kind') == 'multi-random':
        for i in range(case['count']):
            run_history(r, multi_random(case, r, case['seed'] * 131 + i), 'multi/waiter/hang/history')
        return None
    if case.get('kind') == 'order':
        return run_history(r, order_run(case, r), f'order/{case["scenario"]}/waiter/hang/history')
    proc, cut = case['proc'], case['cut']
    try:
        n, _ = vloop.run(scenario(case, R({}), proc, cut, None))
    except vloop.Hang as e:
        r.bad(f'waiter/hang/dry-run/{proc}', f'{e}')
        return
    pts = list(range(1, n + 2))
    r.extra['exhaustive'] = len(pts) <= case['max_points']
    if len(pts) > case['max_points']:
        # keep the first messages (where procedures are most fragile) and spread the rest
        head = pts[:case['max_points'] // 2]
        rest = pts[case['max_points'] // 2:]
        rng = random.Random(case['seed'])
        pts = head + sorted(rng.sample(rest, case['max_points'] - len(head)))
    pts = pts[case.get('part', 0)::case.get('parts', 1)]
    pts = [(k, pos) for k in pts for pos in positions(proc, cut)]
    if proc in FINE_PROCS and case.get('part', 0) == 0:
        pts.insert(0, (0, 'log'))
    for k, pos in pts:
        try:
            vloop.run(scenario(case, r, proc, cut, k, pos))
        except vloop.Hang as e:
            r.bad(f'waiter/hang/harness/{proc}/{cut}', f'{e} at cut index {k}')
        r.evals()
    r.sample = {'procedure': proc, 'cut': cut, 'messages_in_dry_run': n, 'cut_points': pts}


LEVEL_TEXT = ('Fault enumeration: for 48 procedures (41 on the ACL connection - among them enhanced ATT bearers, queued '
              'indications, a cancelled channel disconnect, an AVDTP command, teardown of RFCOMM / SDP / AVDTP / HFP sessions, '
              'requests being served by the GATT server, pairing of every association model with a slow user -, 4 on CIS '
              'links and 3 on an eSCO link riding on it; after each cut also every task the stack spawned for the connection must '
              'be done) x 4 cut kinds the link is dropped or the HCI transport lost at every '
              'HCI-message index of the procedure (thorough; up to 150 indices per pair in quick, which is every index for all but the longest procedures), each on a '
              'fresh rig; afterwards the waiter must have ended within 300 virtual seconds, host/device/controller '
              'connection tables must agree and no per-connection state of the dead connection may remain in GATT '
              'server, SMP, L2CAP or the outbound queues (ACL, LE ACL, ISO); no CIS / SCO / BIS link may remain in the '
              'host, device or controller tables, and every established CisLink / ScoLink object must have got exactly one '
              'disconnection event. Several links at once: 18 topologies of 2-4 links (LE / BR/EDR ACLs, eSCO, CIS) on '
              'three devices x every link as the victim x 5 endings (either side, both, either transport lost), re-made on '
              'the freed handle and torn down link by link, plus seeded walks; after every step the handles announced over '
              'HCI (independent ledger), host, device and controller tables must be the same set per link kind and match '
              'the number of links the harness has up, live links keep their objects and get no disconnection event, data '
              'flows on every live ACL to the right end, no handle names two links. Controller behaviour bumble\'s own '
              'controller never shows is produced by rewriting / answering HCI packets in the rig: Advertising Set '
              'Terminated before / after / long after Connection Complete on re-used handles, refused disconnections of '
              'all four link kinds, failed outgoing / incoming connections, failed encryption / key refresh / '
              'authentication: waiters end, nothing is left, the next connection is reported once with the right addresses.')
LEVEL_NOTE = ('Trusted: rig taps, the leftover inspector in checks/c16.py (reads the per-connection tables by name), '
              'virtual-time loop, the HCI event layouts in vlib/ref_hci_links.py and in the injected events. Cuts land at '
              'HCI-message granularity, not at arbitrary instructions; multi-link histories are judged at quiescence between '
              'operations, not inside them.')
TECHNIQUE = 'runtime monitoring: fault injection at every message boundary + state-table invariants at quiescence'
