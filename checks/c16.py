"""C16 — teardown is complete: no stale connection state, no waiter left hanging.

For each procedure, a dry run counts the HCI messages it takes; then the procedure is
re-run once per (message index, cut kind) with the cut injected at that message:
  disc-initiator / disc-responder   Connection.disconnect() from that side
  lost-initiator / lost-responder   the HCI transport of that host is lost
                                    (pipes dropped + Host.on_transport_lost())
Oracles at quiescence afterwards
  waiter    the awaited API call of the interrupted procedure finished (result or error)
            within T_v virtual seconds
  tables    host / device / controller agree on live connections (transport loss: host and
            device of the cut side are both empty)
  leftover  no per-connection state for a dead connection in the GATT server, SMP manager,
            L2CAP channel manager, outbound data queues (ACL, LE ACL and ISO)
  links     procedures on links that ride on the ACL connection (1-2 CIS over an LE ACL: establishment,
            idle, ISO SDUs in flight with drain() waiters, CIS disconnect; an eSCO link over a BR/EDR ACL:
            establishment, idle, disconnect): after the cut host.cis_links / sco_links / bis_links and
            device.cis_links / sco_links / bis_links are empty on every judged side (every link of the
            scenario rode on the ACL that was closed or on the transport that was lost), after a
            disconnection the controller keeps no CIS / SCO link attached to the dead ACL, every CisLink /
            ScoLink object that had been established got exactly one 'disconnection' event, and
            create_cis / accept_cis_request / CisLink.disconnect / drain waiters are finished
"""
from __future__ import annotations

import asyncio
import random

from vlib import vloop
from vlib.result import R

ID = 'C16'
LEVEL = 'fault_enumeration'
RULE = ('one case per (procedure, cut kind); inside it every HCI-message index of the dry run (stride 1 thorough, '
        'coarser for long procedures in quick) gets its own fresh rig and run; a run is non-trivial when the cut '
        'landed before the procedure finished; distinct = (procedure, cut kind, index)')
ASSUMPTIONS = [
    'after a transport loss the controller (beyond the lost transport) and the remote side are not judged',
    'a waiter may end with a result, an exception or a cancellation; only "still pending at T_v" is a violation',
    'the peripheral accepts CIS requests with accept_cis_request guarded by cancel_on_disconnection of the ACL, the way '
    'tests/device_test.py does; the SCO acceptor answers with Enhanced Accept Synchronous Connection Request',
    'the virtual controller has no BIG support, so BIS links cannot be created; host.bis_links / device.bis_links are only '
    'checked to be empty',
    'a controller SCO entry with handle 0 is its placeholder for a request the host has not answered, not a link',
]
MIN_EVENTS = {
    'quick': {'cut_runs': 1800, 'cuts_before_completion': 1200, 'table_checks': 1800, 'leftover_checks': 1800,
              'link_table_checks': 100, 'links_tracked': 150, 'link_disconnection_event_checks': 120, 'side_waiters': 100,
              'real_transport_losses_observed': 6},
    'thorough': {'cut_runs': 3000, 'cuts_before_completion': 1200, 'table_checks': 3000, 'leftover_checks': 3000,
                 'link_table_checks': 100, 'links_tracked': 150, 'link_disconnection_event_checks': 120,
                 'side_waiters': 100, 'real_transport_losses_observed': 12},
}
CASE_TIMEOUT = 1800
EXHAUSTIVE_NOTE = 'thorough tier: every HCI message index of every listed procedure x 4 cut kinds'

PROCS = ['gatt-read', 'gatt-long-read', 'gatt-write', 'gatt-discover', 'gatt-subscribe', 'gatt-indicate',
         'pair-legacy', 'pair-sc', 'coc-connect', 'coc-disconnect', 'coc-drain', 'classic-connect',
         'classic-disconnect', 'rfcomm-open', 'sdp-query', 'hci-queued-command', 'encrypt']
# procedures on links that ride on an ACL connection: CIS (LE isochronous) and SCO/eSCO (BR/EDR synchronous)
ISO_PROCS = ['cis-establish', 'cis-idle', 'cis-iso-stream', 'cis-disconnect', 'sco-establish', 'sco-idle', 'sco-disconnect']
PROCS += ISO_PROCS
# the same procedure with the link made the other way round (the GATT server is the link central)
PROCS += ['gatt-subscribe-rev', 'gatt-indicate-rev', 'coc-drain-rev']
CUTS = ['disc-initiator', 'disc-responder', 'lost-initiator', 'lost-responder']


def plan(tier, seed):
    cases = []
    # thorough: every index; the index set of a (procedure, cut) pair is dealt over PARTS cases so that the longest
    # procedures (coc-drain: thousands of messages) stay inside the per-case watchdog and spread over the cores
    parts = 1 if tier == 'quick' else 6
    for p in PROCS:
        for c in CUTS:
            sd = seed * 1000003 + len(cases)
            for part in range(parts):
                cases.append({'kind': 'cut', 'proc': p, 'cut': c, 'seed': sd, 'part': part, 'parts': parts,
                              'max_points': 150 if tier == 'quick' else 10 ** 6})
    for tr_ in ('tcp-client', 'unix-client'):
        for how in ('eof', 'reset'):
            for warm in ((0, 2) if tier == 'quick' else (0, 1, 2, 5)):
                cases.append({'kind': 'real-transport', 'transport': tr_, 'how': how, 'warm': warm,
                              'seed': seed * 1000003 + 2000 + len(cases)})
    for tr in ('le', 'bredr'):
        for how in ('disc-initiator', 'disc-responder', 'lost'):
            for k in range(2):
                cases.append({'kind': 'stale', 'transport': tr, 'how': how, 'seed': seed * 1000003 + 900 + len(cases)})
    return cases


# -----------------------------------------------------------------------------
class LinkWatch:
    """Every CisLink / ScoLink object a device ever held, with the events it was sent."""

    def __init__(self, rg):
        self.rg = rg
        self.links = {}       # id(link) -> record

    def see(self, dev, kind, link):
        if id(link) in self.links:
            return
        rec = {'dev': dev, 'kind': kind, 'link': link, 'handle': link.handle, 'established': 0, 'failed': 0, 'disconnected': 0}
        self.links[id(link)] = rec
        if kind == 'cis':
            if link.state.name == 'ESTABLISHED':
                rec['established'] = 1
            link.on('establishment', lambda *a, _r=rec: _r.__setitem__('established', _r['established'] + 1))
            link.on('establishment_failure', lambda *a, _r=rec: _r.__setitem__('failed', _r['failed'] + 1))
        else:
            rec['established'] = 1
        link.on('disconnection', lambda *a, _r=rec: _r.__setitem__('disconnected', _r['disconnected'] + 1))

    def sweep(self):
        for dev, d in enumerate(self.rg.devices):
            for link in list(d.cis_links.values()):
                self.see(dev, 'cis', link)
            for link in list(d.sco_links.values()):
                self.see(dev, 'sco', link)

    def attach(self):
        for dev, d in enumerate(self.rg.devices):
            d.on('cis_request', lambda link, _dev=dev: self.see(_dev, 'cis', link))
            d.on('sco_connection', lambda link, _dev=dev: self.see(_dev, 'sco', link))
        self.rg.on_hci_logged.append(lambda rec: self.sweep())


def sco_parameters():
    # the parameters are workload, not oracle: bumble's own eSCO CVSD S1 table is good enough
    from bumble import hfp
    return hfp.ESCO_PARAMETERS[hfp.DefaultCodecParameters.ESCO_CVSD_S1].asdict()


async def build_iso(case, proc, ctx):
    """CIS procedures: LE ACL, the peripheral accepts every CIS request the way tests/device_test.py does
    (accept_cis_request guarded by cancel_on_disconnection of the ACL). SCO procedures: BR/EDR ACL, the acceptor
    answers every synchronous connection request."""
    from bumble import hci
    from bumble.device import CigParameters
    rg, c0, c1 = ctx['rg'], ctx['c0'], ctx['c1']
    d0, d1 = rg.devices
    watch = ctx['watch'] = LinkWatch(rg)
    watch.attach()
    side = ctx['side_waiters'] = []      # (name, device index, task)
    if proc.startswith('cis'):
        def on_cis_request(link):
            side.append(('accept_cis_request', 1, asyncio.ensure_future(
                link.acl_connection.cancel_on_disconnection(d1.accept_cis_request(link)))))
        d1.on('cis_request', on_cis_request)
        ncis = 1 + (case['seed'] + PROCS.index(proc)) % 2 if proc != 'cis-disconnect' else 2
        ctx['cig'] = CigParameters(cig_id=1, cis_parameters=[CigParameters.CisParameters(cis_id=2 + i) for i in range(ncis)],
                                   sdu_interval_c_to_p=10000, sdu_interval_p_to_c=10000)
        if proc != 'cis-establish':
            handles = await vloop.vwait(d0.setup_cig(ctx['cig']))
            ctx['cis'] = await vloop.vwait(d0.create_cis([(h, c0) for h in handles]))
            await rg.quiesce()
            if any(h not in rg.hosts[1].cis_links for h in [l.handle for l in d1.cis_links.values()]) or \
                    len(rg.hosts[1].cis_links) != ncis:
                raise RuntimeError('CIS set-up did not complete on the peripheral')
    else:
        def on_sco_request(connection, link_type):
            side.append(('accept_sco', 1, asyncio.ensure_future(connection.cancel_on_disconnection(d1.send_command(
                hci.HCI_Enhanced_Accept_Synchronous_Connection_Request_Command(bd_addr=connection.peer_address,
                                                                               **sco_parameters()))))))
        d1.on('sco_request', on_sco_request)
        if proc != 'sco-establish':
            await vloop.vwait(d0.send_command(hci.HCI_Enhanced_Setup_Synchronous_Connection_Command(
                connection_handle=c0.handle, **sco_parameters())))
            await rg.quiesce()
            if len(d0.sco_links) != 1 or len(d1.sco_links) != 1:
                raise RuntimeError('SCO set-up did not complete')
            ctx['sco'] = list(d0.sco_links.values())[0]
    watch.sweep()
    if proc == 'cis-iso-stream':
        # SDUs are already with the controller (which never completes them) and a drain() waiter exists on each end
        for dev, links in ((0, list(d0.cis_links.values())), (1, list(d1.cis_links.values()))):
            for link in links:
                link.write(bytes(range(40)))
                side.append(('cis-drain', dev, asyncio.ensure_future(link.drain())))
        await rg.quiesce()


# -----------------------------------------------------------------------------
async def build(case, proc):
    """Returns ctx dict with rig, conns, op factory. A procedure name ending in -rev runs over a link made the other
    way round (device 0, which starts the procedure, is the link PERIPHERAL; the GATT server sits on the link central)."""
    rev = proc.endswith('-rev')
    proc = proc.removesuffix('-rev')
    from bumble import l2cap, gatt
    from bumble.device import Peer
    from bumble.pairing import PairingConfig, PairingDelegate
    from vlib import rig as vrig
    vrig.seed_entropy(case['seed'])
    classic = proc in ('classic-connect', 'classic-disconnect', 'rfcomm-open', 'sdp-query') or proc.startswith('sco')
    # VERIF_SEED selects the delay schedule (0: none, 1, 2: up to that many loop turns per
    # hop) and, in the quick tier, which message indices are sampled
    rg = vrig.Rig(2, seed=case['seed'], max_delay=(case['seed'] // 1000003) % 3, classic=classic)
    d0, d1 = rg.devices
    ctx = {'rg': rg}
    if proc.startswith('gatt'):
        ch = gatt.Characteristic(
            'D0000001-0000-1000-8000-00805F9B34FB',
            gatt.Characteristic.Properties.READ | gatt.Characteristic.Properties.WRITE
            | gatt.Characteristic.Properties.NOTIFY | gatt.Characteristic.Properties.INDICATE,
            gatt.Characteristic.READABLE | gatt.Characteristic.WRITEABLE,
            bytes(range(256)) + bytes(44) if proc == 'gatt-long-read' else bytes(range(10)))
        svc = gatt.Service('D0000000-0000-1000-8000-00805F9B34FB', [ch])
        d1.add_service(svc)
        ctx['server_char'] = ch
    if proc in ('pair-legacy', 'pair-sc', 'encrypt'):
        for d in (d0, d1):
            d.pairing_config_factory = lambda conn, _sc=(proc != 'pair-legacy'): PairingConfig(
                sc=_sc, mitm=False, bonding=True, delegate=PairingDelegate(),
                identity_address_type=PairingConfig.AddressType.RANDOM)
    await rg.power_on()
    if classic:
        c0, c1 = await rg.connect_classic(0, 1)
    elif rev:
        c1, c0 = await rg.connect_le(1, 0)
    else:
        c0, c1 = await rg.connect_le(0, 1)
    ctx['c0'], ctx['c1'] = c0, c1
    await rg.quiesce()

    if proc.startswith('gatt'):
        peer = Peer(c0)
        ctx['peer'] = peer
        if proc != 'gatt-discover':
            await vloop.vwait(peer.discover_services())
            for s in peer.services:
                await vloop.vwait(s.discover_characteristics())
            chars = peer.get_characteristics_by_uuid(ctx['server_char'].uuid)
            ctx['char'] = chars[0]
            await vloop.vwait(ctx['char'].discover_descriptors())
        if proc == 'gatt-indicate':
            await vloop.vwait(ctx['char'].subscribe(lambda v: None, prefer_notify=False))
        await rg.quiesce()
    if proc in ('coc-connect', 'coc-disconnect', 'coc-drain'):
        def accept(ch):
            ch.sink = lambda data: None   # a consuming receiver (without a sink no credits are returned)
        d1.create_l2cap_server(spec=l2cap.LeCreditBasedChannelSpec(psm=0x80, max_credits=4), handler=accept)
        if proc != 'coc-connect':
            ctx['chan'] = await vloop.vwait(c0.create_l2cap_channel(spec=l2cap.LeCreditBasedChannelSpec(psm=0x80, max_credits=4)))
            await rg.quiesce()
    if proc in ('classic-connect', 'classic-disconnect'):
        d1.create_l2cap_server(spec=l2cap.ClassicChannelSpec(psm=0x1001), handler=lambda ch: None)
        if proc == 'classic-disconnect':
            ctx['chan'] = await vloop.vwait(c0.create_l2cap_channel(spec=l2cap.ClassicChannelSpec(psm=0x1001)))
            await rg.quiesce()
    if proc == 'rfcomm-open':
        from bumble import rfcomm
        ctx['rf_channel'] = rfcomm.Server(d1).listen(acceptor=lambda dlc: None)
    if proc == 'sdp-query':
        from bumble import sdp, core
        d1.sdp_service_records = {0x10001: [
            sdp.ServiceAttribute(sdp.SDP_SERVICE_RECORD_HANDLE_ATTRIBUTE_ID, sdp.DataElement.unsigned_integer_32(0x10001)),
            sdp.ServiceAttribute(sdp.SDP_SERVICE_CLASS_ID_LIST_ATTRIBUTE_ID,
                                 sdp.DataElement.sequence([sdp.DataElement.uuid(core.UUID('1101'))]))]}
    if proc == 'encrypt':
        await vloop.vwait(c0.pair())
        await rg.quiesce()
    if proc in ISO_PROCS:
        await build_iso(case, proc, ctx)
    return ctx


def make_op(ctx, proc):
    from bumble import l2cap, hci
    proc = proc.removesuffix('-rev')
    rg, c0, c1 = ctx['rg'], ctx['c0'], ctx['c1']
    d0, d1 = rg.devices

    async def op():
        if proc in ('gatt-read', 'gatt-long-read'):
            return await ctx['char'].read_value()
        if proc == 'gatt-write':
            return await ctx['char'].write_value(bytes(range(10)), with_response=True)
        if proc == 'gatt-discover':
            await ctx['peer'].discover_services()
            for s in ctx['peer'].services:
                await s.discover_characteristics()
            return True
        if proc == 'gatt-subscribe':
            return await ctx['char'].subscribe(lambda v: None)
        if proc == 'gatt-indicate':
            return await d1.indicate_subscribers(ctx['server_char'], b'hello')
        if proc in ('pair-legacy', 'pair-sc'):
            return await c0.pair()
        if proc == 'encrypt':
            return await c0.encrypt()
        if proc == 'coc-connect':
            return await c0.create_l2cap_channel(spec=l2cap.LeCreditBasedChannelSpec(psm=0x80, max_credits=4))
        if proc == 'coc-disconnect':
            return await ctx['chan'].disconnect()
        if proc == 'coc-drain':
            ctx['chan'].write(bytes(24000))   # ~100 credit rounds: every message index stays enumerable
            return await ctx['chan'].drain()
        if proc == 'classic-connect':
            return await c0.create_l2cap_channel(spec=l2cap.ClassicChannelSpec(psm=0x1001))
        if proc == 'classic-disconnect':
            return await ctx['chan'].disconnect()
        if proc == 'rfcomm-open':
            from bumble import rfcomm
            mux = await rfcomm.Client(c0).start()
            return await mux.open_dlc(ctx['rf_channel'])
        if proc == 'sdp-query':
            from bumble import sdp
            client = sdp.Client(c0)
            await client.connect()
            from bumble import core
            res = await client.search_attributes([core.UUID('1101')], [(0, 0xFFFF)])
            await client.disconnect()
            return res
        if proc == 'cis-establish':
            handles = await d0.setup_cig(ctx['cig'])
            return await d0.create_cis([(h, c0) for h in handles])
        if proc in ('cis-idle', 'sco-idle'):
            return None
        if proc == 'cis-iso-stream':
            for i in range(4):
                for link in ctx['cis']:
                    link.write(bytes(60 + i))
                await asyncio.sleep(0)
            return None
        if proc == 'cis-disconnect':
            return await ctx['cis'][0].disconnect()
        if proc == 'sco-establish':
            return await d0.send_command(hci.HCI_Enhanced_Setup_Synchronous_Connection_Command(
                connection_handle=c0.handle, **sco_parameters()))
        if proc == 'sco-disconnect':
            return await ctx['sco'].disconnect()
        if proc == 'hci-queued-command':
            a = d0.host.send_command(hci.HCI_Read_BD_ADDR_Command())
            b = d0.host.send_command(hci.HCI_LE_Rand_Command())
            c = d0.host.send_command(hci.HCI_Read_Local_Name_Command())
            res = await asyncio.gather(a, b, c, return_exceptions=True)
            for x in res:
                if isinstance(x, BaseException) and not isinstance(x, Exception):
                    raise x
            return res
    return op


def dead_handle_leftovers(rg, dev, dead_handles, dead_conns):
    """List of (subsystem, description) for per-connection state of dead connections."""
    out = []
    d = rg.devices[dev]
    gs = d.gatt_server
    for name in ('subscribers', 'indication_semaphores', 'pending_confirmations'):
        tbl = getattr(gs, name, {})
        for bearer in list(tbl):
            conn = bearer if bearer in dead_conns else getattr(bearer, 'connection', None)
            if bearer in dead_conns or conn in dead_conns:
                v = tbl[bearer]
                # an empty placeholder (None, {} or a free semaphore) re-created by a
                # finishing coroutine carries no state
                if v is None or v == {} or (hasattr(v, 'locked') and not v.locked()):
                    continue
                out.append((f'gatt_server.{name}', f'entry for dead connection {getattr(bearer, "handle", bearer)}'))
    for h in list(getattr(d.smp_manager, 'sessions', {})):
        if h in dead_handles:
            out.append(('smp.sessions', f'pairing session for dead handle {h:#x}'))
    mgr = d.l2cap_channel_manager
    for name in ('channels', 'le_coc_channels', 'pending_credit_based_connections'):
        for h, v in getattr(mgr, name, {}).items():
            if h in dead_handles and v:
                out.append((f'l2cap.{name}', f'{len(v)} entries for dead handle {h:#x}'))
    for h in getattr(mgr, 'identifiers', {}):
        if h in dead_handles:
            out.append(('l2cap.identifiers', f'identifier counter for dead handle {h:#x}'))
    for key in getattr(mgr, 'le_coc_requests', {}):
        h = key[0] if isinstance(key, tuple) else None
        if h is None or h in dead_handles:
            out.append(('l2cap.le_coc_requests', f'pending request {key}'))
    for qn in ('acl_packet_queue', 'le_acl_packet_queue', 'iso_packet_queue'):
        q = getattr(d.host, qn, None)
        if q is not None:
            for h in getattr(q, '_connection_state', {}):
                if h in dead_handles:
                    out.append((f'host.{qn}', f'per-connection queue state for dead handle {h:#x}'))
            for pkt, h in list(getattr(q, '_packets', [])):
                if h in dead_handles:
                    out.append((f'host.{qn}', f'queued packet for dead handle {h:#x}'))
                    break
    return out


def link_snapshot(rg, dev):
    host, device = rg.hosts[dev], rg.devices[dev]
    snap = {}
    for kind in ('cis', 'sco', 'bis'):
        snap[f'host.{kind}'] = set(getattr(host, f'{kind}_links'))
        snap[f'device.{kind}'] = set(getattr(device, f'{kind}_links'))
    return snap


def judge_links(r, ctx, proc, cut, cut_dev, waiter_dev, sides, cut_at):
    """Every CIS / SCO link of these scenarios rides on the one ACL connection that was closed (or on the transport
    that was lost), so at quiescence after the cut: no such link in host.*_links / device.*_links (nor, for a
    disconnection, in the controller); every link object that had been established got exactly one 'disconnection'
    event; the waiters that existed at the cut (accept_cis_request, drain) are finished."""
    rg, watch = ctx['rg'], ctx['watch']
    watch.sweep()
    lost = cut.startswith('lost')
    klass = 'transport-loss' if lost else 'acl-disconnect'
    where = f'({proc}, {cut} at message {cut_at})'
    handles = {0: set(), 1: set()}
    for rec in watch.links.values():
        handles[rec['dev']].add(rec['handle'])
    r.ev('link_table_checks')

    def when(dev, table, entries):
        # a link that was not in the table when the host stack learnt that the ACL went away (transport: was lost) came
        # into being afterwards: another mechanism than a link that was not removed (controller entries are compared
        # with what the device listed at that moment, the controller being ahead of the host by the events in flight)
        snap = ctx['snaps'].get(dev)
        if snap is None:
            return '/connection-object-not-told'
        return '/appeared-after-acl-gone' if not (set(entries) & snap[table]) else ''

    for dev in sides:
        host, device, ctl = rg.hosts[dev], rg.devices[dev], rg.controllers[dev]
        for kind in ('cis', 'sco', 'bis'):
            hh = sorted(getattr(host, f'{kind}_links'))
            dl = getattr(device, f'{kind}_links')
            dd = {h: getattr(getattr(l, 'state', None), 'name', 'present') for h, l in dl.items()}
            r.ev('oracle_evals', 2)
            if hh:
                r.bad(f'tables/{kind}-links-after-{klass}/host' + when(dev, f'host.{kind}', hh),
                      f'dev{dev}: host.{kind}_links={hh} (device.{kind}_links={dd}, host.connections='
                      f'{sorted(host.connections)}) {where}')
            if dd:
                r.bad(f'tables/{kind}-links-after-{klass}/device' + ('/pending' if set(dd.values()) == {'PENDING'} else '')
                      + when(dev, f'device.{kind}', dd),
                      f'dev{dev}: device.{kind}_links={dd} (host.{kind}_links={hh}, device.connections='
                      f'{sorted(device.connections)}) {where}')
        if not lost:
            r.ev('oracle_evals', 2)
            acl = {c.handle for c in list(ctl.le_connections.values()) + list(ctl.classic_connections.values())}
            stale = sorted(h for h, l in list(ctl.central_cis_links.items()) + list(ctl.peripheral_cis_links.items())
                           if l.acl_connection is not None and l.acl_connection.handle not in acl)
            if stale:
                r.bad('tables/cis-links-after-acl-disconnect/controller' + when(dev, 'device.cis', stale),
                      f'dev{dev}: controller CIS links {stale} still attached to an ACL connection that is gone '
                      f'(controller ACL handles {sorted(acl)}) {where}')
            # (handle 0 is the controller's placeholder for a request its host has not answered, not a link)
            if [l for l in ctl.sco_links.values() if l.handle]:
                r.bad('tables/sco-links-after-acl-disconnect/controller'
                      + when(dev, 'device.sco', [l.handle for l in ctl.sco_links.values() if l.handle]),
                      f'dev{dev}: controller.sco_links={[l.handle for l in ctl.sco_links.values()]} with ACL handles '
                      f'{sorted(acl)} {where}')
    for rec in watch.links.values():
        if rec['dev'] not in sides:
            continue
        r.ev('links_tracked')
        r.ev(f'links_tracked_{rec["kind"]}')
        r.ev('oracle_evals')
        if rec['established']:
            r.ev('link_disconnection_event_checks')
            if rec['disconnected'] != 1:
                r.bad(f'events/{rec["kind"]}-disconnection/{"none" if rec["disconnected"] == 0 else "repeated"}/{klass}',
                      f'dev{rec["dev"]}: the {rec["kind"].upper()} link object with handle {rec["handle"]:#x} was established '
                      f'and its link is gone, it got {rec["disconnected"]} disconnection events {where}')
        else:
            r.ev('links_never_established')
            if rec['disconnected'] > 1 or rec['failed'] > 1:
                r.bad(f'events/{rec["kind"]}-pending-link/repeated/{klass}',
                      f'dev{rec["dev"]}: pending link {rec["handle"]:#x} got {rec["disconnected"]} disconnection and '
                      f'{rec["failed"]} establishment_failure events {where}')
    for name, dev, task in ctx.get('side_waiters', []):
        r.ev('side_waiters')
        r.ev('oracle_evals')
        if task.done():
            if not task.cancelled():
                task.exception()
            continue
        task.cancel()
        if dev not in sides:
            r.ev('waiter_not_judged_peer_transport_lost')
        else:
            r.bad(f'waiter/hang/{name}/{cut}', f'dev{dev}: {name} started before the cut is still pending {where}')
    return handles


async def scenario(case, r, proc, cut, cut_at):
    ctx = await build(case, proc)
    rg, c0, c1 = ctx['rg'], ctx['c0'], ctx['c1']
    op = make_op(ctx, proc)
    start = len(rg.hci_log)
    fired = []
    cut_dev = 0 if cut.endswith('initiator') else 1
    finished = []

    snaps = ctx['snaps'] = {}
    if 'watch' in ctx:
        for _dev, _conn in ((0, c0), (1, c1)):
            _conn.on('disconnection', lambda *a, _d=_dev: snaps.setdefault(_d, link_snapshot(rg, _d)))

    def do_cut():
        if cut.startswith('lost') and 'watch' in ctx:
            snaps.setdefault(cut_dev, link_snapshot(rg, cut_dev))
        if cut.startswith('disc'):
            conn = c0 if cut_dev == 0 else c1

            async def go():
                try:
                    await conn.disconnect()
                except Exception:
                    pass
            asyncio.ensure_future(go())
        else:
            rg.cut_transport(cut_dev)
            try:
                rg.hosts[cut_dev].on_transport_lost()
            except Exception as e:
                rg.note_exception(f'on_transport_lost{cut_dev}', e)

    def on_log(rec):
        if cut_at is not None and not fired and len(rg.hci_log) - start >= cut_at:
            fired.append(len(finished) == 0)
            rg.loop.call_soon(do_cut)

    rg.on_hci_logged.append(on_log)
    task = asyncio.ensure_future(op())
    task.add_done_callback(lambda t: finished.append(1))
    outcome = 'ok'
    try:
        await vloop.vwait(asyncio.shield(task))
    except vloop.Hang:
        outcome = 'hang'
    except asyncio.CancelledError:
        outcome = 'cancelled'
    except BaseException as e:
        if type(e).__name__ == 'CaseTimeout' or isinstance(e, (KeyboardInterrupt, SystemExit)):
            raise
        outcome = f'raised:{type(e).__name__}'
    try:
        await rg.quiesce()
    except vloop.Hang:
        outcome = outcome + '+no-quiescence'
    n = len(rg.hci_log) - start
    if cut_at is None:
        if outcome != 'ok':
            raise RuntimeError(f'dry run of {proc} did not complete normally: {outcome}')
        return n
    if not fired:
        # the procedure needed fewer messages this time; apply the cut now (after completion)
        do_cut()
        fired.append(False)
        await rg.quiesce()
    r.ev('cut_runs')
    if fired[0]:
        r.ev('cuts_before_completion')
    key = f'{proc}/{cut}'
    r.ev('oracle_evals')
    waiter_dev = 1 if proc.removesuffix('-rev') == 'gatt-indicate' else 0
    if outcome.startswith('hang'):
        if not task.done():
            task.cancel()
        if cut.startswith('lost') and cut_dev != waiter_dev:
            # the waiter's own connection and transport are intact, its peer merely went
            # silent: whether a protocol timeout ends the wait is not this property
            r.ev('waiter_not_judged_peer_transport_lost')
        else:
            r.bad(f'waiter/hang/{key}', f'{proc} still pending {vloop.T_V} virtual s after the cut at message {cut_at}')
    r.ev(f'outcome_{outcome.split(":")[0]}')
    # let any remaining timers (e.g. GATT 30 s) expire, then judge tables
    await asyncio.sleep(40)
    await rg.quiesce()
    # ---- tables ----------------------------------------------------------------
    r.ev('table_checks')
    sides = (cut_dev,) if cut.startswith('lost') else (0, 1)
    for dev in sides:
        hh = set(rg.hosts[dev].connections)
        dh = set(rg.devices[dev].connections)
        r.ev('oracle_evals')
        if cut.startswith('lost'):
            if hh or dh:
                r.bad(f'tables/connections-after-transport-loss/{"host" if hh else "device"}',
                      f'dev{dev}: host.connections={sorted(hh)} device.connections={sorted(dh)} after transport loss '
                      f'({proc}, cut at {cut_at})')
        else:
            ch = {c.handle for c in list(rg.controllers[dev].le_connections.values()) +
                  list(rg.controllers[dev].classic_connections.values())}
            if not (hh == dh == ch):
                r.bad(f'tables/disagree/{cut}', f'dev{dev}: host={sorted(hh)} device={sorted(dh)} controller={sorted(ch)} '
                                                f'({proc}, cut at {cut_at})')
            if hh or dh or ch:
                r.bad(f'tables/connection-survived/{cut}', f'dev{dev} still has connections {sorted(hh | dh | ch)}')
    # ---- links riding on the connection (CIS, SCO) ----------------------------------
    iso_handles = {0: set(), 1: set()}
    if 'watch' in ctx:
        iso_handles = judge_links(r, ctx, proc, cut, cut_dev, waiter_dev, sides, cut_at)
    # ---- leftovers ---------------------------------------------------------------
    r.ev('leftover_checks')
    for dev in sides:
        conn = c0 if dev == 0 else c1
        left = dead_handle_leftovers(rg, dev, {conn.handle} | iso_handles[dev], {conn})
        r.ev('oracle_evals')
        for sub, what in left:
            r.bad(f'leftover/{sub}/{"transport-loss" if cut.startswith("lost") else "disconnect"}',
                  f'dev{dev}: {what} ({proc}, {cut} at message {cut_at})')
    for where, e in rg.exceptions:
        if where.startswith('on_transport_lost'):
            r.bad(f'waiter/exception-in-on_transport_lost/{proc}', f'{e}')
        else:
            r.ev('exceptions_in_stack_after_cut')
            r.add_extra_list('exceptions_after_cut', f'{proc}/{cut}: {where}: {e}'[:160])
    r.sig(proc, cut, cut_at)
    r.sched.add(rg.schedule_signature)
    return n


async def stale_object(case, r: R):
    """A connection is closed, a new one is made (the virtual controller reuses the lowest free
    handle), and then something starts waiting on the OLD Connection object: it must be released,
    the disconnection it would wait for has already happened."""
    from bumble import l2cap
    from vlib import rig as vrig
    rng = random.Random(case['seed'])
    vrig.seed_entropy(case['seed'])
    classic = case['transport'] == 'bredr'
    rg = vrig.Rig(2, seed=case['seed'], max_delay=rng.choice([0, 1]), classic=classic)
    await rg.power_on()
    rg.devices[1].create_l2cap_server(spec=l2cap.ClassicChannelSpec(psm=0x1001), handler=lambda ch: None) if classic else None
    old0, old1 = await (rg.connect_classic(0, 1) if classic else rg.connect_le(0, 1))
    await rg.quiesce()
    how = case['how']
    if how.startswith('lost'):
        side = 0
        rg.cut_transport(side)
        rg.hosts[side].on_transport_lost()
        olds = [(0, old0)]
    else:
        await vloop.vwait((old0 if how == 'disc-initiator' else old1).disconnect())
        olds = [(0, old0), (1, old1)]
    await rg.quiesce()
    new = None
    if not how.startswith('lost'):
        new = await (rg.connect_classic(0, 1) if classic else rg.connect_le(0, 1))
        await rg.quiesce()
        r.ev('stale_handle_reused' if new[0].handle == old0.handle else 'stale_handle_not_reused')
    loop = asyncio.get_running_loop()
    for dev, old in olds:
        r.ev('stale_object_waiters')
        r.ev('oracle_evals')
        fut = loop.create_future()
        try:
            await vloop.vwait(old.cancel_on_disconnection(fut))
            outcome = 'returned'
        except vloop.Hang:
            outcome = 'hang'
        except asyncio.CancelledError:
            outcome = 'cancelled'
        except Exception as e:
            outcome = type(e).__name__
        if outcome == 'hang':
            r.bad(f'waiter/hang/stale-connection-object/{how}' + ('/handle-reused' if new and new[0].handle == old0.handle else ''),
                  f'a waiter registered with cancel_on_disconnection on the closed connection of dev{dev} '
                  f'(handle {old.handle:#x}) is still pending after {vloop.T_V} virtual s')
            fut.cancel()
    r.ev('cut_runs')
    r.ev('table_checks')
    r.ev('leftover_checks')
    r.ev('cuts_before_completion')
    r.sig('stale', case['transport'], how)
    r.evals()
    r.sample = {'kind': 'stale-object', 'transport': case['transport'], 'how': how}


async def real_transport(case, r: R):
    """The loss of a REAL stream transport (tcp-client, unix-client) as the transports announce it: the far end
    closes the socket in an orderly way (EOF) or abruptly (reset) while one HCI command is outstanding and another
    waits for the command slot. Counted events, not time, decide: once asyncio has told the transport that the
    connection is lost, both callers must be released within 200 loop turns."""
    import os, shutil, socket, struct, tempfile
    from bumble import hci
    from bumble.host import Host
    kind, how = case['transport'], case['how']
    rng = random.Random(case['seed'])
    got = {'bytes': 0, 'writer': None}
    ev_cmd = asyncio.Event()

    async def serve(reader, writer):
        got['writer'] = writer
        answered = 0
        while True:
            data = await reader.read(4096)
            if not data:
                return
            got['bytes'] += len(data)
            # answer the first `warm` commands (so that the host has seen traffic), then go silent
            while answered < case['warm'] and got['bytes'] >= 4 * (answered + 1):
                writer.write(bytes([4, 0x0E, 4, 1, 0x09, 0x10, 0]))    # Command Complete, Read_BD_ADDR, status 0 (short)
                answered += 1
            if got['bytes'] >= 4 * (case['warm'] + 1):
                ev_cmd.set()

    tmp = None
    if kind == 'tcp-client':
        from bumble.transport.tcp_client import open_tcp_client_transport
        server = await asyncio.start_server(serve, '127.0.0.1', 0)
        port = server.sockets[0].getsockname()[1]
        transport = await open_tcp_client_transport(f'127.0.0.1:{port}')
    else:
        from bumble.transport.unix import open_unix_client_transport
        tmp = tempfile.mkdtemp(prefix='c16-')
        path = os.path.join(tmp, 'hci.sock')
        server = await asyncio.start_unix_server(serve, path)
        transport = await open_unix_client_transport(path)
    try:
        src = transport.source
        lost = []
        inner = src.connection_lost

        def connection_lost(exc):
            lost.append(exc)
            return inner(exc)
        src.connection_lost = connection_lost
        host = Host(transport.source, transport.sink)
        for _ in range(case['warm']):
            try:
                await asyncio.wait_for(host.send_command(hci.HCI_Read_BD_ADDR_Command()), 20)
            except Exception:
                pass
        a = asyncio.ensure_future(host.send_command(hci.HCI_Read_BD_ADDR_Command()))
        b = asyncio.ensure_future(host.send_command(hci.HCI_Read_Local_Name_Command()))
        try:
            await asyncio.wait_for(ev_cmd.wait(), 20)
        except asyncio.TimeoutError:
            r.ev('real_transport_harness_timeouts')
            return
        w = got['writer']
        if how == 'eof':
            w.close()
        else:
            sock = w.get_extra_info('socket')
            if kind == 'tcp-client':
                sock.setsockopt(socket.SOL_SOCKET, socket.SO_LINGER, struct.pack('ii', 1, 0))
            w.transport.abort()
        for _ in range(3000):
            if lost:
                break
            await asyncio.sleep(0.01)
        if not lost:
            r.ev('real_transport_harness_timeouts')
            return
        r.ev('real_transport_losses_observed')
        r.ev('real_transport_lost_with_' + ('exception' if lost[0] is not None else 'eof'))
        for _ in range(200):
            if a.done() and b.done():
                break
            await asyncio.sleep(0)
        r.ev('oracle_evals')
        for name, t in (('outstanding', a), ('queued', b)):
            if not t.done():
                r.bad(f'waiter/hang/real-transport/{kind}/{how}/{name}-command',
                      f'asyncio reported connection_lost({lost[0]!r}) to the {kind} transport, yet the {name} HCI command is '
                      f'still pending 200 loop turns later')
                t.cancel()
            elif t.exception() is None:
                r.bad(f'waiter/completed-without-transport/{kind}/{how}/{name}-command', f'{name} command returned {t.result()!r}')
        # a command issued after the loss fails at once as well
        try:
            await asyncio.wait_for(host.send_command(hci.HCI_Read_BD_ADDR_Command()), 5)
            r.bad(f'waiter/completed-without-transport/{kind}/{how}/later-command', 'a command sent after the loss returned')
        except asyncio.TimeoutError:
            r.bad(f'waiter/hang/real-transport/{kind}/{how}/later-command', 'a command sent after the loss never ends')
        except Exception:
            pass
        r.sig('real-transport', kind, how, case['warm'])
        r.evals()
        r.sample = {'kind': 'real-transport', 'transport': kind, 'how': how, 'connection_lost_argument': repr(lost[0])}
    finally:
        try:
            await transport.close()
        except Exception:
            pass
        server.close()
        if tmp:
            shutil.rmtree(tmp, ignore_errors=True)


def run_case(case, r: R):
    if case.get('kind') == 'stale':
        return stale_object(case, r)
    if case.get('kind') == 'real-transport':
        return asyncio.run(real_transport(case, r))
    proc, cut = case['proc'], case['cut']
    try:
        n, _ = vloop.run(scenario(case, R({}), proc, cut, None))
    except vloop.Hang as e:
        r.bad(f'waiter/hang/dry-run/{proc}', f'{e}')
        return
    pts = list(range(1, n + 2))
    r.extra['exhaustive'] = len(pts) <= case['max_points']
    if len(pts) > case['max_points']:
        # keep the first messages (where procedures are most fragile) and spread the rest
        head = pts[:case['max_points'] // 2]
        rest = pts[case['max_points'] // 2:]
        rng = random.Random(case['seed'])
        pts = head + sorted(rng.sample(rest, case['max_points'] - len(head)))
    pts = pts[case.get('part', 0)::case.get('parts', 1)]
    for k in pts:
        try:
            vloop.run(scenario(case, r, proc, cut, k))
        except vloop.Hang as e:
            r.bad(f'waiter/hang/harness/{proc}/{cut}', f'{e} at cut index {k}')
        r.evals()
    r.sample = {'procedure': proc, 'cut': cut, 'messages_in_dry_run': n, 'cut_points': pts}


LEVEL_TEXT = ('Fault enumeration: for 24 procedures (17 on the ACL connection, 4 on CIS links and 3 on an eSCO link riding '
              'on it) x 4 cut kinds the link is dropped or the HCI transport lost at every '
              'HCI-message index of the procedure (thorough; up to 150 indices per pair in quick, which is every index for all but the longest procedures), each on a '
              'fresh rig; afterwards the waiter must have ended within 300 virtual seconds, host/device/controller '
              'connection tables must agree and no per-connection state of the dead connection may remain in GATT '
              'server, SMP, L2CAP or the outbound queues (ACL, LE ACL, ISO); no CIS / SCO / BIS link may remain in the '
              'host, device or controller tables, and every established CisLink / ScoLink object must have got exactly one '
              'disconnection event.')
LEVEL_NOTE = ('Trusted: rig taps, the leftover inspector in checks/c16.py (reads the per-connection tables by name), '
              'virtual-time loop. Cuts land at HCI-message granularity, not at arbitrary instructions.')
TECHNIQUE = 'runtime monitoring: fault injection at every message boundary + state-table invariants at quiescence'
