"""C18 — every protocol data unit above HCI round-trips through its codec.

Oracle clauses, per generated instance:
  A  build -> bytes b1 -> parse -> same class, field-wise equal, bytes(parsed) == b1
  B  rebuild a fresh object from the parsed fields -> bytes == b1
  C  layout: b1 == bytes written by the independent layouts in vlib/ref_upper.py
  D  from-bytes: parse(reference bytes) -> fields equal, re-serialise / rebuild == reference
  E  unregistered codes come back generic with identical bytes (L2CAP signalling, ATT, SMP)
History clause: the work items of one case run in seeded random order inside one process,
interleaved with polluting steps; every failing item is re-run alone in a fresh
subprocess and the key gets '/history-dependent' when the fresh run is clean.
"""
from __future__ import annotations

import json
import os
import random
import struct
import subprocess
import sys

from vlib import ref_upper as RU
from vlib.result import R, short

ID = 'C18'
LEVEL = 'exploration'
RULE = ('every class found in the run-time registries (L2CAP signalling, ATT, SMP, SDP, AVDTP, AVRCP '
        'commands/responses/events/items, typed advertising structures) plus the hand-adapted units '
        '(ERTM control fields, PSM, SDP data elements, RFCOMM frames/MCC/PN/MSC, AVCTP, AV/C, RTP, '
        'AdvertisingData, Address, UUID, A2DP codec information, the LATM/AAC RTP payload, the A2DP AAC and SBC '
        'packet sources) x seeded boundary-biased field values; '
        'ERTM control fields, the RFCOMM length grid, AV/C subunit IDs (every representable ID x six frame '
        'classes), LATM frame lengths 0..1100 and k*255-1/k*255/k*255+1 up to 8184, RTP CSRC count x P x X x M and '
        'SBC frames per packet 1..18 are enumerated exhaustively. A case is a seeded '
        'shuffled history of work items interleaved with polluting steps. distinct = distinct '
        '(family, unit, per-field value class, length class) partition; every counted instance carries '
        'at least the layout clause, so none is trivial')
ASSUMPTIONS = [
    'only spec-valid values are generated (valid PSMs, P and F never both set in an S-frame, ATT UUIDs of 2/16 '
    'octets, canonical minimal-length forms for variable-length integers in advertising data, no zero-length AD padding)',
    'Address string form carries only public/random, so string round trips are compared with bumble\'s own Address equality plus the raw octets',
    'AVDTP Security_Control_Response is modelled without content-protection data because bumble defines no such field',
    'BroadcastCode is compared in the unpadded UTF-8 form bumble documents',
    'AVRCP multi-octet fields are big endian (AVRCP 1.6 section 6.3 / AV/C), the 16-octet player feature mask is octet 0 first',
    'SDP elements with non-minimal size descriptors are well-formed: checked for value and re-serialisation of the parsed object only',
    'AV/C subunit IDs: 0-4 and 7 in the three-bit field, 6-259 with one extension octet (ID-5), 260-514 with 0xFF and a second '
    'octet (ID-259); subunit types are the ones bumble defines (EXTENDED 0x1E is documented as unsupported); larger IDs are not representable',
    'LATM: only the form bumble writes (audioMuxVersion 0, one program, one layer, AAC-LC, frameLengthType 0) is built; '
    'latmBufferFullness is an encoder-state value: other values are parsed and must re-serialise to the same element with 0',
    'A2DP SBC source: the frames of a packet that is not yet full when the stream ends stay in the source (at most one packet\'s '
    'worth); frames are generated with the frame length of A2DP 12.9 (last term rounded up to whole octets)',
]
MIN_EVENTS = {
    'quick': {'oracle_evals': 400000, 'instances': 70000, 'layout_checks': 70000, 'from_bytes_checks': 70000,
              'rebuild_checks': 55000, 'pollution_steps': 3000, 'ertm_fields': 5000, 'rfcomm_frames': 2000,
              'sdp_elements': 3000, 'sdp_wide_elements': 400, 'avdtp_generic_messages': 1000, 'sdp_size_boundaries': 16, 'uuid_ops': 1000, 'inst_l2cap-sig': 3000, 'inst_att': 5000,
              'inst_smp': 2000, 'inst_sdp-pdu': 1000, 'inst_avdtp': 6000, 'inst_avrcp-cmd': 3000, 'inst_avrcp-rsp': 3000,
              'inst_avrcp-evt': 1000, 'inst_avrcp-item': 500,
              'avc_grid_frames': 6000, 'avc_extended_subunit_ids_built': 6000, 'avc_subunit_id_switch_over_values': 500,
              'latm_elements': 1500, 'latm_grid_lengths': 1200, 'latm_length_multiple_of_255': 200,
              'latm_length_next_to_multiple_of_255': 200, 'aac_source_frames': 1500, 'aac_source_frames_multiple_of_255': 400,
              'sbc_source_streams': 600, 'sbc_source_packets': 2000, 'sbc_source_packets_with_15_frames': 300,
              'sbc_source_streams_unaligned': 120, 'sbc_grid_frames_per_packet': 36, 'rtp_grid_packets': 128,
              'cfgopt_lists': 10000, 'cfgopt_options': 12000, 'cfgopt_options_with_hint_bit': 5000, 'cfgopt_grid_types_x_lengths': 7000},
    'thorough': {'oracle_evals': 3000000, 'instances': 500000, 'layout_checks': 500000, 'from_bytes_checks': 400000,
                 'rebuild_checks': 300000, 'pollution_steps': 50000, 'ertm_fields': 33000, 'rfcomm_frames': 30000,
                 'sdp_elements': 50000, 'sdp_wide_elements': 6000, 'avdtp_generic_messages': 8000, 'sdp_size_boundaries': 100, 'uuid_ops': 15000, 'inst_l2cap-sig': 60000, 'inst_att': 100000,
                 'inst_smp': 40000, 'inst_sdp-pdu': 20000, 'inst_avdtp': 120000, 'inst_avrcp-cmd': 60000, 'inst_avrcp-rsp': 60000,
                 'inst_avrcp-evt': 20000, 'inst_avrcp-item': 10000,
                 'avc_grid_frames': 24000, 'avc_extended_subunit_ids_built': 24000, 'avc_subunit_id_switch_over_values': 2000,
                 'latm_elements': 15000, 'latm_grid_lengths': 4800, 'latm_length_multiple_of_255': 2000,
                 'latm_length_next_to_multiple_of_255': 2000, 'aac_source_frames': 15000, 'aac_source_frames_multiple_of_255': 4000,
                 'sbc_source_streams': 6000, 'sbc_source_packets': 20000, 'sbc_source_packets_with_15_frames': 3000,
                 'sbc_source_streams_unaligned': 1200, 'sbc_grid_frames_per_packet': 144, 'rtp_grid_packets': 512,
                 'cfgopt_lists': 50000, 'cfgopt_options': 80000, 'cfgopt_options_with_hint_bit': 30000, 'cfgopt_grid_types_x_lengths': 7000},
}
CASE_TIMEOUT = 900
SHARD_TIMEOUT = {'quick': 900, 'thorough': 7200}


def plan(tier, seed):
    n = 160 if tier == 'quick' else 640
    per = 6 if tier == 'quick' else 24
    cases = [{'kind': 'mix', 'seed': seed * 100003 + i, 'per_unit': per} for i in range(n)]
    cases.append({'kind': 'ertm-all', 'seed': seed})
    cases.append({'kind': 'rfcomm-grid', 'seed': seed})
    cases.append({'kind': 'cfgopt-grid', 'seed': seed})
    for i in range(2 if tier == 'quick' else 16):
        cases.append({'kind': 'avdtp-generic', 'seed': seed * 100003 + i})
    for i in range(4 if tier == 'quick' else 16):
        cases.append({'kind': 'sdp-bounds', 'seed': seed * 100003 + i})
    for rep in range(1 if tier == 'quick' else 4):
        for shape in AVC_SHAPES:
            cases.append({'kind': 'avc-grid', 'shape': shape, 'seed': seed * 7 + rep})
        for part in range(8):
            cases.append({'kind': 'media-grid', 'part': part, 'parts': 8, 'seed': seed * 7 + rep})
    return cases


# =============================================================================
# plumbing
# =============================================================================
def key_of(fam, unit, clause, disc):
    disc = disc or 'any'
    return f'roundtrip/{fam}/{unit}/{clause}/{disc}'


class Bad(Exception):
    pass


def canon(x):
    """structure with every 2/4/16-octet string replaced by its 128-bit expansion"""
    if isinstance(x, (bytes, bytearray)):
        return ('U', RU.uuid_expand(bytes(x))) if len(x) in (2, 4, 16) else bytes(x)
    if isinstance(x, (list, tuple)):
        return tuple(canon(y) for y in x)
    return x


def only_uuid_width(want, got):
    try:
        return want != got and canon(want) == canon(got)
    except Exception:
        return False


_PREREG: dict | None = None


def import_all():
    """every bumble module the check touches, imported up front so that what the modules
    register at import time is the same in a shard and in a fresh single-item process"""
    from bumble import (a2dp, att, avc, avctp, avdtp, avrcp, core, data_types, gatt, hci, l2cap,  # noqa
                        rfcomm, rtp, sdp, smp)


def prereg():
    """UUIDs registered by bumble's modules at import time: 128-bit value -> widths"""
    global _PREREG
    if _PREREG is None:
        import_all()
        from bumble.core import UUID
        _PREREG = {}
        for u in UUID.UUIDS:
            _PREREG.setdefault(RU.uuid_expand(bytes(u.uuid_bytes)), set()).add(len(u.uuid_bytes))
    return _PREREG


def prereg_conflict(le: bytes) -> bool:
    """a UUID of equal value and *different* width exists since import: from_bytes of this
    one meets it even in a fresh process"""
    w = prereg().get(RU.uuid_expand(bytes(le)))
    return bool(w) and any(x != len(le) for x in w)


RU.UUID_CLASS_HOOK = lambda le: '/preregistered-other-width' if prereg_conflict(le) else ''  # noqa


def uuid_diffs(want, got):
    if isinstance(want, (bytes, bytearray)) and isinstance(got, (bytes, bytearray)):
        if bytes(want) != bytes(got):
            yield bytes(want), bytes(got)
    elif isinstance(want, (list, tuple)) and isinstance(got, (list, tuple)):
        for w, g in zip(want, got):
            yield from uuid_diffs(w, g)


def all_uuid_like(x):
    if isinstance(x, (bytes, bytearray)):
        if len(x) in (2, 4, 16):
            yield bytes(x)
    elif isinstance(x, (list, tuple)):
        for y in x:
            yield from all_uuid_like(y)


def width_class(uuids, whole=()):
    if any(prereg_conflict(u) for u in uuids if len(u) in (2, 4, 16)):
        return 'preregistered-other-width'
    seen = {}
    for u in all_uuid_like(whole):
        seen.setdefault(RU.uuid_expand(u), set()).add(len(u))
    if any(len(w) > 1 for w in seen.values()):
        return 'same-value-two-widths-in-one-unit'
    return 'value-first-seen-in-other-width'


class Ev:
    """evaluation context of one work item"""

    def __init__(self, r: R, fam: str, unit: str, rng: random.Random, ctx=None):
        self.r, self.fam, self.unit, self.rng, self.ctx = r, fam, unit, rng, ctx
        self.failed = False
        self.uuids = ()

    def begin(self):
        """start of a new instance: only its first failing clause is reported (the later
        clauses of the same instance nearly always restate the same mechanism)"""
        self.failed = False
        self.r.ev('instances')

    def _report(self, key, detail):
        if self.failed:
            self.r.ev('secondary_clause_failures_not_reported')
            return
        self.failed = True
        self.r.bad(key, detail() if callable(detail) else detail)

    def bad(self, clause, disc, detail, unit=None):
        unit = unit or self.unit
        if disc and disc.startswith('capabilities:'):
            # the capability list is one sub-codec shared by six AVDTP messages
            det = detail
            unit, disc, detail = 'capabilities', disc[len('capabilities:'):], (lambda: f'{self.unit}: ' + (det() if callable(det) else det))
        self._report(key_of(self.fam, unit, clause, disc), detail)

    def check(self, cond, clause, disc, detail, unit=None):
        self.r.ev('oracle_evals')
        if not cond:
            self.bad(clause, disc, detail, unit)
        return cond

    def eq_values(self, want, got, clause, disc, detail):
        """value comparison that gives UUID width changes their own mechanism key"""
        self.r.ev('oracle_evals')
        if want == got:
            return True
        if only_uuid_width(want, got):
            self._report(key_of(self.fam, 'uuid-field', clause, 'width-changed/' + width_class([w for w, _ in uuid_diffs(want, got)], want)),
                         lambda: f'{self.unit}: ' + (detail() if callable(detail) else detail))
        else:
            self.bad(clause, disc, detail)
        return False

    def guarded(self, clause, disc, fn, detail):
        """run code under test; an exception on valid input is a violation"""
        try:
            return True, fn()
        except Exception as e:  # noqa
            self.r.ev('oracle_evals')
            msg = f'{type(e).__name__}: {e} :: '
            if isinstance(e, TypeError) and 'incompatible UUID type' in str(e):
                # a UUID list class refusing what UUID.from_bytes handed back: width changed
                self._report(key_of(self.fam, 'uuid-field', f'{clause}-raises', 'width-changed/' + width_class(self.uuids, list(self.uuids))),
                             lambda: f'{self.unit}: ' + msg + (detail() if callable(detail) else detail))
                return False, None
            self.bad(f'{clause}-raises', f'{disc + "/" if disc else ""}{type(e).__name__}',
                     lambda: msg + (detail() if callable(detail) else detail))
            return False, None

    def remember(self, parse, data, obj):
        if self.ctx is not None and len(data) < 600:
            self.ctx.recent.append((parse, data, obj))
            if len(self.ctx.recent) > 24:
                self.ctx.recent.pop(0)


def hx(b, n=160):
    return short(bytes(b), n)


# =============================================================================
# conversion between reference values and bumble objects
# =============================================================================
def mk_uuid(le: bytes):
    from bumble.core import UUID
    # the string constructor does not go through the process-wide registry
    return UUID(bytes(reversed(le)).hex())


def resolve(path: str):
    import importlib
    parts = path.split('.')
    obj = importlib.import_module('bumble.' + parts[0])
    for p in parts[1:]:
        obj = getattr(obj, p)
    return obj


def de_to_bumble(e):
    from bumble.sdp import DataElement as D
    t = e[0]
    if t == 'nil':
        return D.nil()
    if t == 'uint':
        return D.unsigned_integer(e[2], e[1])
    if t == 'sint':
        return D.signed_integer(e[2], e[1])
    if t == 'uuid':
        return D.uuid(mk_uuid(e[1]))
    if t == 'text':
        return D.text_string(e[1])
    if t == 'bool':
        return D.boolean(e[1])
    if t == 'seq':
        return D.sequence([de_to_bumble(x) for x in e[1]])
    if t == 'alt':
        return D.alternative([de_to_bumble(x) for x in e[1]])
    if t == 'url':
        return D.url(e[1])
    raise ValueError(t)


def de_norm(d):
    from bumble.sdp import DataElement as D
    t = d.type
    if t == D.NIL:
        return ('nil',)
    if t == D.UNSIGNED_INTEGER:
        return ('uint', d.value_size, int(d.value))
    if t == D.SIGNED_INTEGER:
        return ('sint', d.value_size, int(d.value))
    if t == D.UUID:
        return ('uuid', bytes(d.value))
    if t == D.TEXT_STRING:
        return ('text', bytes(d.value))
    if t == D.BOOLEAN:
        return ('bool', bool(d.value))
    if t == D.SEQUENCE:
        return ('seq', [de_norm(x) for x in d.value])
    if t == D.ALTERNATIVE:
        return ('alt', [de_norm(x) for x in d.value])
    if t == D.URL:
        return ('url', d.value)
    return ('?', int(t), d.value)


def info_to_bumble(tag, info):
    from bumble import a2dp
    if tag == 'sbc':
        S = a2dp.SbcMediaCodecInformation
        return S(S.SamplingFrequency(info[0]), S.ChannelMode(info[1]), S.BlockLength(info[2]), S.Subbands(info[3]),
                 S.AllocationMethod(info[4]), info[5], info[6])
    if tag == 'aac':
        A = a2dp.AacMediaCodecInformation
        return A(A.ObjectType(info[0]), A.SamplingFrequency(info[1]), A.Channels(info[2]), info[3], info[4])
    if tag == 'vendor':
        return a2dp.VendorSpecificMediaCodecInformation(info[0], info[1], info[2])
    if tag == 'opus':
        O = a2dp.OpusMediaCodecInformation
        return O(O.ChannelMode(info[0]), O.FrameSize(info[1]), O.SamplingFrequency(info[2]))
    return info  # 'other': raw bytes


def info_norm(x):
    from bumble import a2dp
    if isinstance(x, a2dp.SbcMediaCodecInformation):
        return ('sbc', (int(x.sampling_frequency), int(x.channel_mode), int(x.block_length), int(x.subbands),
                        int(x.allocation_method), int(x.minimum_bitpool_value), int(x.maximum_bitpool_value)))
    if isinstance(x, a2dp.AacMediaCodecInformation):
        return ('aac', (int(x.object_type), int(x.sampling_frequency), int(x.channels), int(x.vbr), int(x.bitrate)))
    if isinstance(x, a2dp.OpusMediaCodecInformation):
        return ('opus', (int(x.channel_mode), int(x.frame_size), int(x.sampling_frequency)))
    if isinstance(x, a2dp.VendorSpecificMediaCodecInformation):
        return ('vendor', (int(x.vendor_id), int(x.codec_id), bytes(x.value)))
    return ('other', bytes(x))


def caps_to_bumble(v):
    from bumble import avdtp
    out = []
    for c in v:
        if c[0] == 'raw':
            out.append(avdtp.ServiceCapabilities(c[1], c[2]))
        else:
            _, mt, ct, tag, info = c
            from bumble import a2dp
            out.append(avdtp.MediaCodecCapabilities(avdtp.MediaType(mt), a2dp.CodecType(ct), info_to_bumble(tag, info)))
    return out


def caps_norm(caps):
    from bumble import avdtp
    out = []
    for c in caps:
        if isinstance(c, avdtp.MediaCodecCapabilities):
            tag, info = info_norm(c.media_codec_information)
            out.append(('codec', int(c.media_type), int(c.media_codec_type), tag, info))
        else:
            out.append(('raw', int(c.service_category), bytes(c.service_capabilities_bytes)))
    return out


def conv(kind, v, kw=None):
    """reference value -> what bumble's constructor takes"""
    tag = kind.tag
    if tag in ('int', 'bytes', 'str', 'lenval'):
        return v
    if tag == 'intlist':
        return list(v)
    if tag == 'uuid':
        return mk_uuid(v)
    if tag == 'uuidlist':
        return [mk_uuid(u) for u in v]
    if tag == 'addr':
        from bumble.hci import Address, AddressType
        return Address(bytes(v), AddressType((kw or {}).get('addr_type', 1)))
    if tag == 'struct':
        cls = resolve(kind.cls_path)
        return cls(**{n: conv(k, x) for (n, k), x in zip(kind.fields, v)})
    if tag == 'caps':
        return caps_to_bumble(v)
    if tag == 'endpoints':
        from bumble import avdtp
        return [avdtp.EndPointInfo(s, u, avdtp.MediaType(m), avdtp.StreamEndPointType(t)) for s, u, m, t in v]
    if tag == 'de':
        return de_to_bumble(v)
    raise ValueError(tag)


def norm(kind, x):
    """bumble attribute -> plain comparable value"""
    tag = kind.tag
    if tag == 'int':
        return int(x)
    if tag == 'bytes':
        return bytes(x)
    if tag == 'str':
        return str.__str__(x)
    if tag == 'lenval':
        return [(int(a), bytes(b)) for a, b in x]
    if tag == 'intlist':
        return [int(a) for a in x]
    if tag == 'uuid':
        return bytes(x)
    if tag == 'uuidlist':
        return [bytes(u) for u in x]
    if tag == 'addr':
        return bytes(x)
    if tag == 'struct':
        return tuple(norm(k, getattr(x, n)) for n, k in kind.fields)
    if tag == 'caps':
        return caps_norm(x)
    if tag == 'endpoints':
        return [(int(e.seid), int(e.in_use), int(e.media_type), int(e.tsep)) for e in x]
    if tag == 'de':
        return de_norm(x)
    raise ValueError(tag)


def to_kwargs(fields, values):
    kw = {}
    for (n, k), v in zip(fields, values):
        if isinstance(k, RU.Group):
            for i, (sn, sk) in enumerate(k.fields):
                kw[sn] = [conv(sk, item[i]) for item in v]
        else:
            kw[n] = conv(k, v, kw)
    return kw


def flat_names(fields):
    out = []
    for n, k in fields:
        if isinstance(k, RU.Group):
            out += [sn for sn, _ in k.fields]
        else:
            out.append(n)
    return out


def from_obj(fields, obj):
    out = []
    for n, k in fields:
        if isinstance(k, RU.Group):
            cols = [list(getattr(obj, sn)) for sn, _ in k.fields]
            m = max(len(c) for c in cols)
            rows = []
            for j in range(m):
                rows.append(tuple(norm(sk, col[j]) if j < len(col) else '<missing>'
                                  for (sn, sk), col in zip(k.fields, cols)))
            out.append(rows)
        else:
            out.append(norm(k, getattr(obj, n)))
    return out


def first_diff(fields, want, got):
    for (n, k), w, g in zip(fields, want, got):
        if w != g:
            if k.tag == 'caps' and isinstance(g, list):
                i = next((j for j in range(min(len(w), len(g))) if w[j] != g[j]), None)
                return f'{n}:' + (RU.Caps.cap_class(w[i]) if i is not None else 'count')
            c = k.cls_of(w)
            name = n if n != '@g' else '+'.join(sn for sn, _ in k.fields)
            return f'{name}:{c}' if c else name
    return 'shape'


def layout_diff(fields, values, prefix_len, got: bytes, want: bytes):
    """name of the field in which the first differing octet lies"""
    n = min(len(got), len(want))
    pos = next((i for i in range(n) if got[i] != want[i]), n)
    if pos < prefix_len:
        return 'header'
    for name, a, b in RU.segments(fields, values):
        if a <= pos - prefix_len < b:
            k = dict(fields)[name] if name != '@g' else None
            if name == '@g':
                grp = [k2 for n2, k2 in fields if n2 == '@g'][0]
                name = '+'.join(sn for sn, _ in grp.fields)
                return name
            v = values[[f[0] for f in fields].index(name)]
            c = k.cls_of(v)
            return f'{name}:{c}' if c else name
    return 'length'


def length_class(n):
    for lim, name in ((0, '0'), (1, '1'), (22, '<=22'), (126, '<=126'), (127, '127'), (128, '128'), (255, '<=255'),
                      (256, '256'), (65535, '<=65535')):
        if n <= lim:
            return name
    return '>65535'


# =============================================================================
# generic engine for the dataclass registries
# =============================================================================
class Family:
    name = '?'
    ref: dict = {}
    prefix_len = 0

    def classes(self) -> dict:  # unit name -> class
        raise NotImplementedError

    def gen_hdr(self, rng):
        return {}

    def frame(self, unit, hdr, payload: bytes) -> bytes:
        raise NotImplementedError

    def build(self, cls, hdr, kw):
        return cls(**hdr, **kw)

    def parse(self, unit, hdr, data: bytes):
        raise NotImplementedError

    def serialise(self, obj, hdr) -> bytes:
        return bytes(obj)

    def hdr_of(self, obj, hdr):
        return hdr

    def fields(self, unit):
        return self.ref[unit][-1]

    def override(self, unit, rng):
        return None

    def extra(self, ev, unit, values, obj, where):
        pass

    def hdr_class(self, hdr):
        return None


def eval_generic(F: Family, ev: Ev, unit: str):
    r, rng = ev.r, ev.rng
    cls = F.classes()[unit]
    fields = F.fields(unit)
    values = RU.gen_fields(fields, rng)
    derived = None
    ov = F.override(unit, rng)
    if ov is not None:
        over, dattr, dlist = ov
        names = [n for n, _ in fields]
        for n, v in over.items():
            values[names.index(n)] = v
        derived = (dattr, dlist)
    hdr = F.gen_hdr(rng)
    ref = F.frame(unit, hdr, RU.enc_fields(fields, values))
    vc = RU.value_classes(fields, values)
    if F.hdr_class(hdr):
        vc.append(F.hdr_class(hdr))
    vcs = '+'.join(vc)
    rdisc = F.hdr_class(hdr) or vcs
    ev.begin()
    r.ev(f'inst_{F.name}')
    r.sig(F.name, unit, tuple(vc), length_class(len(ref)))
    what = lambda: f'{unit} hdr={hdr} values={short(values, 300)} ref={hx(ref)}'  # noqa
    if ev.ctx is not None and len(ev.ctx.examples) < 3 and fields and len(ref) < 48:
        ev.ctx.examples.append({'unit': f'{F.name}/{unit}', 'header': hdr, 'values': short(values, 200), 'reference_bytes': ref.hex()})

    def derived_check(p, where):
        if derived is None:
            return
        try:
            got = [tuple(bytes(x) if isinstance(x, (bytes, bytearray)) else int(x) for x in it) for it in getattr(p, derived[0])]
        except Exception as e:  # noqa
            got = f'{type(e).__name__}: {e}'
        ev.check(got == [tuple(i) for i in derived[1]], f'{where}derived-list', derived[0],
                 lambda: f'{what()} parsed.{derived[0]}={short(got, 300)} expected={short(derived[1], 300)}')

    # ---- A: build -> bytes -> parse ------------------------------------------
    ok, obj = ev.guarded('build', vcs, lambda: F.build(cls, hdr, to_kwargs(fields, values)), what)
    b1 = None
    if ok:
        ok, b1 = ev.guarded('serialise', vcs, lambda: F.serialise(obj, hdr), what)
    if ok:
        # ---- C: layout --------------------------------------------------------
        r.ev('layout_checks')
        ev.check(b1 == ref, 'layout', None if b1 == ref else layout_diff(fields, values, F.prefix_len, b1, ref),
                 lambda: f'{what()} bumble={hx(b1)}')
        okp, p = ev.guarded('parse', vcs, lambda: F.parse(unit, hdr, b1), lambda: f'{what()} b1={hx(b1)}')
        if okp:
            ev.remember(lambda d, _u=unit, _h=hdr: F.parse(_u, _h, d), b1, p)
            ev.check(type(p) is cls, 'parse-class', type(p).__name__, lambda: f'{what()} parsed as {type(p).__name__}')
            if type(p) is cls:
                okn, got = ev.guarded('value', vcs, lambda: from_obj(fields, p), what)
                if okn:
                    ev.eq_values(values, got, 'value', first_diff(fields, values, got),
                                 lambda: f'{what()} b1={hx(b1)} parsed={short(got, 300)}')
                h2 = F.hdr_of(p, hdr)
                ev.check(h2 == hdr, 'value', 'header', lambda: f'{what()} parsed header {h2}')
                oks, b2 = ev.guarded('reserialise', vcs, lambda: F.serialise(p, hdr), what)
                if oks:
                    ev.check(b2 == b1, 'reserialise', rdisc, lambda: f'{what()} b1={hx(b1)} again={hx(b2)}')
                derived_check(p, '')
                F.extra(ev, unit, values, p, 'A')
                # ---- B: rebuild from the parsed fields --------------------------
                r.ev('rebuild_checks')
                okb, b3 = ev.guarded('rebuild', vcs, lambda: F.serialise(
                    F.build(cls, h2, {n: getattr(p, n) for n in flat_names(fields)}), hdr), what)
                if okb:
                    ev.eq_values(b1, b3, 'rebuild', rdisc, lambda: f'{what()} b1={hx(b1)} rebuilt={hx(b3)}')
    # ---- D: from the reference bytes -------------------------------------------
    r.ev('from_bytes_checks')
    okp, p = ev.guarded('from-bytes/parse', vcs, lambda: F.parse(unit, hdr, ref), what)
    if okp:
        ev.check(type(p) is cls, 'from-bytes/parse-class', type(p).__name__, lambda: f'{what()} parsed as {type(p).__name__}')
        if type(p) is cls:
            okn, got = ev.guarded('from-bytes/value', vcs, lambda: from_obj(fields, p), what)
            if okn:
                ev.eq_values(values, got, 'from-bytes/value', first_diff(fields, values, got),
                             lambda: f'{what()} parsed={short(got, 300)}')
            derived_check(p, 'from-bytes/')
            F.extra(ev, unit, values, p, 'D')
            oks, b2 = ev.guarded('from-bytes/reserialise', vcs, lambda: F.serialise(p, hdr), what)
            if oks:
                ev.check(b2 == ref, 'from-bytes/reserialise', rdisc, lambda: f'{what()} again={hx(b2)}')
            h2 = F.hdr_of(p, hdr)
            okb, b3 = ev.guarded('from-bytes/rebuild', vcs, lambda: F.serialise(
                F.build(cls, h2, {n: getattr(p, n) for n in flat_names(fields)}), hdr), what)
            if okb:
                ev.eq_values(ref, b3, 'from-bytes/rebuild', rdisc, lambda: f'{what()} rebuilt={hx(b3)}')


# ---- the registries -----------------------------------------------------------
class L2capSig(Family):
    name = 'l2cap-sig'
    ref = RU.L2CAP_SIG
    prefix_len = 4

    def classes(self):
        from bumble import l2cap
        return {c.__name__: c for c in l2cap.L2CAP_Control_Frame.classes.values()}

    def gen_hdr(self, rng):
        return {'identifier': rng.choice([1, 0xFF, 0x80, rng.randint(1, 255)])}

    def frame(self, unit, hdr, payload):
        return RU.l2cap_sig_bytes(self.ref[unit][0], hdr['identifier'], payload)

    def parse(self, unit, hdr, data):
        from bumble import l2cap
        return l2cap.L2CAP_Control_Frame.from_bytes(data)

    def hdr_of(self, obj, hdr):
        return {'identifier': obj.identifier}


class Att(Family):
    name = 'att'
    ref = RU.ATT
    prefix_len = 1

    def classes(self):
        from bumble import att
        return {c.__name__: c for c in att.ATT_PDU.pdu_classes.values()}

    def frame(self, unit, hdr, payload):
        return RU.att_bytes(self.ref[unit][0], payload)

    def parse(self, unit, hdr, data):
        from bumble import att
        return att.ATT_PDU.from_bytes(data)

    def override(self, unit, rng):
        if rng.random() < 0.6:
            return RU.att_structured(unit, rng)
        return None


class Smp(Family):
    name = 'smp'
    ref = RU.SMP
    prefix_len = 1

    def classes(self):
        from bumble import smp
        return {c.__name__: c for c in smp.SMP_Command.smp_classes.values()}

    def frame(self, unit, hdr, payload):
        return bytes([self.ref[unit][0]]) + payload

    def parse(self, unit, hdr, data):
        from bumble import smp
        return smp.SMP_Command.from_bytes(data)

    def extra(self, ev, unit, values, obj, where):
        if unit == 'SMP_Identity_Address_Information_Command':
            ev.check(int(obj.bd_addr.address_type) == values[0], 'value', 'bd_addr-type',
                     lambda: f'addr_type={values[0]} parsed address type {obj.bd_addr.address_type!r}')


class SdpPdu(Family):
    name = 'sdp-pdu'
    ref = RU.SDP
    prefix_len = 5

    def classes(self):
        from bumble import sdp
        return {c.__name__: c for c in sdp.SDP_PDU.subclasses.values()}

    def gen_hdr(self, rng):
        return {'transaction_id': RU.gen_int(rng, 16)}

    def frame(self, unit, hdr, payload):
        return RU.sdp_pdu_bytes(self.ref[unit][0], hdr['transaction_id'], payload)

    def parse(self, unit, hdr, data):
        from bumble import sdp
        return sdp.SDP_PDU.from_bytes(data)

    def hdr_of(self, obj, hdr):
        return {'transaction_id': obj.transaction_id}


class _Chan:
    """stand-in for an L2CAP channel: records what the protocol layer writes"""

    def __init__(self, mtu=0xFFFF):
        self.peer_mtu = mtu
        self.mtu = mtu
        self.sink = None
        self.out = []

    def on(self, *a, **k):
        pass

    def once(self, *a, **k):
        pass

    def write(self, pdu):
        self.out.append(bytes(pdu))

    send_pdu = write


class Avdtp(Family):
    """message = single signalling packet: Protocol.send_message writes it, MessageAssembler parses it"""
    name = 'avdtp'
    ref = RU.AVDTP
    prefix_len = 2

    def classes(self):
        from bumble import avdtp
        out = {}
        for sig, by_type in avdtp.Message.subclasses.items():
            for mt, c in by_type.items():
                out[c.__name__] = c
        return out

    def gen_hdr(self, rng):
        return {'label': rng.randint(0, 15)}

    def frame(self, unit, hdr, payload):
        sig, mt, _ = self.ref[unit]
        return RU.avdtp_single(hdr['label'], mt, sig, payload)

    def build(self, cls, hdr, kw):
        from bumble import avdtp
        kw = dict(kw)
        if 'error_code' in kw:
            kw['error_code'] = avdtp.ErrorCode(kw['error_code'])
        if 'service_category' in kw:
            kw['service_category'] = avdtp.ServiceCategory(kw['service_category'])
        return cls(**kw)

    def serialise(self, obj, hdr):
        from bumble import avdtp
        ch = _Chan()
        proto = avdtp.Protocol.__new__(avdtp.Protocol)
        proto.l2cap_channel = ch
        avdtp.Protocol.send_message(proto, hdr['label'], obj)
        if len(ch.out) != 1:
            raise Bad(f'{len(ch.out)} packets written for one small message')
        return ch.out[0]

    def parse(self, unit, hdr, data):
        from bumble import avdtp
        got = []
        asm = avdtp.MessageAssembler(lambda label, msg: got.append((label, msg)))
        asm.on_pdu(data)
        if len(got) != 1:
            raise Bad(f'assembler delivered {len(got)} messages for one single packet')
        label, msg = got[0]
        msg._c18_label = label
        return msg

    def hdr_of(self, obj, hdr):
        return {'label': getattr(obj, '_c18_label', hdr['label'])}

    def extra(self, ev, unit, values, obj, where):
        sig, mt, _ = self.ref[unit]
        ev.check((int(obj.signal_identifier), int(obj.message_type)) == (sig, mt), 'value', 'signal-or-type',
                 lambda: f'{unit}: parsed signal={obj.signal_identifier!r} type={obj.message_type!r}')


class AvrcpCmd(Family):
    name = 'avrcp-cmd'
    ref = RU.AVRCP_CMD

    def classes(self):
        from bumble import avrcp
        return {c.__name__: c for c in avrcp.Command.subclasses.values()}

    def frame(self, unit, hdr, payload):
        return payload

    def parse(self, unit, hdr, data):
        from bumble import avrcp
        return avrcp.Command.from_bytes(self.ref[unit][0], data)

    def extra(self, ev, unit, values, obj, where):
        ev.check(int(obj.pdu_id) == self.ref[unit][0], 'value', 'pdu-id', lambda: f'{unit}: pdu_id {obj.pdu_id!r}')


class AvrcpRsp(Family):
    name = 'avrcp-rsp'
    ref = RU.AVRCP_RSP

    def classes(self):
        from bumble import avrcp
        return {c.__name__: c for c in avrcp.Response.subclasses.values()}

    def frame(self, unit, hdr, payload):
        return payload

    def parse(self, unit, hdr, data):
        from bumble import avrcp
        return avrcp.Response.from_bytes(data, avrcp.PduId(self.ref[unit][0]))

    def extra(self, ev, unit, values, obj, where):
        ev.check(int(obj.pdu_id) == self.ref[unit][0], 'value', 'pdu-id', lambda: f'{unit}: pdu_id {obj.pdu_id!r}')


class AvrcpEvt(Family):
    name = 'avrcp-evt'
    ref = RU.AVRCP_EVT
    prefix_len = 1

    def classes(self):
        from bumble import avrcp
        return {c.__name__: c for c in avrcp.Event.subclasses.values()}

    def frame(self, unit, hdr, payload):
        return bytes([self.ref[unit][0]]) + payload

    def parse(self, unit, hdr, data):
        from bumble import avrcp
        return avrcp.Event.from_bytes(data)


class AvrcpItem(Family):
    name = 'avrcp-item'
    ref = RU.AVRCP_ITEM
    prefix_len = 3

    def classes(self):
        from bumble import avrcp
        return {c.__name__: c for c in avrcp.BrowseableItem.subclasses.values()}

    def gen_hdr(self, rng):
        # items are parsed at an offset inside a GetFolderItems response
        return {'offset': rng.choice([0, 0, 5, 1, 9])}

    def hdr_class(self, hdr):
        return 'offset>0' if hdr['offset'] else None

    def build(self, cls, hdr, kw):
        return cls(**kw)

    def frame(self, unit, hdr, payload):
        return RU.avrcp_item_bytes(self.ref[unit][0], payload)

    def parse(self, unit, hdr, data):
        from bumble import avrcp
        off = hdr['offset']
        trailer = b'\x5a' * (off % 3)
        end, item = avrcp.BrowseableItem.parse_from_bytes(b'\xa5' * off + data + trailer, off)
        if end != off + len(data):
            raise Bad(f'parse_from_bytes returned offset {end}, expected {off + len(data)}')
        return item


GENERIC = [L2capSig(), Att(), Smp(), SdpPdu(), Avdtp(), AvrcpCmd(), AvrcpRsp(), AvrcpEvt(), AvrcpItem()]
GENERIC_BY_NAME = {f.name: f for f in GENERIC}
# registered classes the generic engine does not drive, with the unit that covers them
HANDLED_ELSEWHERE = {
    'avrcp-rsp': {'GetCapabilitiesResponse': 'avrcp-special', 'RegisterNotificationResponse': 'avrcp-special',
                  'GetFolderItemsResponse': 'avrcp-special', 'RejectedResponse': 'avrcp-special',
                  'NotImplementedResponse': 'avrcp-special'},
}


# =============================================================================
# hand-adapted units
# =============================================================================
# ---- L2CAP: ERTM control fields, PSM, unknown codes --------------------------
def ertm_one(ev: Ev, kind, tx, req, sar, s, poll, final):
    from bumble import l2cap
    r = ev.r
    r.ev('ertm_fields')
    if kind == 'i':
        ref = RU.ertm_i(tx, req, sar, final)
        want = ('i', tx, req, sar, final)
        build = lambda: l2cap.InformationEnhancedControlField(tx_seq=tx, sar=sar, req_seq=req, final=final)  # noqa
        view = lambda p: ('i', int(p.tx_seq), int(p.req_seq), int(p.sar), int(p.final))  # noqa
        cls = l2cap.InformationEnhancedControlField
        unit = 'i-frame'
        disc = f'sar={sar}' if sar else ('final' if final else 'plain')
    else:
        ref = RU.ertm_s(s, poll, final, req)
        want = ('s', s, poll, final, req)
        build = lambda: l2cap.SupervisoryEnhancedControlField(supervision_function=s, poll=poll, req_seq=req, final=final)  # noqa
        view = lambda p: ('s', int(p.supervision_function), int(p.poll), int(p.final), int(p.req_seq))  # noqa
        cls = l2cap.SupervisoryEnhancedControlField
        unit = 's-frame'
        disc = 'poll' if poll else ('final' if final else 'plain')
    what = lambda: f'{want} ref={ref.hex()}'  # noqa
    ok, obj = ev.guarded('build', disc, build, what)
    if ok:
        ok, b1 = ev.guarded('serialise', disc, lambda: bytes(obj), what)
    if ok:
        r.ev('layout_checks')
        ev.check(b1 == ref, 'layout', disc, lambda: f'{what()} bumble={b1.hex()}', unit)
        okp, p = ev.guarded('parse', disc, lambda: l2cap.EnhancedControlField.from_bytes(b1), what)
        if okp:
            ev.check(type(p) is cls and view(p) == want, 'value', disc, lambda: f'{what()} b1={b1.hex()} parsed={p!r}', unit)
            ev.check(bytes(p) == b1, 'reserialise', disc, lambda: f'{what()} b1={b1.hex()} again={bytes(p).hex()}', unit)
    r.ev('from_bytes_checks')
    okp, p = ev.guarded('from-bytes/parse', disc, lambda: l2cap.EnhancedControlField.from_bytes(ref), what)
    if okp:
        ev.check(type(p) is cls and view(p) == want, 'from-bytes/value', disc, lambda: f'{what()} parsed={p!r}', unit)
        ev.check(bytes(p) == ref, 'from-bytes/reserialise', disc, lambda: f'{what()} again={bytes(p).hex()}', unit)
        r.ev('rebuild_checks')
        if type(p) is cls:
            okb, b3 = ev.guarded('from-bytes/rebuild', disc, lambda: bytes(cls(**{
                f: getattr(p, f) for f in (('tx_seq', 'sar', 'req_seq', 'final') if kind == 'i'
                                           else ('supervision_function', 'poll', 'req_seq', 'final'))})), what)
            if okb:
                ev.check(b3 == ref, 'from-bytes/rebuild', disc, lambda: f'{what()} rebuilt={b3.hex()}', unit)


def ev_ertm(ev: Ev, unit):
    rng = ev.rng
    ev.begin()
    if unit == 'i-frame':
        tx, req, sar, final = rng.choice([0, 1, 31, 32, 63, rng.randint(0, 63)]), rng.choice([0, 1, 63, rng.randint(0, 63)]), rng.randint(0, 3), rng.randint(0, 1)
        ev.r.sig('ertm', 'i', sar, final, tx in (0, 63), req in (0, 63))
        ertm_one(ev, 'i', tx, req, sar, 0, 0, final)
    else:
        s, req = rng.randint(0, 3), rng.choice([0, 1, 63, rng.randint(0, 63)])
        poll, final = rng.choice([(0, 0), (1, 0), (0, 1)])
        ev.r.sig('ertm', 's', s, poll, final, req in (0, 63))
        ertm_one(ev, 's', 0, req, 0, s, poll, final)


def ev_psm(ev: Ev, unit):
    from bumble import l2cap
    k = RU.Psm()
    psm = k.gen(ev.rng)
    ref = k.enc(psm)
    disc = k.cls_of(psm)
    ev.begin()
    ev.r.sig('psm', disc, len(ref))
    what = lambda: f'psm={psm:#x} ref={ref.hex()}'  # noqa
    C = l2cap.L2CAP_Connection_Request
    ok, b1 = ev.guarded('serialise', disc, lambda: C.serialize_psm(psm), what)
    if ok:
        ev.r.ev('layout_checks')
        ev.check(b1 == ref, 'layout', disc, lambda: f'{what()} bumble={b1.hex()}')
    tail = bytes([ev.rng.getrandbits(8) | 1, ev.rng.getrandbits(8)])  # an odd octet right after must not be eaten
    off = ev.rng.choice([0, 1, 4])
    ev.r.ev('from_bytes_checks')
    ok, res = ev.guarded('from-bytes/parse', disc, lambda: C.parse_psm(bytes(off) + ref + tail, off), what)
    if ok:
        ev.check(res == (off + len(ref), psm), 'from-bytes/value', disc, lambda: f'{what()} parse_psm at {off} -> {res}')


def ev_l2cap_pdu(ev: Ev, unit):
    from bumble import l2cap
    rng, r = ev.rng, ev.r
    ev.begin()
    cid = rng.choice([1, 4, 5, 6, 0x40, 0xFFFF, RU.gen_int(rng, 16)])
    payload = RU.rnd_bytes(rng, RU.gen_len(rng, 700, (672, 673)))
    ref = RU.l2cap_pdu(cid, payload)
    r.sig('l2cap-pdu', length_class(len(payload)), cid < 0x40)
    what = lambda: f'L2CAP_PDU cid={cid:#x} payload={hx(payload, 40)} ref={hx(ref, 60)}'  # noqa
    ok, obj = ev.guarded('build', None, lambda: l2cap.L2CAP_PDU(cid, payload), what)
    if ok:
        ok, b1 = ev.guarded('serialise', None, lambda: bytes(obj), what)
    if ok:
        r.ev('layout_checks')
        ev.check(b1 == ref, 'layout', None, lambda: f'{what()} bumble={hx(b1, 60)}')
        okf, bf = ev.guarded('serialise', 'fcs', lambda: obj.to_bytes(with_fcs=True), what)
        if okf:
            want = RU.l2cap_pdu(cid, payload, True)
            ev.check(bf == want, 'layout', 'fcs', lambda: f'{what()} with FCS bumble={hx(bf, 60)} expected={hx(want, 60)}')
    r.ev('from_bytes_checks')
    okp, p = ev.guarded('from-bytes/parse', None, lambda: l2cap.L2CAP_PDU.from_bytes(ref), what)
    if okp:
        ev.check((int(p.cid), bytes(p.payload)) == (cid, payload), 'from-bytes/value', None, lambda: f'{what()} parsed cid={p.cid} payload={hx(p.payload, 40)}')
        ev.check(bytes(p) == ref, 'from-bytes/reserialise', None, lambda: f'{what()} again={hx(bytes(p), 60)}')


def cfgopt_class(opts):
    """mechanism class of an option list: the first option whose type octet has the hint bit, else the first option"""
    if not opts:
        return 'empty-list'
    hinted = [o for o in opts if o[0] & 0x80]
    t, v = (hinted or opts)[0]
    n = len(v)
    return RU.cfg_type_class(t) + ('/empty-value' if n == 0 else '/long-value' if n > 22 else '')


def cfgopt_diff_class(opts, got):
    """class of the FIRST option that did not come back as it was sent"""
    i = next((k for k, (a, b) in enumerate(zip(opts, got)) if a != b), min(len(opts), len(got)))
    if i >= len(opts):
        return 'options-added'
    t, v = opts[i]
    how = 'dropped' if i >= len(got) else 'type-changed' if got[i][0] != t else 'value-changed'
    return (RU.cfg_type_class(t) + ('/empty-value' if not v else '/long-value' if len(v) > 22 else '') +
            ('/last-option' if i == len(opts) - 1 else '') + '/' + how)


def cfgopt_one(ev: Ev, opts, carrier, grid=False):
    """the option list of Configure Request / Response as a codec of its own: [(type octet, value)] <-> octets,
    alone and carried in a signalling frame; the whole type octet (hint bit included) is the value"""
    from bumble import l2cap
    rng, r = ev.rng, ev.r
    F = l2cap.L2CAP_Control_Frame
    ref = RU.cfg_options(opts)
    disc = cfgopt_class(opts)
    r.ev('cfgopt_lists')
    r.ev('cfgopt_options', len(opts))
    r.ev('cfgopt_options_with_hint_bit', sum(1 for t, _ in opts if t & 0x80))
    if not grid:
        r.sig('cfgopt', carrier, len(opts), tuple(sorted({RU.cfg_type_class(t) for t, _ in opts}))[:3])
    what = lambda: f'options={[(hex(t), v.hex()) for t, v in opts]} ref={hx(ref, 80)}'  # noqa
    plain = lambda lst: [(int(t), bytes(v)) for t, v in lst]  # noqa

    def judge_decoded(data, clause_prefix):
        r.ev('from_bytes_checks')
        ok, got = ev.guarded(f'{clause_prefix}/parse', disc, lambda: F.decode_configuration_options(data), what)
        if not ok:
            return
        ev.check(plain(got) == opts, f'{clause_prefix}/value', cfgopt_diff_class(opts, plain(got)) if plain(got) != opts else disc,
                 lambda: f'{what()} decoded={[(hex(int(t)), bytes(v).hex()) for t, v in got]}')
        r.ev('rebuild_checks')
        ok, again = ev.guarded(f'{clause_prefix}/reserialise', disc, lambda: F.encode_configuration_options(got), what)
        if ok:
            ev.check(again == ref, f'{clause_prefix}/reserialise', disc, lambda: f'{what()} decode then encode={hx(again, 80)}')

    # fields -> octets
    r.ev('layout_checks')
    ok, b1 = ev.guarded('serialise', disc, lambda: F.encode_configuration_options(list(opts)), what)
    if ok:
        ev.check(b1 == ref, 'layout', disc, lambda: f'{what()} bumble={hx(b1, 80)}')
    if carrier == 'options':
        judge_decoded(ref, 'from-bytes')
        return
    ident, cid, flags = rng.randint(1, 255), rng.choice([0x40, 0x41, 0xFFFF, RU.gen_int(rng, 16)]), rng.choice([0, 1])
    if carrier == 'in-request':
        wire = RU.l2cap_configure_request(ident, cid, flags, ref)
        build = lambda: l2cap.L2CAP_Configure_Request(identifier=ident, destination_cid=cid, flags=flags, options=ref)  # noqa
        view = lambda o: (type(o).__name__, o.identifier, o.destination_cid, o.flags)  # noqa
        rebuild = lambda o, enc: l2cap.L2CAP_Configure_Request(identifier=o.identifier, destination_cid=o.destination_cid, flags=o.flags, options=enc)  # noqa
        want_view = ('L2CAP_Configure_Request', ident, cid, flags)
    else:
        result = rng.choice([0, 1, 2, 3, 4, 5])
        wire = RU.l2cap_configure_response(ident, cid, flags, result, ref)
        build = lambda: l2cap.L2CAP_Configure_Response(identifier=ident, source_cid=cid, flags=flags, result=result, options=ref)  # noqa
        view = lambda o: (type(o).__name__, o.identifier, o.source_cid, o.flags, int(o.result))  # noqa
        rebuild = lambda o, enc: l2cap.L2CAP_Configure_Response(identifier=o.identifier, source_cid=o.source_cid, flags=o.flags, result=o.result, options=enc)  # noqa
        want_view = ('L2CAP_Configure_Response', ident, cid, flags, result)
    whatf = lambda: f'{what()} frame={hx(wire, 100)}'  # noqa
    ok, obj = ev.guarded('build', disc, build, whatf)
    if ok:
        ok, b2 = ev.guarded('serialise', disc, lambda: bytes(obj), whatf)
        if ok:
            ev.check(b2 == wire, 'layout', disc, lambda: f'{whatf()} bumble={hx(b2, 100)}')
    r.ev('from_bytes_checks')
    ok, p = ev.guarded('from-bytes/parse', disc, lambda: F.from_bytes(wire), whatf)
    if not ok:
        return
    okv, pv = ev.guarded('from-bytes/value', disc, lambda: view(p), whatf)
    if okv:
        ev.check(pv == want_view, 'from-bytes/value', disc, lambda: f'{whatf()} parsed={pv}')
    ev.check(bytes(p.options) == ref, 'from-bytes/value', disc, lambda: f'{whatf()} parsed options octets={hx(p.options, 80)}')
    ev.check(bytes(p) == wire, 'from-bytes/reserialise', disc, lambda: f'{whatf()} again={hx(bytes(p), 100)}')
    judge_decoded(bytes(p.options), 'from-bytes/options')
    # rebuild the frame from the decoded list, the way ClassicChannel builds its answer from a received request
    okd, got = ev.guarded('rebuild', disc, lambda: F.decode_configuration_options(bytes(p.options)), whatf)
    if okd:
        r.ev('rebuild_checks')
        okr, b3 = ev.guarded('rebuild', disc, lambda: bytes(rebuild(p, F.encode_configuration_options(got))), whatf)
        if okr:
            ev.check(b3 == wire, 'rebuild', disc, lambda: f'{whatf()} rebuilt from the decoded list={hx(b3, 100)}')


def gen_cfg_option(rng):
    c = rng.random()
    if c < 0.35:      # a defined option with its defined length, maybe hinted
        base = rng.choice(sorted(RU.CFG_OPTION_LENGTHS))
        t = base | (0x80 if rng.random() < 0.4 else 0)
        n = RU.CFG_OPTION_LENGTHS[base]
    elif c < 0.6:     # boundary type octets
        t = rng.choice([0x00, 0x01, 0x07, 0x08, 0x7E, 0x7F, 0x80, 0x81, 0x85, 0x87, 0x88, 0xC5, 0xFE, 0xFF])
        n = rng.choice([0, 1, 2, 3, 4, 8])
    else:
        t = rng.getrandbits(8)
        n = rng.choice([0, 1, 2, 2, 3, 4, 5, 6, 7, 8, 9, 16, 22, 40, 255])
    return t, RU.rnd_bytes(rng, n)


def ev_cfgopt(ev: Ev, unit):
    rng = ev.rng
    ev.begin()
    k = rng.choice([0, 1, 1, 2, 2, 3, 4, 5])
    opts = [gen_cfg_option(rng) for _ in range(k)]
    cfgopt_one(ev, opts, unit)


def case_cfgopt_grid(case, r: R):
    """every type octet 0x00-0xFF x value lengths 0-8, 22, 23 and 255, alone (bare list and inside both frames) and
    as the middle option of a list of three"""
    rng = random.Random(f'cfgopt-grid/{case["seed"]}')
    n = 0
    for carrier in ('options', 'in-request', 'in-response'):
        ev = Ev(r, 'l2cap-cfgopt', carrier, rng)
        for t in range(256):
            for ln in list(range(0, 9)) + [22, 23, 255]:
                if carrier != 'options' and ln in (5, 6, 7, 23):
                    continue
                ev.begin()
                cfgopt_one(ev, [(t, RU.rnd_bytes(rng, ln))], carrier, grid=True)
                r.ev('cfgopt_grid_types_x_lengths')
                n += 1
            ev.begin()
            cfgopt_one(ev, [(0x01, b'\xa0\x02'), (t, RU.rnd_bytes(rng, 2)), (t ^ 0x80, RU.rnd_bytes(rng, 1))], carrier, grid=True)
            n += 1
    r.sig('cfgopt-grid', 'exhaustive')
    r.evals(n)
    r.sample = {'kind': 'cfgopt-grid', 'type_octets': '0x00-0xFF (all)', 'value_lengths': '0-8, 22, 23, 255',
                'carriers': ['bare option list', 'L2CAP_Configure_Request', 'L2CAP_Configure_Response'], 'lists': n}


def ev_unknown_code(ev: Ev, unit):
    """clause E: unregistered codes come back generic and re-serialise to the same bytes"""
    from bumble import att, l2cap, smp
    rng = ev.rng
    body = RU.rnd_bytes(rng, rng.choice([0, 1, 2, 7, 30]))
    ev.begin()
    if unit == 'l2cap-sig':
        known = {int(c) for c in l2cap.L2CAP_Control_Frame.classes}
        code = rng.choice([c for c in (0x0C, 0x0D, 0x0E, 0x0F, 0x10, 0x11, 0x1B, 0x7F, 0xFF) if c not in known])
        data = RU.l2cap_sig_bytes(code, rng.randint(1, 255), body)
        parse = l2cap.L2CAP_Control_Frame.from_bytes
    elif unit == 'att':
        known = {int(c) for c in att.ATT_PDU.pdu_classes}
        code = rng.choice([c for c in (0x14, 0x15, 0x1A, 0x1C, 0x1F, 0x22, 0x23, 0x3F, 0x7F) if c not in known])
        data = bytes([code]) + body
        parse = att.ATT_PDU.from_bytes
    else:
        known = {int(c) for c in smp.SMP_Command.smp_classes}
        code = rng.choice([c for c in (0x0F, 0x10, 0x7F, 0xFF) if c not in known])
        data = bytes([code]) + body
        parse = smp.SMP_Command.from_bytes
    ev.r.sig('unknown-code', unit, len(body) > 0)
    what = lambda: f'{unit} unknown code {code:#x}: {data.hex()}'  # noqa
    ev.r.ev('from_bytes_checks')
    ok, p = ev.guarded('generic/parse', None, lambda: parse(data), what)
    if ok:
        ok, b = ev.guarded('generic/reserialise', None, lambda: bytes(p), what)
        if ok:
            ev.check(b == data, 'generic/reserialise', 'unknown-code', lambda: f'{what()} re-serialised {b.hex()}')


# ---- SDP data elements -------------------------------------------------------------
def sdp_element(ev: Ev, e, unit, size_index=None, boundary=None):
    from bumble import sdp
    r = ev.r
    r.ev('sdp_elements')
    ref = RU.de_enc(e, size_index)
    cl = boundary or RU.de_class(e)
    classes = sorted({RU.de_class(x) for x in RU.de_walk(e)})
    r.sig('sdp-element', unit, cl, tuple(classes)[:6], size_index)
    what = lambda: f'element={short(e, 200)} ref={hx(ref, 120)} ({len(ref)} octets)'  # noqa
    if size_index is None:
        ok, obj = ev.guarded('build', cl, lambda: de_to_bumble(e), what)
        if ok:
            ok, b1 = ev.guarded('serialise', cl, lambda: bytes(obj), what)
        if ok:
            r.ev('layout_checks')
            ev.check(b1 == ref, 'layout', cl, lambda: f'{what()} bumble={hx(b1, 120)} ({len(b1)} octets)')
            okp, p = ev.guarded('parse', cl, lambda: sdp.DataElement.from_bytes(b1), what)
            if okp:
                ev.eq_values(e, de_norm(p), 'value', cl, lambda: f'{what()} parsed={short(de_norm(p), 200)}')
                ev.check(bytes(p) == b1, 'reserialise', cl, lambda: f'{what()} again={hx(bytes(p), 120)}')
    r.ev('from_bytes_checks')
    pad = bytes(ev.rng.choice([0, 0, 3]))
    okp, res = ev.guarded('from-bytes/parse', cl, lambda: sdp.DataElement.parse_from_bytes(pad + ref + b'\x00', len(pad)), what)
    if not okp:
        return
    end, p = res
    ev.check(end == len(pad) + len(ref), 'from-bytes/offset', cl, lambda: f'{what()} end offset {end}')
    okn, got = ev.guarded('from-bytes/value', cl, lambda: de_norm(p), what)
    if okn:
        ev.eq_values(e, got, 'from-bytes/value', cl, lambda: f'{what()} parsed={short(got, 200)}')
    oks, b2 = ev.guarded('from-bytes/reserialise', cl, lambda: bytes(p), what)
    if oks:
        ev.check(b2 == ref, 'from-bytes/reserialise', cl, lambda: f'{what()} again={hx(b2, 120)}')
    if size_index is None and okn:
        r.ev('rebuild_checks')

        def rebuild(d):
            D = sdp.DataElement
            if d.type in (D.SEQUENCE, D.ALTERNATIVE):
                return D(d.type, [rebuild(x) for x in d.value])
            return D(d.type, d.value, d.value_size)
        okb, b3 = ev.guarded('from-bytes/rebuild', cl, lambda: bytes(rebuild(p)), what)
        if okb:
            ev.eq_values(ref, b3, 'from-bytes/rebuild', cl, lambda: f'{what()} rebuilt={hx(b3, 120)}')


def ev_sdp_element(ev: Ev, unit):
    rng = ev.rng
    ev.begin()
    if unit == 'int128':
        t = rng.choice(['uint', 'sint'])
        v = RU.gen_int(rng, 128) if t == 'uint' else rng.choice([0, -1, (1 << 127) - 1, -(1 << 127), rng.getrandbits(127)])
        sdp_element(ev, (t, 16, v), unit)
    elif unit == 'nonminimal':
        e = rng.choice([('text', RU.rnd_bytes(rng, rng.choice([0, 3, 200]))), ('url', RU.gen_str(rng, 40)),
                        ('seq', [RU.de_gen(rng, 1, 2) for _ in range(rng.choice([0, 1, 3]))])])
        sdp_element(ev, e, unit, size_index=rng.choice([6, 7]), boundary=f'{e[0]}/wider-size-field')
    elif unit == 'wide':
        # many sibling lists (empty and not) at shallow depth: nesting bookkeeping must not accumulate over siblings
        n = rng.choice([3, 31, 32, 33, 40, 100, 300])
        kids = []
        for i in range(n):
            k = rng.choice(['empty', 'empty', 'one', 'deep'])
            kids.append((rng.choice(['seq', 'alt']), [] if k == 'empty' else [('uint', 1, i & 0xFF)] if k == 'one'
                         else [('seq', [('seq', [])]), ('nil',)]))
        kids.append(('seq', [('seq', [('uint', 2, n)])]))
        e = ('seq', kids)
        if rng.random() < 0.5:
            e = ('seq', [e, ('alt', [])])
        sdp_element(ev, e, unit, boundary=f'siblings{"<=32" if n <= 32 else ">32"}')
        r = ev.r
        r.ev('sdp_wide_elements')
    elif unit == 'nested':
        depth = rng.choice([2, 4, 8, 16, 31])
        e = ('uint', 1, 7)
        for i in range(depth):
            e = (rng.choice(['seq', 'alt']), [e] + ([('nil',)] if i % 3 == 0 else []))
        sdp_element(ev, e, unit, boundary=f'depth<={depth}')
    else:
        for _ in range(50):
            e = RU.de_gen(rng, 0, 4)
            if unit == 'any' or e[0] == unit:
                break
        ev.unit = 'element'  # the generator bias (unit) is not part of the mechanism
        sdp_element(ev, e, 'element')
        ev.unit = unit


def case_sdp_bounds(case, r: R):
    rng = random.Random(f'sdp-bounds/{case["seed"]}')
    ev = Ev(r, 'sdp-element', 'size-boundary', rng)
    for total in (254, 255, 256, 257, 65534, 65535, 65536, 65537):
        for kind in ('text', 'url', 'seq', 'alt'):
            ev.begin()
            r.ev('sdp_size_boundaries')
            if kind == 'text':
                e = ('text', RU.rnd_bytes(rng, total))
            elif kind == 'url':
                e = ('url', 'u' * total)
            else:
                e = RU.de_padded_seq(kind, total, rng)
            sdp_element(ev, e, 'size-boundary', boundary=f'{kind}/size={total}')
            if total >= 65535 and kind in ('text', 'seq'):
                ev.begin()
                # the same element nested: the outer size field crosses its own boundary
                sdp_element(ev, ('seq', [e]), 'size-boundary', boundary=f'{kind}/size={total}/nested')
    r.evals(1)
    r.sample = {'kind': 'sdp-bounds', 'sizes': [254, 255, 256, 257, 65534, 65535, 65536, 65537], 'types': ['text', 'url', 'seq', 'alt']}


# ---- RFCOMM ------------------------------------------------------------------------
def rfcomm_one(ev: Ev, ftype_name, c_r, dlci, p_f, payload: bytes, credits):
    from bumble import rfcomm
    r = ev.r
    r.ev('rfcomm_frames')
    FT = rfcomm.FrameType
    ft = {'sabm': FT.SABM, 'ua': FT.UA, 'dm': FT.DM, 'disc': FT.DISC, 'uih': FT.UIH}[ftype_name]
    ref = RU.rfcomm_frame(int({'sabm': RU.RFCOMM_SABM, 'ua': RU.RFCOMM_UA, 'dm': RU.RFCOMM_DM, 'disc': RU.RFCOMM_DISC,
                                'uih': RU.RFCOMM_UIH}[ftype_name]), c_r, dlci, p_f, payload, credits)
    unit = 'uih-credit' if credits is not None else ftype_name
    n = len(payload)
    disc = 'payload=127' if n == 127 else ('len1' if n <= 127 else 'len2')
    info = (bytes([credits]) if credits is not None else b'') + payload
    r.sig('rfcomm', unit, disc, c_r, p_f, dlci == 0)
    what = lambda: f'{unit} c_r={c_r} dlci={dlci} p_f={p_f} payload={n} octets credits={credits} ref={hx(ref, 60)}'  # noqa

    def make():
        if ftype_name == 'uih':
            return rfcomm.RFCOMM_Frame.uih(c_r, dlci, info, p_f)
        return rfcomm.RFCOMM_Frame(ft, c_r, dlci, p_f)

    def view(p):
        return (int(p.type), int(p.c_r), int(p.dlci), int(p.p_f), bytes(p.information))

    def remake(p):
        if int(p.type) == int(FT.UIH):
            return rfcomm.RFCOMM_Frame.uih(p.c_r, p.dlci, p.information, p.p_f)
        return rfcomm.RFCOMM_Frame(p.type, p.c_r, p.dlci, p.p_f)
    want = (int(ft), c_r, dlci, p_f, info)
    ok, obj = ev.guarded('build', disc, make, what)
    if ok:
        ok, b1 = ev.guarded('serialise', disc, lambda: bytes(obj), what)
    if ok:
        r.ev('layout_checks')
        ev.check(b1 == ref, 'layout', disc, lambda: f'{what()} bumble={hx(b1, 60)}', unit)
        okp, p = ev.guarded('parse', disc, lambda: rfcomm.RFCOMM_Frame.from_bytes(b1), what)
        if okp:
            ev.check(view(p) == want, 'value', disc, lambda: f'{what()} parsed={short(view(p), 120)}', unit)
            ev.check(bytes(p) == b1, 'reserialise', disc, lambda: f'{what()} b1={hx(b1, 40)} again={hx(bytes(p), 40)}', unit)
            r.ev('rebuild_checks')
            okb, b3 = ev.guarded('rebuild', disc, lambda: bytes(remake(p)), what)
            if okb:
                ev.check(b3 == b1, 'rebuild', disc, lambda: f'{what()} rebuilt={hx(b3, 40)}', unit)
    r.ev('from_bytes_checks')
    okp, p = ev.guarded('from-bytes/parse', disc, lambda: rfcomm.RFCOMM_Frame.from_bytes(ref), what)
    if okp:
        ev.check(view(p) == want, 'from-bytes/value', disc, lambda: f'{what()} parsed={short(view(p), 120)}', unit)
        ev.check(bytes(p) == ref, 'from-bytes/reserialise', disc, lambda: f'{what()} again={hx(bytes(p), 40)}', unit)
        okb, b3 = ev.guarded('from-bytes/rebuild', disc, lambda: bytes(remake(p)), what)
        if okb:
            ev.check(b3 == ref, 'from-bytes/rebuild', disc, lambda: f'{what()} rebuilt={hx(b3, 40)}', unit)


def ev_rfcomm_frame(ev: Ev, unit):
    rng = ev.rng
    ev.begin()
    c_r, p_f = rng.randint(0, 1), rng.randint(0, 1)
    dlci = rng.choice([0, 2, 3, 61, rng.randint(2, 61)])
    if unit in ('sabm', 'ua', 'dm', 'disc'):
        rfcomm_one(ev, unit, c_r, dlci, p_f, b'', None)
        return
    n = rng.choice([0, 1, 2, 126, 127, 128, 129, 255, 256, 1000, rng.randint(0, 300), rng.choice([16383, 16384, 32767])])
    payload = RU.rnd_bytes(rng, n)
    if unit == 'uih-credit':
        rfcomm_one(ev, 'uih', c_r, max(dlci, 2), 1, payload, rng.choice([0, 1, 7, 255, rng.randint(0, 255)]))
    else:
        rfcomm_one(ev, 'uih', c_r, dlci, 0, payload, None)


def case_rfcomm_grid(case, r: R):
    rng = random.Random(f'rfcomm-grid/{case["seed"]}')
    ev = Ev(r, 'rfcomm-frame', 'grid', rng)
    for n in list(range(0, 4)) + list(range(120, 136)) + [254, 255, 256, 257, 16383, 16384, 32766, 32767]:
        for c_r in (0, 1):
            for dlci in (0, 2, 61):
                ev.begin()
                rfcomm_one(ev, 'uih', c_r, dlci, 0, RU.rnd_bytes(rng, n), None)
                if dlci:
                    ev.begin()
                    rfcomm_one(ev, 'uih', c_r, dlci, 1, RU.rnd_bytes(rng, n), rng.randint(0, 255))
    for t in ('sabm', 'ua', 'dm', 'disc'):
        for c_r in (0, 1):
            for p_f in (0, 1):
                for dlci in range(0, 64):
                    ev.begin()
                    rfcomm_one(ev, t, c_r, dlci, p_f, b'', None)
    r.evals(1)
    r.sample = {'kind': 'rfcomm-grid', 'payload_lengths': '0-3,120-135,254-257,16383,16384,32766,32767', 'with_and_without_credit': True}


def ev_rfcomm_mcc(ev: Ev, unit):
    from bumble import rfcomm
    rng, r = ev.rng, ev.r
    ev.begin()
    if unit == 'mcc':
        t = rng.choice([0x20, 0x38, 0x08, 0x28, 0x04, rng.randint(0, 0x3F)])
        c_r = rng.randint(0, 1)
        n = rng.choice([0, 1, 2, 8, 126, 127, 128, 129, 300, rng.randint(0, 140)])
        value = RU.rnd_bytes(rng, n)
        ref = RU.rfcomm_mcc(t, c_r, value)
        disc = 'len1' if n <= 127 else 'len2'
        r.sig('rfcomm-mcc', disc, c_r, n in (126, 127, 128, 129))
        what = lambda: f'mcc type={t:#x} c_r={c_r} value={n} octets ref={hx(ref, 40)}'  # noqa
        ok, b1 = ev.guarded('serialise', disc, lambda: rfcomm.RFCOMM_Frame.make_mcc(t, c_r, value), what)
        if ok:
            r.ev('layout_checks')
            ev.check(b1 == ref, 'layout', disc, lambda: f'{what()} bumble={hx(b1, 40)}')
            okp, res = ev.guarded('parse', disc, lambda: rfcomm.RFCOMM_Frame.parse_mcc(b1), what)
            if okp:
                ev.check((int(res[0]), int(res[1]), bytes(res[2])) == (t, c_r, value), 'value', disc,
                         lambda: f'{what()} parsed=({res[0]}, {res[1]}, {len(res[2])} octets {hx(res[2], 20)})')
        r.ev('from_bytes_checks')
        okp, res = ev.guarded('from-bytes/parse', disc, lambda: rfcomm.RFCOMM_Frame.parse_mcc(ref), what)
        if okp:
            ev.check((int(res[0]), int(res[1]), bytes(res[2])) == (t, c_r, value), 'from-bytes/value', disc,
                     lambda: f'{what()} parsed=({res[0]}, {res[1]}, {len(res[2])} octets {hx(res[2], 20)})')
        return
    if unit == 'pn':
        v = (rng.randint(0, 63), rng.choice([0x00, 0xF0, 0xE0, rng.randint(0, 255)]), rng.randint(0, 63), rng.randint(0, 255),
             RU.gen_int(rng, 16), rng.randint(0, 255), rng.randint(0, 7))
        ref = RU.rfcomm_pn(*v)
        names = ('dlci', 'cl', 'priority', 'ack_timer', 'max_frame_size', 'max_retransmissions', 'initial_credits')
        C = rfcomm.RFCOMM_MCC_PN
    else:
        v = (rng.randint(0, 63), rng.randint(0, 1), rng.randint(0, 1), rng.randint(0, 1), rng.randint(0, 1), rng.randint(0, 1))
        ref = RU.rfcomm_msc(*v)
        names = ('dlci', 'fc', 'rtc', 'rtr', 'ic', 'dv')
        C = rfcomm.RFCOMM_MCC_MSC
    r.sig('rfcomm-mcc', unit, v[1:] if unit == 'msc' else (v[1], v[6]))
    what = lambda: f'{unit} {dict(zip(names, v))} ref={ref.hex()}'  # noqa
    view = lambda p: tuple(int(getattr(p, n)) for n in names)  # noqa
    ok, obj = ev.guarded('build', None, lambda: C(**dict(zip(names, v))), what)
    if ok:
        ok, b1 = ev.guarded('serialise', None, lambda: bytes(obj), what)
    if ok:
        r.ev('layout_checks')
        pos = next((i for i in range(min(len(b1), len(ref))) if b1[i] != ref[i]), 0)
        ev.check(b1 == ref, 'layout', f'octet{pos}', lambda: f'{what()} bumble={b1.hex()}')
        okp, p = ev.guarded('parse', None, lambda: C.from_bytes(b1), what)
        if okp:
            ev.check(view(p) == v, 'value', None, lambda: f'{what()} parsed={p!r}')
            ev.check(bytes(p) == b1, 'reserialise', None, lambda: f'{what()} again={bytes(p).hex()}')
    r.ev('from_bytes_checks')
    okp, p = ev.guarded('from-bytes/parse', None, lambda: C.from_bytes(ref), what)
    if okp:
        ev.check(view(p) == v, 'from-bytes/value', None, lambda: f'{what()} parsed={p!r}')
        ev.check(bytes(p) == ref, 'from-bytes/reserialise', None, lambda: f'{what()} again={bytes(p).hex()}')
        r.ev('rebuild_checks')
        okb, b3 = ev.guarded('from-bytes/rebuild', None, lambda: bytes(C(**{n: getattr(p, n) for n in names})), what)
        if okb:
            ev.check(b3 == ref, 'from-bytes/rebuild', None, lambda: f'{what()} rebuilt={b3.hex()}')


# ---- AVCTP / AV-C / AVRCP specials ------------------------------------------------------
def ev_avctp(ev: Ev, unit):
    from bumble import avctp
    rng, r = ev.rng, ev.r
    ev.begin()
    label = rng.randint(0, 15)
    is_command = rng.random() < 0.5
    ipid = (not is_command) and rng.random() < 0.3
    pid = rng.choice([0x110E, 0x110C, 0x0001, 0xFFFF, RU.gen_int(rng, 16)])
    payload = b'' if ipid else RU.rnd_bytes(rng, RU.gen_len(rng, 300))
    ref = RU.avctp_single(label, is_command, ipid, pid, payload)
    disc = 'command' if is_command else ('ipid' if ipid else 'response')
    r.sig('avctp', disc, length_class(len(payload)))
    what = lambda: f'avctp label={label} {disc} pid={pid:#x} payload={hx(payload, 40)} ref={hx(ref, 40)}'  # noqa
    ch = _Chan()
    proto = avctp.Protocol.__new__(avctp.Protocol)
    proto.l2cap_channel = ch
    ok, _ = ev.guarded('serialise', disc, lambda: avctp.Protocol.send_message(proto, label, is_command, ipid, pid, payload), what)
    b1 = ch.out[0] if ok and len(ch.out) == 1 else None
    if ok:
        r.ev('layout_checks')
        ev.check(b1 == ref, 'layout', disc, lambda: f'{what()} written={[hx(x, 40) for x in ch.out]}')
    for clause, data in (('', b1), ('from-bytes/', ref)):
        if data is None:
            continue
        got = []
        asm = avctp.MessageAssembler(lambda *a: got.append(a))
        if clause:
            r.ev('from_bytes_checks')
        okp, _ = ev.guarded(clause + 'parse', disc, lambda: asm.on_pdu(data), what)
        if okp:
            want = [(label, is_command, bool(ipid), pid, payload)]
            ev.check([(a, bool(b), bool(c), d, bytes(e)) for a, b, c, d, e in got] == want, clause + 'value', disc,
                     lambda: f'{what()} assembler delivered {short(got, 200)}')


AVC_SHAPES = ('VendorDependentCommandFrame', 'VendorDependentResponseFrame', 'PassThroughCommandFrame',
              'PassThroughResponseFrame', 'CommandFrame', 'ResponseFrame')
# subunit IDs at every switch-over of the extension encoding: 0..4 and 7 live in the three-bit field, 6..259 take ONE
# extension octet (ID - 5 = 0x01..0xFE), 260..514 take the escape 0xFF plus a second octet (ID - 259 = 0x01..0xFF)
AVC_EXTENDED_SIDS = (6, 8, 9, 100, 257, 258, 259, 260, 261, 262, 300, 512, 513, 514)


def avc_sid_class(sid):
    if sid < 5 or sid == 7:
        return None
    return 'extended-subunit-id/one-extension-octet' if sid <= 259 else 'extended-subunit-id/two-extension-octets'


def ev_avc(ev: Ev, unit, force=None):
    """force = {'shape':, 'sid':, 'st':} pins the frame class, subunit ID and subunit type (grid cases)"""
    from bumble import avc
    rng, r = ev.rng, ev.r
    ev.begin()
    force = force or {}
    extended = unit == 'extended-subunit'
    if extended:
        unit = rng.choice(AVC_SHAPES)       # the extension octets precede the opcode of EVERY frame class
    unit = force.get('shape', unit)
    is_cmd = 'Command' in unit
    code = rng.choice([0, 1, 2, 3, 4]) if is_cmd else rng.choice([0x8, 0x9, 0xA, 0xB, 0xC, 0xD, 0xF])
    st = rng.choice([0x09, 0x1F, 0x00, 0x01, 0x1C, rng.choice([int(x) for x in avc.Frame.SubunitType if int(x) != 0x1E])])
    sid = rng.choice([0, 0, 1, 4, 7])
    disc = None
    if unit.startswith('VendorDependent'):
        cid = rng.choice([0x001958, 0, 0xFFFFFF, rng.getrandbits(24)])
        data = RU.rnd_bytes(rng, RU.gen_len(rng, 300))
        opcode, operands = 0x00, RU.avc_vendor_operands(cid, data)
        want = {'company_id': cid, 'vendor_dependent_data': data}
        args = (cid, data)
    elif unit.startswith('PassThrough'):
        sf, op = rng.randint(0, 1), rng.choice([0x44, 0x46, 0x7E, 0x00, 0x41, rng.randint(0, 0x7F)])
        data = RU.rnd_bytes(rng, rng.choice([0, 0, 1, 2, 5, 255]))
        opcode, operands = 0x7C, RU.avc_passthrough_operands(sf, op, data)
        want = {'state_flag': sf, 'operation_id': op, 'operation_data': data}
        args = (avc.PassThroughFrame.StateFlag(sf), avc.PassThroughFrame.OperationId(op), data)
        disc = 'operation-data-nonempty' if data else 'operation-data-empty'
    else:
        known = {int(k) for k in avc.CommandFrame.subclasses} | {int(k) for k in avc.ResponseFrame.subclasses}
        opcode = rng.choice([o for o in (0x30, 0x31, 0x02, 0xB0, 0x7D, 0x20, rng.randint(1, 0xFF)) if o not in known])
        operands = RU.rnd_bytes(rng, rng.choice([0, 1, 5, 40]))
        want = {'operands': operands}
        args = (avc.Frame.OperationCode(opcode), operands)
    if extended:
        sid = rng.choice(AVC_EXTENDED_SIDS) if rng.random() < 0.8 else rng.randint(6, 5 + 254 + 255)
    sid, st = force.get('sid', sid), force.get('st', st)
    if avc_sid_class(sid):
        disc = avc_sid_class(sid)
        r.ev('avc_extended_subunit_ids')
        r.ev('avc_subunit_id_switch_over_values', 1 if sid in (258, 259, 260, 261, 513, 514, 6) else 0)
    ref = RU.avc_frame(code, st, sid, opcode, operands)
    cls = getattr(avc, unit)
    r.sig('avc', unit, disc, code, sid)
    what = lambda: f'{unit} code={code:#x} subunit_type={st:#x} subunit_id={sid} opcode={opcode:#x} {short(want, 160)} ref={hx(ref, 60)}'  # noqa

    def view(p):
        d = {'code': int(p.ctype if is_cmd else p.response), 'st': int(p.subunit_type), 'sid': int(p.subunit_id), 'opcode': int(p.opcode)}
        for k in want:
            v = getattr(p, k)
            d[k] = bytes(v) if isinstance(v, (bytes, bytearray)) else int(v)
        return d
    wantv = {'code': code, 'st': st, 'sid': sid, 'opcode': opcode, **want}
    codeobj = avc.CommandFrame.CommandType(code) if is_cmd else avc.ResponseFrame.ResponseCode(code)
    ok, obj = ev.guarded('build', disc, lambda: cls(codeobj, avc.Frame.SubunitType(st), sid, *args), what)
    if ok:
        ok, b1 = ev.guarded('serialise', disc, lambda: bytes(obj), what)
    if ok:
        r.ev('layout_checks')
        if disc and disc.startswith('extended'):
            r.ev('avc_extended_subunit_ids_built')
        ev.check(b1 == ref, 'layout', disc, lambda: f'{what()} bumble={hx(b1, 60)}')
        okp, p = ev.guarded('parse', disc, lambda: avc.Frame.from_bytes(b1), what)
        if okp:
            ev.check(type(p) is cls, 'parse-class', type(p).__name__, lambda: f'{what()} parsed as {type(p).__name__}')
            okv, got = ev.guarded('value', disc, lambda: view(p), what)
            if okv:
                ev.check(got == wantv, 'value', disc, lambda: f'{what()} parsed={short(got, 200)}')
            ev.check(bytes(p) == b1, 'reserialise', disc, lambda: f'{what()} again={hx(bytes(p), 60)}')
    r.ev('from_bytes_checks')
    okp, p = ev.guarded('from-bytes/parse', disc, lambda: avc.Frame.from_bytes(ref), what)
    if okp:
        okv, got = ev.guarded('from-bytes/value', disc, lambda: view(p), what)
        if okv:
            ev.check(got == wantv, 'from-bytes/value', disc, lambda: f'{what()} parsed={short(got, 200)}')
        oks, b2 = ev.guarded('from-bytes/reserialise', disc, lambda: bytes(p), what)
        if oks:
            ev.check(b2 == ref, 'from-bytes/reserialise', disc, lambda: f'{what()} again={hx(b2, 60)}')


def ev_avrcp_special(ev: Ev, unit):
    from bumble import avrcp
    rng, r = ev.rng, ev.r
    ev.begin()
    if unit == 'GetCapabilitiesResponse':
        if rng.random() < 0.5:
            cap_id, caps = 2, [rng.choice([0x001958, rng.getrandbits(24)]).to_bytes(3, 'big') for _ in range(rng.choice([1, 2, 5]))]
            ref = bytes([2, len(caps)]) + b''.join(caps)
            build_caps, want = caps, caps
            disc = 'company-id'
        else:
            ids = rng.sample(range(1, 14), rng.choice([1, 2, 13]))
            cap_id, ref = 3, bytes([3, len(ids)] + ids)
            build_caps, want = [avrcp.EventId(i) for i in ids], [bytes([i]) for i in ids]
            disc = 'events'
        r.sig('avrcp-special', unit, disc, len(want))
        what = lambda: f'{unit} {disc} {short(want, 100)} ref={ref.hex()}'  # noqa
        view = lambda p: (int(p.capability_id), [bytes(c) for c in p.capabilities])  # noqa
        ok, obj = ev.guarded('build', disc, lambda: avrcp.GetCapabilitiesResponse(avrcp.GetCapabilitiesCommand.CapabilityId(cap_id), build_caps), what)
        if ok:
            b1 = bytes(obj)
            r.ev('layout_checks')
            ev.check(b1 == ref, 'layout', disc, lambda: f'{what()} bumble={b1.hex()}')
        r.ev('from_bytes_checks')
        okp, p = ev.guarded('from-bytes/parse', disc, lambda: avrcp.Response.from_bytes(ref, avrcp.PduId.GET_CAPABILITIES), what)
        if okp:
            ev.check(view(p) == (cap_id, want), 'from-bytes/value', disc, lambda: f'{what()} parsed={view(p)}')
            ev.check(bytes(p) == ref, 'from-bytes/reserialise', disc, lambda: f'{what()} again={bytes(p).hex()}')
        return
    if unit == 'RegisterNotificationResponse':
        F = GENERIC_BY_NAME['avrcp-evt']
        name = rng.choice(sorted(set(F.classes()) & set(F.ref)))
        fields = F.fields(name)
        values = RU.gen_fields(fields, rng)
        if name == 'PlayerApplicationSettingChangedEvent':
            # extension attribute ids are exercised by the avrcp-evt unit itself
            values = [[((1 + (a - 1) % 4, v),) for ((a, v),) in values[0]]]
        ref = F.frame(name, {}, RU.enc_fields(fields, values))
        r.sig('avrcp-special', unit, name)
        what = lambda: f'{unit}({name}) values={short(values, 200)} ref={hx(ref, 80)}'  # noqa
        ok, obj = ev.guarded('build', name, lambda: avrcp.RegisterNotificationResponse(F.classes()[name](**to_kwargs(fields, values))), what)
        if ok:
            ok, b1 = ev.guarded('serialise', name, lambda: bytes(obj), what)
        if ok:
            r.ev('layout_checks')
            ev.check(b1 == ref, 'layout', name, lambda: f'{what()} bumble={hx(b1, 80)}')
        r.ev('from_bytes_checks')
        okp, p = ev.guarded('from-bytes/parse', name, lambda: avrcp.Response.from_bytes(ref, avrcp.PduId.REGISTER_NOTIFICATION), what)
        if okp:
            ev.check(type(p.event).__name__ == name, 'from-bytes/parse-class', name, lambda: f'{what()} event parsed as {type(p.event).__name__}')
            okv, got = ev.guarded('from-bytes/value', name, lambda: from_obj(fields, p.event), what)
            if okv:
                ev.check(got == values, 'from-bytes/value', name, lambda: f'{what()} parsed={short(got, 200)}')
            ev.check(bytes(p) == ref, 'from-bytes/reserialise', name, lambda: f'{what()} again={hx(bytes(p), 80)}')
            r.ev('rebuild_checks')
            okb, b3 = ev.guarded('from-bytes/rebuild', name, lambda: bytes(avrcp.RegisterNotificationResponse(p.event)), what)
            if okb:
                ev.check(b3 == ref, 'from-bytes/rebuild', name, lambda: f'{what()} rebuilt={hx(b3, 80)}')
        return
    if unit == 'GetFolderItemsResponse':
        F = GENERIC_BY_NAME['avrcp-item']
        names = [rng.choice(sorted(set(F.classes()) & set(F.ref))) for _ in range(rng.choice([0, 1, 2, 3]))]
        vals = [RU.gen_fields(F.fields(n), rng) for n in names]
        item_refs = [F.frame(n, {}, RU.enc_fields(F.fields(n), v)) for n, v in zip(names, vals)]
        status, uidc = rng.choice([4, 0x0B]), RU.gen_int(rng, 16)
        ref = struct.pack('>BHH', status, uidc, len(names)) + b''.join(item_refs)
        disc = f'items={min(len(names), 2)}'
        r.sig('avrcp-special', unit, tuple(names))
        what = lambda: f'{unit} status={status} uid_counter={uidc} items={names} ref={hx(ref, 120)}'  # noqa
        ok, obj = ev.guarded('build', disc, lambda: avrcp.GetFolderItemsResponse(
            status=avrcp.StatusCode(status), uid_counter=uidc,
            items=[F.classes()[n](**to_kwargs(F.fields(n), v)) for n, v in zip(names, vals)]), what)
        if ok:
            ok, b1 = ev.guarded('serialise', disc, lambda: bytes(obj), what)
        if ok:
            r.ev('layout_checks')
            wrong = next((n for n, it, ir in zip(names, obj.items, item_refs) if bytes(it) != ir), None)
            ev.check(b1 == ref, 'layout', f'item:{wrong}' if wrong else 'header', lambda: f'{what()} bumble={hx(b1, 120)}')
        r.ev('from_bytes_checks')
        okp, p = ev.guarded('from-bytes/parse', disc, lambda: avrcp.Response.from_bytes(ref, avrcp.PduId.GET_FOLDER_ITEMS), what)
        if okp:
            ev.check((int(p.status), int(p.uid_counter), [type(i).__name__ for i in p.items]) == (status, uidc, names),
                     'from-bytes/value', 'header-or-item-class', lambda: f'{what()} parsed status={p.status} uid={p.uid_counter} items={[type(i).__name__ for i in p.items]}')
            for i, (n, v) in enumerate(zip(names, vals)):
                if i < len(p.items) and type(p.items[i]).__name__ == n:
                    okv, got = ev.guarded('from-bytes/value', n, lambda: from_obj(F.fields(n), p.items[i]), what)
                    if okv:
                        ev.check(got == v, 'from-bytes/value', f'item/{n}', lambda: f'{what()} item {i} parsed={short(got, 200)}')
                    okb, bi = ev.guarded('from-bytes/item-reserialise', n, lambda: bytes(p.items[i]), what)
                    if okb:
                        ev.check(bi == item_refs[i], 'from-bytes/item-reserialise', f'item-index={min(i, 1)}',
                                 lambda: f'{what()} item {i} of the parsed response serialises to {hx(bi, 80)}, expected {hx(item_refs[i], 80)}')
            ev.check(bytes(p) == ref, 'from-bytes/reserialise', disc, lambda: f'{what()} again={hx(bytes(p), 120)}')
            r.ev('rebuild_checks')
            okb, b3 = ev.guarded('from-bytes/rebuild', disc, lambda: bytes(avrcp.GetFolderItemsResponse(
                status=p.status, uid_counter=p.uid_counter, items=list(p.items))), what)
            if okb:
                ev.check(b3 == ref, 'from-bytes/rebuild', disc, lambda: f'{what()} rebuilt={hx(b3, 120)}')
        return
    if unit == 'pdu-header':
        # AVRCP 6.3.1: PDU id, packet type, parameter length U16, parameters -- through PduAssembler
        pdu_id = rng.choice([0x10, 0x20, 0x31, 0x50])
        params = RU.rnd_bytes(rng, RU.gen_len(rng, 300))
        ref = RU.avrcp_pdu(pdu_id, 0, params)
        r.sig('avrcp-special', unit, length_class(len(params)))
        got = []
        asm = avrcp.PduAssembler(lambda i, p: got.append((int(i), bytes(p))))
        r.ev('from_bytes_checks')
        okp, _ = ev.guarded('from-bytes/parse', None, lambda: asm.on_pdu(ref), lambda: f'ref={hx(ref, 60)}')
        if okp:
            ev.check(got == [(pdu_id, params)], 'from-bytes/value', None, lambda: f'ref={hx(ref, 60)} delivered={short(got, 120)}')
        return
    # Rejected / NotImplemented
    pdu_id = avrcp.PduId(rng.choice([0x10, 0x31, 0x50]))
    if unit == 'RejectedResponse':
        sc = rng.choice([0, 1, 2, 3, 4, 0x16])
        ref = bytes([sc])
        r.sig('avrcp-special', unit, sc)
        ok, b1 = ev.guarded('serialise', None, lambda: bytes(avrcp.RejectedResponse(pdu_id, avrcp.StatusCode(sc))), lambda: f'status {sc}')
        if ok:
            r.ev('layout_checks')
            ev.check(b1 == ref, 'layout', None, lambda: f'status={sc} bumble={b1.hex()}')
        r.ev('from_bytes_checks')
        okp, p = ev.guarded('from-bytes/parse', None, lambda: avrcp.RejectedResponse.from_bytes(ref, pdu_id), lambda: f'status {sc}')
        if okp:
            ev.check(int(p.status_code) == sc and bytes(p) == ref, 'from-bytes/value', None, lambda: f'status={sc} parsed={p!r} bytes={bytes(p).hex()}')
    else:
        params = RU.rnd_bytes(rng, rng.choice([0, 1, 9]))
        r.sig('avrcp-special', unit, len(params))
        r.ev('from_bytes_checks')
        okp, p = ev.guarded('from-bytes/parse', None, lambda: avrcp.NotImplementedResponse.from_bytes(params, pdu_id), lambda: params.hex())
        if okp:
            ev.check(bytes(p.parameters) == params and bytes(p) == params, 'from-bytes/value', None, lambda: f'params={params.hex()} parsed={p!r}')


# ---- RTP ---------------------------------------------------------------------------------
def ev_rtp(ev: Ev, unit, force=None):
    from bumble import rtp
    rng, r = ev.rng, ev.r
    ev.begin()
    force = force or {}
    ncsrc = force.get('ncsrc', rng.choice([0, 0, 1, 2, 3, 15, rng.randint(0, 15)]))
    v = dict(version=rng.choice([2, 2, 0, 3]), padding=force.get('padding', rng.randint(0, 1)),
             extension=force.get('extension', rng.randint(0, 1)), marker=force.get('marker', rng.randint(0, 1)),
             sequence_number=RU.gen_int(rng, 16), timestamp=RU.gen_int(rng, 32), ssrc=RU.gen_int(rng, 32),
             csrc_list=[RU.gen_int(rng, 32) if i % 2 else rng.getrandbits(32) for i in range(ncsrc)],
             payload_type=rng.choice([96, 0, 127, rng.randint(0, 127)]))
    payload = RU.rnd_bytes(rng, RU.gen_len(rng, 700))
    if v['extension']:
        words = rng.choice([0, 1, 3])
        payload = struct.pack('>HH', rng.getrandbits(16), words) + RU.rnd_bytes(rng, 4 * words) + payload
    if v['padding']:
        pad = rng.choice([1, 2, 4, 255])
        payload = payload + bytes(pad - 1) + bytes([pad])
    ref = RU.rtp_packet(v['version'], v['padding'], v['extension'], v['marker'], v['payload_type'], v['sequence_number'],
                        v['timestamp'], v['ssrc'], v['csrc_list'], payload)
    disc = f'csrc={min(ncsrc, 2)}{"+" if ncsrc >= 2 else ""}'
    r.sig('rtp', disc, v['padding'], v['extension'], v['marker'], length_class(len(payload)))
    what = lambda: f'rtp {short(v, 300)} payload={len(payload)} octets ref={hx(ref, 80)}'  # noqa
    names = list(v) + ['payload']

    def view(p):
        return {**{k: (list(getattr(p, k)) if k == 'csrc_list' else int(getattr(p, k))) for k in v}, 'payload': bytes(p.payload)}
    want = {**v, 'payload': payload}
    ok, obj = ev.guarded('build', disc, lambda: rtp.MediaPacket(payload=payload, **v), what)
    if ok:
        ok, b1 = ev.guarded('serialise', disc, lambda: bytes(obj), what)
    if ok:
        r.ev('layout_checks')
        ev.check(b1 == ref, 'layout', disc, lambda: f'{what()} bumble={hx(b1, 80)}')
        okp, p = ev.guarded('parse', disc, lambda: rtp.MediaPacket.from_bytes(b1), what)
        if okp:
            ev.remember(rtp.MediaPacket.from_bytes, b1, p)
            got = view(p)
            bad = next((k for k in names if got[k] != want[k]), None)
            ev.check(bad is None, 'value', f'{bad}/{disc}', lambda: f'{what()} parsed={short(got, 300)}')
            ev.check(bytes(p) == b1, 'reserialise', disc, lambda: f'{what()} again={hx(bytes(p), 80)}')
    r.ev('from_bytes_checks')
    okp, p = ev.guarded('from-bytes/parse', disc, lambda: rtp.MediaPacket.from_bytes(ref), what)
    if okp:
        got = view(p)
        bad = next((k for k in names if got[k] != want[k]), None)
        ev.check(bad is None, 'from-bytes/value', f'{bad}/{disc}', lambda: f'{what()} parsed={short(got, 300)}')
        ev.check(bytes(p) == ref, 'from-bytes/reserialise', disc, lambda: f'{what()} again={hx(bytes(p), 80)}')
        r.ev('rebuild_checks')
        okb, b3 = ev.guarded('from-bytes/rebuild', disc, lambda: bytes(rtp.MediaPacket(**{k: getattr(p, k) for k in names})), what)
        if okb:
            ev.check(b3 == ref, 'from-bytes/rebuild', disc, lambda: f'{what()} rebuilt={hx(b3, 80)}')


# ---- A2DP codec information -----------------------------------------------------------------
def ev_a2dp(ev: Ev, unit):
    from bumble import a2dp
    rng, r = ev.rng, ev.r
    ev.begin()
    gen = {'sbc': RU.gen_sbc, 'aac': RU.gen_aac,
           'vendor': lambda g: (rng.choice([0x0F, 0x12D, rng.getrandbits(32)]), rng.choice([2, 0xAA, rng.getrandbits(16)]), RU.rnd_bytes(g, rng.choice([0, 1, 8]))),
           'opus': lambda g: (g.randint(0, 7), g.randint(0, 3), g.randint(0, 1))}[unit]
    info = gen(rng)
    if unit == 'vendor' and info[:2] == (RU.OPUS_VENDOR_ID, RU.OPUS_CODEC_ID):
        info = (info[0], 2, info[2])
    ref = RU.Caps.enc_info(unit, info)
    ctype = {'sbc': 0, 'aac': 2, 'vendor': 0xFF, 'opus': 0xFF}[unit]
    r.sig('a2dp', unit, info if unit == 'opus' else None)
    what = lambda: f'{unit} info={short(info, 120)} ref={ref.hex()}'  # noqa
    ok, obj = ev.guarded('build', None, lambda: info_to_bumble(unit, info), what)
    if ok:
        ok, b1 = ev.guarded('serialise', None, lambda: bytes(obj), what)
    if ok:
        r.ev('layout_checks')
        pos = next((i for i in range(min(len(b1), len(ref))) if b1[i] != ref[i]), 0)
        ev.check(b1 == ref, 'layout', f'octet{pos}', lambda: f'{what()} bumble={b1.hex()}')
    r.ev('from_bytes_checks')
    okp, p = ev.guarded('from-bytes/parse', None, lambda: a2dp.MediaCodecInformation.create(ctype, ref), what)
    if okp:
        okv, got = ev.guarded('from-bytes/value', None, lambda: info_norm(p), what)
        if okv:
            ev.check(got == (unit, info), 'from-bytes/value', got[0] if got[0] != unit else None, lambda: f'{what()} parsed={short(got, 160)}')
        oks, b2 = ev.guarded('from-bytes/reserialise', None, lambda: bytes(p), what)
        if oks:
            ev.check(b2 == ref, 'from-bytes/reserialise', None, lambda: f'{what()} again={b2.hex()}')



# ---- media payloads: LATM (AAC), ADTS -> RTP, SBC -> RTP ---------------------------------------------
def latm_len_class(n):
    """class of a LATM PayloadLengthInfo: how many 0xFF octets and whether the remainder octet is 0"""
    k = n // 255
    return f'ff-octets={min(k, 2)}{"+" if k >= 2 else ""}/{"remainder=0" if n % 255 == 0 and n else "remainder>0" if n else "empty"}'


def gen_latm_len(rng, top=40):
    c = rng.random()
    if c < 0.6:
        return max(0, rng.randint(0, top) * 255 + rng.choice([-1, 0, 0, 1]))
    if c < 0.8:
        return rng.randint(0, 600)
    return rng.randint(0, top * 255)


def drain(make_agen):
    """run an async generator whose reads never suspend; -> list of yielded items"""
    out = []

    async def go():
        async for x in make_agen():
            out.append(x)
    coro = go()
    try:
        coro.send(None)
    except StopIteration:
        return out
    coro.close()
    raise RuntimeError('the packet source suspended on a read that never suspends')


def reader_of(data: bytes):
    pos = [0]

    async def read(n):
        chunk = data[pos[0]:pos[0] + n]
        pos[0] += len(chunk)
        return chunk
    return read


def latm_one(ev: Ev, sfi, channels, payload: bytes, buffer_fullness=0):
    """one AAC frame through codecs.AacAudioRtpPacket, both directions"""
    from bumble.codecs import AacAudioRtpPacket
    r = ev.r
    ev.begin()
    n = len(payload)
    disc = latm_len_class(n)
    sf = RU.AAC_SAMPLING_FREQUENCIES[sfi]
    ref = RU.latm_audio_mux_element(sfi, channels, payload, buffer_fullness=buffer_fullness)
    canonical = RU.latm_audio_mux_element(sfi, channels, payload)     # what a writer that always says "buffer fullness 0" emits
    r.ev('latm_elements')
    r.ev('latm_length_multiple_of_255', 1 if n and n % 255 == 0 else 0)
    r.ev('latm_length_next_to_multiple_of_255', 1 if n and (n % 255 in (1, 254)) else 0)
    what = lambda: f'AAC frame of {n} octets, {sf} Hz, {channels} channels, latmBufferFullness={buffer_fullness}: ref={hx(ref, 24)}'  # noqa

    def view(p):
        c = p.audio_mux_element.stream_mux_config.audio_specific_config
        return (int(c.audio_object_type), int(c.sampling_frequency_index), int(c.sampling_frequency), int(c.channel_configuration),
                len(p.audio_mux_element.payload), bytes(p.audio_mux_element.payload))
    want = (2, sfi, sf, channels, n, payload)
    if buffer_fullness == 0:
        ok, obj = ev.guarded('build', disc, lambda: AacAudioRtpPacket.for_simple_aac(sf, channels, payload), what)
        if ok:
            ok, b1 = ev.guarded('serialise', disc, lambda: bytes(obj), what)
        if ok:
            r.ev('layout_checks')
            ev.check(b1 == ref, 'layout', disc, lambda: f'{what()} bumble={hx(b1, 24)} ({len(b1)} octets, reference {len(ref)})')
            okp, p = ev.guarded('parse', disc, lambda: AacAudioRtpPacket.from_bytes(b1), what)
            if okp:
                got = view(p)
                ev.check(got[:5] == want[:5] and got[5] == payload, 'value', disc,
                         lambda: f'{what()} parsed (aot, sfi, sf, channels, length)={got[:5]} payload equal={got[5] == payload}')
                ev.check(bytes(p) == b1, 'reserialise', disc, lambda: f'{what()} again={hx(bytes(p), 24)}')
    r.ev('from_bytes_checks')
    okp, p = ev.guarded('from-bytes/parse', disc, lambda: AacAudioRtpPacket.from_bytes(ref), what)
    if okp:
        got = view(p)
        ev.check(got[:5] == want[:5] and got[5] == payload, 'from-bytes/value', disc,
                 lambda: f'{what()} parsed (aot, sfi, sf, channels, length)={got[:5]} payload equal={got[5] == payload}')
        oks, b2 = ev.guarded('from-bytes/reserialise', disc, lambda: bytes(p), what)
        if oks:
            ev.check(b2 == canonical, 'from-bytes/reserialise', disc, lambda: f'{what()} again={hx(b2, 24)} ({len(b2)} octets)')
        r.ev('rebuild_checks')
        c = p.audio_mux_element.stream_mux_config.audio_specific_config
        okb, b3 = ev.guarded('from-bytes/rebuild', disc, lambda: bytes(AacAudioRtpPacket.for_simple_aac(
            c.sampling_frequency, c.channel_configuration, p.audio_mux_element.payload)), what)
        if okb:
            ev.check(b3 == canonical, 'from-bytes/rebuild', disc, lambda: f'{what()} rebuilt={hx(b3, 24)} ({len(b3)} octets)')


def aac_source_one(ev: Ev, frames, sfi, channels, mtu=0):
    """an ADTS stream through a2dp.AacPacketSource: one RTP packet per frame whose payload is the LATM element of
    that frame; the packets are serialised, parsed back (rtp.MediaPacket, AacAudioRtpPacket) and compared"""
    from bumble import a2dp, rtp
    from bumble.codecs import AacAudioRtpPacket
    r = ev.r
    ev.begin()
    stream = b''.join(RU.adts_frame(1, sfi, channels, f, mpeg2=i % 2 == 1, buffer_fullness=[0x7FF, 0, 0x123][i % 3])
                      for i, f in enumerate(frames))
    sizes = [len(f) for f in frames]
    what = lambda: f'ADTS stream of AAC-LC frames with sizes {sizes}, sampling frequency index {sfi}, {channels} channels'  # noqa
    r.ev('aac_source_streams')
    ok, packets = ev.guarded('source', None, lambda: drain(lambda: a2dp.AacPacketSource(reader_of(stream), mtu).packets), what)
    if not ok:
        return
    if not ev.check(len(packets) == len(frames), 'source/packet-count', None,
                    lambda: f'{what()}: {len(packets)} packets for {len(frames)} frames'):
        return
    for i, (f, pk) in enumerate(zip(frames, packets)):
        disc = latm_len_class(len(f))
        r.ev('aac_source_frames')
        r.ev('aac_source_frames_multiple_of_255', 1 if len(f) % 255 == 0 else 0)
        w = lambda: f'{what()}, frame {i} ({len(f)} octets)'  # noqa
        oks, wire = ev.guarded('source/serialise', disc, lambda: bytes(pk), w)
        if not oks:
            return
        ref = RU.rtp_packet(2, 0, 0, 0, 96, i & 0xFFFF, wire[4:8] and int.from_bytes(wire[4:8], 'big'), 0, [],
                            RU.latm_audio_mux_element(sfi, channels, f))
        r.ev('layout_checks')
        if not ev.check(wire == ref, 'source/layout', disc, lambda: f'{w()}: packet={hx(wire, 40)} ({len(wire)} octets) reference={hx(ref, 40)} ({len(ref)} octets)'):
            return
        okp, mp = ev.guarded('source/parse', disc, lambda: rtp.MediaPacket.from_bytes(wire), w)
        if not okp:
            return
        okl, el = ev.guarded('source/parse', disc, lambda: AacAudioRtpPacket.from_bytes(mp.payload), w)
        if not okl:
            return
        got = bytes(el.audio_mux_element.payload)
        if not ev.check(got == f and mp.sequence_number == i & 0xFFFF, 'source/value', disc,
                        lambda: f'{w()}: sink got a {len(got)}-octet frame, sequence number {mp.sequence_number}'):
            return
        ev.check(bytes(mp) == wire, 'source/reserialise', disc, lambda: f'{w()}: parsed packet re-serialises differently')


SBC_BITPOOLS = (2, 3, 10, 19, 32, 35, 53)


def gen_sbc_params(rng, aligned_only=False):
    for _ in range(200):
        sf_index, blocks, mode = rng.randrange(4), rng.choice([4, 8, 12, 16]), rng.randrange(4)
        alloc, subbands, bitpool = rng.randrange(2), rng.choice([4, 8]), rng.choice(SBC_BITPOOLS)
        ch = 1 if mode == RU.SBC_MONO else 2
        bits = blocks * ch * bitpool if mode in (RU.SBC_MONO, RU.SBC_DUAL) else (subbands if mode == RU.SBC_JOINT else 0) + blocks * bitpool
        if aligned_only and bits % 8:
            continue
        return (sf_index, blocks, mode, alloc, subbands, bitpool), bits % 8 == 0
    raise RuntimeError('no SBC parameters')


def sbc_source_one(ev: Ev, params, aligned, n_frames, mtu, rng):
    """an SBC stream through a2dp.SbcPacketSource: every RTP packet carries the A2DP media payload header
    (number of frames, 1..15) and that many WHOLE frames; the packets, in order, carry the frames of the stream in
    order (the source keeps the frames of a not yet full packet when the stream ends: at most one packet's worth)"""
    from bumble import a2dp, rtp
    r = ev.r
    ev.begin()
    frames = [RU.sbc_frame(rng, *params) for _ in range(n_frames)]
    flen = len(frames[0])
    stream = b''.join(frames)
    per_packet = max(1, min(15, (mtu - 13) // flen))
    disc = 'frame-bits-multiple-of-8' if aligned else 'frame-bits-not-multiple-of-8'
    what = lambda: (f'SBC stream of {n_frames} frames of {flen} octets (sf index, blocks, channel mode, allocation, subbands, bitpool = '  # noqa
                    f'{params}), mtu {mtu} -> {per_packet} frames per packet')
    r.ev('sbc_source_streams')
    r.ev('sbc_source_streams_' + ('aligned' if aligned else 'unaligned'))
    ok, packets = ev.guarded('source', disc, lambda: drain(lambda: a2dp.SbcPacketSource(reader_of(stream), mtu).packets), what)
    if not ok:
        return
    carried = []
    for i, pk in enumerate(packets):
        r.ev('sbc_source_packets')
        oks, wire = ev.guarded('source/serialise', disc, lambda: bytes(pk), what)
        if not oks:
            return
        okp, mp = ev.guarded('source/parse', disc, lambda: rtp.MediaPacket.from_bytes(wire), what)
        if not okp:
            return
        pl = bytes(mp.payload)
        count = pl[0] & 0x0F if pl else -1
        r.ev('sbc_source_packets_with_15_frames', 1 if count == 15 else 0)
        body = pl[1:]
        if not ev.check(1 <= count <= 15 and pl[0] >> 4 == 0 and len(body) == count * flen, 'source/frame-count', disc,
                        lambda: f'{what()}: packet {i} header {pl[:1].hex()} announces {count} frames, carries {len(body)} octets = {len(body) / flen:.2f} frames'):
            return
        ref = RU.rtp_packet(2, 0, 0, 0, 96, i & 0xFFFF, mp.timestamp, 0, [], RU.sbc_media_payload([body[j * flen:(j + 1) * flen] for j in range(count)]))
        r.ev('layout_checks')
        ev.check(wire == ref, 'source/layout', disc, lambda: f'{what()}: packet {i}={hx(wire, 40)} reference={hx(ref, 40)}')
        ev.check(bytes(mp) == wire, 'source/reserialise', disc, lambda: f'{what()}: parsed packet {i} re-serialises differently')
        carried += [body[j * flen:(j + 1) * flen] for j in range(count)]
    r.ev('sbc_source_frames', len(carried))
    held_back = n_frames - len(carried)
    if ev.check(carried == frames[:len(carried)], 'source/frames-altered', disc,
                lambda: f'{what()}: the {len(carried)} carried frames are not the first frames of the stream '
                        f'(first difference at frame {next((j for j, (a, b) in enumerate(zip(carried, frames)) if a != b), len(carried))})'):
        ev.check(0 <= held_back <= per_packet, 'source/frames-lost', disc,
                 lambda: f'{what()}: {len(packets)} packets carry {len(carried)} frames, {held_back} frames never left the source '
                         f'(one unfinished packet holds at most {per_packet})')


def ev_media(ev: Ev, unit):
    rng = ev.rng
    if unit == 'aac-latm':
        n = gen_latm_len(rng)
        ev.r.sig('media', unit, latm_len_class(n), n % 255 in (0, 1, 254))
        latm_one(ev, rng.randrange(13), rng.randint(1, 7), RU.rnd_bytes(rng, n), buffer_fullness=rng.choice([0, 0, 0, 0xFF, rng.randrange(256)]))
    elif unit == 'aac-source':
        sizes = [max(1, gen_latm_len(rng, top=32)) for _ in range(rng.randint(1, 4))]
        sizes = [min(x, 8184) for x in sizes]
        ev.r.sig('media', unit, tuple(latm_len_class(x) for x in sizes))
        aac_source_one(ev, [RU.rnd_bytes(rng, x) for x in sizes], rng.randrange(13), rng.randint(1, 7), mtu=rng.choice([0, 672, 1000]))
    else:
        params, aligned = gen_sbc_params(rng)
        flen = RU.sbc_frame_length(params[1], params[2], params[4], params[5])
        per = rng.choice([1, 2, 5, 14, 15, 15, 16, 20])
        mtu = 13 + per * flen + rng.choice([0, 0, 1, flen - 1])
        n_frames = rng.choice([1, per, per + 1, 2 * min(per, 15), 2 * min(per, 15) + 1, 31, 46])
        ev.r.sig('media', unit, aligned, min(per, 16), params[2])
        sbc_source_one(ev, params, aligned, n_frames, mtu, rng)


# ---- advertising data ------------------------------------------------------------------------
def ad_build(name, values):
    from bumble import core, data_types, hci
    cls = getattr(data_types, name)
    _t, style, fields = RU.AD_TYPES[name]
    if style == 'one':
        k, v = fields[0][1], values[0]
        if k.tag == 'uuidlist':
            return cls([mk_uuid(u) for u in v])
        return cls(v)
    if style == 'pos':
        return cls(*[conv(k, v) for (_, k), v in zip(fields, values)])
    if style == 'cod':
        v = values[0]
        C = core.ClassOfDevice
        major = C.MajorDeviceClass((v >> 8) & 0x1F)
        minor = (v >> 2) & 0x3F
        mc = C._MINOR_DEVICE_CLASSES.get(major)
        return cls(C.MajorServiceClasses((v >> 13) & 0x7FF), major, mc(minor) if mc else minor)
    if style == 'appearance':
        v = values[0]
        return cls(core.Appearance.Category(v >> 6), v & 0x3F)
    if style == 'addr-public':
        return cls(hci.Address(values[0], hci.Address.PUBLIC_DEVICE_ADDRESS))
    if style == 'addr-random':
        return cls(hci.Address(values[0], hci.Address.RANDOM_DEVICE_ADDRESS))
    if style == 'addr-typed':
        return cls(hci.Address(values[0], hci.AddressType(values[1])))
    raise ValueError(style)


def ad_view(name, obj):
    _t, style, fields = RU.AD_TYPES[name]
    if style == 'one':
        k = fields[0][1]
        if k.tag == 'uuidlist':
            return [[bytes(u) for u in obj.uuids]]
        if k.tag == 'str':
            return [str.__str__(obj)]
        if k.tag == 'bytes':
            return [bytes.__bytes__(obj) if hasattr(bytes, '__bytes__') else b'' + obj]
        return [int(obj)]
    if style == 'pos':
        return [norm(k, getattr(obj, n)) for n, k in fields]
    if style in ('cod', 'appearance'):
        return [int(obj)]
    if style in ('addr-public', 'addr-random'):
        return [bytes(obj.address_bytes)]
    if style == 'addr-typed':
        return [bytes(obj.address_bytes), int(obj.address_type)]
    raise ValueError(style)


def ev_ad_typed(ev: Ev, unit):
    from bumble import core, data_types
    rng, r = ev.rng, ev.r
    ev.begin()
    ad_type, style, fields = RU.AD_TYPES[unit]
    cls = getattr(data_types, unit)
    values = RU.gen_fields(fields, rng)
    ref = RU.ad_typed_bytes(unit, values)
    ev.uuids = [u for v in values if isinstance(v, list) for u in v if isinstance(u, bytes)]
    vc = RU.value_classes(fields, values)
    vcs = '+'.join(vc)
    r.sig('ad', unit, tuple(vc), length_class(len(ref)))
    what = lambda: f'{unit} values={short(values, 200)} ref={hx(ref, 80)}'  # noqa
    ev.check(int(cls.ad_type) == ad_type, 'layout', 'ad-type', lambda: f'{unit}.ad_type={int(cls.ad_type):#x}, assigned number {ad_type:#x}')
    ok, obj = ev.guarded('build', vcs, lambda: ad_build(unit, values), what)
    b1 = None
    if ok:
        ok, b1 = ev.guarded('serialise', vcs, lambda: bytes(obj), what)
    if ok:
        r.ev('layout_checks')
        ev.check(b1 == ref, 'layout', vcs, lambda: f'{what()} bumble={hx(b1, 80)}')
        # inside an AdvertisingData
        oka, adb = ev.guarded('serialise', 'in-advertising-data', lambda: bytes(core.AdvertisingData([obj])), what)
        if oka:
            ev.check(adb == RU.ad_bytes([(ad_type, ref)]), 'layout', 'in-advertising-data', lambda: f'{what()} AdvertisingData={hx(adb, 80)}')
    for clause, data in (('', b1), ('from-bytes/', ref)):
        if data is None:
            continue
        if clause:
            r.ev('from_bytes_checks')
        okp, p = ev.guarded(clause + 'parse', vcs, lambda: cls.from_bytes(data), what)
        if not okp:
            continue
        ev.check(type(p) is cls, clause + 'parse-class', type(p).__name__, lambda: f'{what()} parsed as {type(p).__name__}')
        okv, got = ev.guarded(clause + 'value', vcs, lambda: ad_view(unit, p), what)
        if okv:
            ev.eq_values(values, got, clause + 'value', first_diff(fields, values, got), lambda: f'{what()} parsed={short(got, 200)}')
        oks, b2 = ev.guarded(clause + 'reserialise', vcs, lambda: bytes(p), what)
        if oks:
            ev.eq_values(data, b2, clause + 'reserialise', vcs, lambda: f'{what()} again={hx(b2, 80)}')
        if obj is not None and clause == '':
            oke, same = ev.guarded('value', 'eq', lambda: bool(p == obj), what)
            if oke:
                ev.check(same, 'value', 'object-equality', lambda: f'{what()} parsed {p!r} != built {obj!r}')
    # through the type-indexed factory
    r.ev('from_bytes_checks')
    okp, p = ev.guarded('from-bytes/factory', vcs, lambda: data_types.data_type_from_advertising_data(core.AdvertisingData.Type(ad_type), ref), what)
    if okp:
        ev.check(type(p) is cls, 'from-bytes/factory-class', type(p).__name__, lambda: f'{what()} factory gave {type(p).__name__}')


def ev_advertising_data(ev: Ev, unit):
    from bumble import core
    rng, r = ev.rng, ev.r
    ev.begin()
    n = rng.choice([0, 1, 2, 3, 6])
    structs = []
    for _ in range(n):
        t = rng.choice([0x01, 0x09, 0xFF, 0x16, 0x03, 0x07, 0x19, 0x0A, 0x2C, rng.randint(1, 255)])
        structs.append((t, RU.rnd_bytes(rng, rng.choice([0, 1, 2, 16, 29, 254, rng.randint(0, 40)]))))
    ref = RU.ad_bytes(structs)
    r.sig('ad', 'AdvertisingData', n, any(len(d) == 0 for _, d in structs), any(len(d) == 254 for _, d in structs))
    what = lambda: f'AdvertisingData structs={short(structs, 200)} ref={hx(ref, 80)}'  # noqa
    view = lambda a: [(int(t), bytes(d)) for t, d in a.ad_structures]  # noqa
    ok, obj = ev.guarded('build', None, lambda: core.AdvertisingData(list(structs)), what)
    if ok:
        ok, b1 = ev.guarded('serialise', None, lambda: bytes(obj), what)
    if ok:
        r.ev('layout_checks')
        ev.check(b1 == ref, 'layout', None, lambda: f'{what()} bumble={hx(b1, 80)}')
    r.ev('from_bytes_checks')
    okp, p = ev.guarded('from-bytes/parse', None, lambda: core.AdvertisingData.from_bytes(ref), what)
    if okp:
        ev.remember(core.AdvertisingData.from_bytes, ref, p)
        got = view(p)
        disc = 'empty-structure-last' if structs and not structs[-1][1] else ('empty-structure' if any(not d for _, d in structs) else None)
        ev.check(got == structs, 'from-bytes/value', disc, lambda: f'{what()} parsed={short(got, 200)}')
        ev.check(bytes(p) == ref, 'from-bytes/reserialise', disc, lambda: f'{what()} again={hx(bytes(p), 80)}')
        r.ev('rebuild_checks')
        okb, b3 = ev.guarded('from-bytes/rebuild', None, lambda: bytes(core.AdvertisingData(list(p.ad_structures))), what)
        if okb:
            ev.check(b3 == ref, 'from-bytes/rebuild', disc, lambda: f'{what()} rebuilt={hx(b3, 80)}')
        for t, d in structs[:2]:
            okg, g = ev.guarded('from-bytes/get-raw', None, lambda: p.get_all(t, raw=True), what)
            if okg:
                ev.check([bytes(x) for x in g] == [dd for tt, dd in structs if tt == t], 'from-bytes/get-raw', None,
                         lambda: f'{what()} get_all({t:#x}, raw)={short(g, 100)}')


# ---- Address -----------------------------------------------------------------------------------
def ev_address(ev: Ev, unit):
    from bumble import hci
    rng, r = ev.rng, ev.r
    ev.begin()
    le = RU.Addr().gen(rng)
    t = rng.randint(0, 3)
    public = t in (0, 2)
    disc = ['public-device', 'random-device', 'public-identity', 'random-identity'][t]
    r.sig('address', unit, disc, le[5] >> 6)
    what = lambda: f'address le={le.hex()} type={t}'  # noqa
    ok, a = ev.guarded('build', disc, lambda: hci.Address(le, hci.AddressType(t)), what)
    if not ok:
        return
    if unit == 'bytes':
        ev.r.ev('layout_checks')
        ev.check(bytes(a) == le, 'layout', disc, lambda: f'{what()} bytes={bytes(a).hex()}')
        for fn_name, want_t in (('parse_address', 0), ('parse_random_address', 1)):
            off = rng.choice([0, 1, 3])
            okp, res = ev.guarded('from-bytes/parse', fn_name, lambda: getattr(hci.Address, fn_name)(bytes(off) + le + b'\x77', off), what)
            if okp:
                ev.check(res[0] == off + 6 and bytes(res[1]) == le and int(res[1].address_type) == want_t, 'from-bytes/value', fn_name,
                         lambda: f'{what()} {fn_name} -> {res}')
        ev.r.ev('from_bytes_checks')
        okp, res = ev.guarded('from-bytes/parse', 'preceded-by-type', lambda: hci.Address.parse_address_preceded_by_type(bytes([t]) + le, 1), what)
        if okp:
            b = res[1]
            ev.check(res[0] == 7 and bytes(b) == le and int(b.address_type) == t and b == a and hash(b) == hash(a), 'from-bytes/value',
                     f'preceded-by-type/{disc}', lambda: f'{what()} -> {res!r}')
        okc, c = ev.guarded('rebuild', 'clone', lambda: a.clone(), what)
        if okc:
            ev.check(bytes(c) == le and int(c.address_type) == t and c == a, 'rebuild', 'clone', lambda: f'{what()} clone={c!r}')
        return
    # string forms
    want = RU.address_string(le, public)
    ok, s = ev.guarded('serialise', disc, lambda: str(a), what)
    if ok:
        ev.r.ev('layout_checks')
        ev.check(s == want, 'layout', disc, lambda: f'{what()} str={s!r} expected {want!r}')
        plain = a.to_string(False)
        ev.check(plain == RU.address_string(le, False), 'layout', 'no-qualifier', lambda: f'{what()} to_string(False)={plain!r}')
    ev.r.ev('from_bytes_checks')
    forms = [(want, 'canonical'), (want.lower().replace('/p', '/P'), 'lower-case'), (want.replace(':', ''), 'no-separators')]
    text, fdisc = rng.choice(forms)
    okp, b = ev.guarded('from-bytes/parse', fdisc, lambda: hci.Address(text) if rng.random() < 0.5 or public else hci.Address(text, hci.AddressType(t)), what)
    if okp:
        ev.check(bytes(b) == le and b.is_public == public and b == a, 'from-bytes/value', f'{fdisc}/{disc}',
                 lambda: f'{what()} Address({text!r}) -> {b!r}')
        ev.check(str(b) == want, 'from-bytes/reserialise', f'{fdisc}/{disc}', lambda: f'{what()} Address({text!r}) prints {str(b)!r}')


# ---- UUID ------------------------------------------------------------------------------------------
def ev_uuid(ev: Ev, unit):
    from bumble.core import UUID
    rng, r = ev.rng, ev.r
    ev.begin()
    r.ev('uuid_ops')
    le = RU.gen_uuid(rng)
    cl = RU.uuid_class(le)
    r.sig('uuid', unit, cl)
    what = lambda: f'uuid le={le.hex()} ({cl})'  # noqa
    text = RU.uuid_string(le)
    if unit == 'bytes':
        r.ev('from_bytes_checks')
        name = rng.choice([None, None, 'c18'])
        okp, u = ev.guarded('from-bytes/parse', cl, lambda: UUID.from_bytes(le, name) if name else UUID.from_bytes(le), what)
        if okp:
            ev.check(bytes(u) == le, 'width', cl, lambda: f'{what()} from_bytes returned a UUID of {len(bytes(u))} octets: {bytes(u).hex()}', unit='from_bytes')
            ev.check(u.to_bytes(force_128=True) == RU.uuid_expand(le), 'from-bytes/value', cl, lambda: f'{what()} 128-bit form {u.to_bytes(True).hex()}')
            ev.check(u.to_pdu_bytes() == (RU.uuid_expand(le) if len(le) == 4 else le), 'from-bytes/att-form', cl,
                     lambda: f'{what()} to_pdu_bytes={u.to_pdu_bytes().hex()}')
            ev.check(u == mk_uuid(le) and hash(u) == hash(mk_uuid(le)), 'from-bytes/value', 'equality', lambda: f'{what()} {u!r} != UUID({text!r})')
        off = rng.choice([0, 2])
        okp, res = ev.guarded('from-bytes/parse', 'parse_uuid', lambda: UUID.parse_uuid(bytes(off) + le, off), what)
        if okp:
            ev.check(res[0] == off + len(le) and bytes(res[1]) == le, 'width', f'parse_uuid/{cl}', lambda: f'{what()} parse_uuid -> ({res[0]}, {bytes(res[1]).hex()})')
        if len(le) == 2:
            okp, res = ev.guarded('from-bytes/parse', 'parse_uuid_2', lambda: UUID.parse_uuid_2(b'\x01' + le + b'\x02\x03', 1), what)
            if okp:
                ev.check(res[0] == 3 and bytes(res[1]) == le, 'width', f'parse_uuid_2/{cl}', lambda: f'{what()} parse_uuid_2 -> ({res[0]}, {bytes(res[1]).hex()})')
            v = int.from_bytes(le, 'little')
            okp, u = ev.guarded('from-bytes/parse', 'from_16_bits', lambda: UUID.from_16_bits(v), what)
            if okp:
                ev.check(bytes(u) == le, 'width', f'from_16_bits/{cl}', lambda: f'{what()} from_16_bits -> {bytes(u).hex()}')
        if len(le) == 4:
            v = int.from_bytes(le, 'little')
            okp, u = ev.guarded('from-bytes/parse', 'from_32_bits', lambda: UUID.from_32_bits(v), what)
            if okp:
                ev.check(bytes(u) == le, 'width', f'from_32_bits/{cl}', lambda: f'{what()} from_32_bits -> {bytes(u).hex()}')
        return
    if unit == 'int':
        v = rng.choice(RU.UUID16_POOL + [0, 0xFFFF, rng.getrandbits(16)])
        ok, u = ev.guarded('build', 'int', lambda: UUID(v), lambda: f'UUID({v:#x})')
        if ok:
            r.ev('layout_checks')
            ev.check(bytes(u) == struct.pack('<H', v) and u.to_bytes(True) == RU.uuid128_from16(v), 'layout', 'int',
                     lambda: f'UUID({v:#x}) bytes={bytes(u).hex()} 128={u.to_bytes(True).hex()}')
            ev.check(u.to_hex_str() == f'{v:04X}', 'layout', 'hex-str', lambda: f'UUID({v:#x}).to_hex_str()={u.to_hex_str()!r}')
        return
    # string
    forms = [(text, 'canonical'), (text.lower(), 'lower-case')] + ([(text.replace('-', ''), 'no-dashes')] if len(le) == 16 else [])
    s, fdisc = rng.choice(forms)
    ok, u = ev.guarded('build', f'{fdisc}/{cl}', lambda: UUID(s), what)
    if ok:
        r.ev('layout_checks')
        ev.check(bytes(u) == le, 'layout', f'{fdisc}/{cl}', lambda: f'{what()} UUID({s!r}) bytes={bytes(u).hex()}')
        ev.check(u.to_hex_str('-') == text and repr(u) == text.replace('-', ''), 'reserialise', f'string/{cl}',
                 lambda: f'{what()} UUID({s!r}) prints {u.to_hex_str("-")!r} / {u!r}, expected {text!r}')
        prefix = {2: 'UUID-16:', 4: 'UUID-32:', 16: ''}[len(le)]
        ev.check(str(u) == prefix + text, 'reserialise', f'str/{cl}', lambda: f'{what()} str={str(u)!r}')
        r.ev('from_bytes_checks')
        okp, u2 = ev.guarded('from-bytes/parse', cl, lambda: UUID.from_bytes(bytes(u)), what)
        if okp:
            ev.check(bytes(u2) == le, 'width', cl, lambda: f'{what()} from_bytes(bytes(UUID({s!r}))) has {len(bytes(u2))} octets', unit='from_bytes')
            ev.check(u2 == u and (u == s) and u2.to_hex_str('-') == text, 'from-bytes/value', cl, lambda: f'{what()} {u2!r} vs {u!r}')


# =============================================================================
# history: polluting steps
# =============================================================================
class Ctx:
    def __init__(self):
        self.recent = []
        self.examples = []


def pollute(ctx: Ctx, rng: random.Random, r: R):
    from bumble.core import UUID
    r.ev('pollution_steps')
    c = rng.random()
    try:
        if c < 0.45:
            v = rng.choice(RU.UUID16_POOL)
            how = rng.randrange(7)
            if how == 0:
                UUID.from_bytes(RU.uuid128_from16(v))
            elif how == 1:
                UUID.from_bytes(struct.pack('<H', v))
            elif how == 2:
                UUID.from_bytes(struct.pack('<I', v))
            elif how == 3:
                UUID(RU.uuid_string(RU.uuid128_from16(v)), 'polluted-128').register()
            elif how == 4:
                UUID.from_16_bits(v, 'polluted-16')
            elif how == 5:
                UUID(f'{v:08X}').register()
            else:
                UUID.from_bytes(RU.rnd_bytes(rng, 16))
            r.ev('pollution_uuid')
        elif c < 0.7 and ctx.recent:
            parse, data, _ = rng.choice(ctx.recent)
            parse(data)
            parse(data)
            r.ev('pollution_reparse')
        elif ctx.recent:
            parse, data, obj = rng.choice(ctx.recent)
            # mutate a parsed object (top-level fields only), then serialise it
            for name, val in list(vars(obj).items())[:8]:
                if name.startswith('_') or name in ('name', 'code', 'op_code', 'fields'):
                    continue
                if isinstance(val, bool):
                    continue
                if isinstance(val, int) and type(val) is int:
                    setattr(obj, name, (val + 1) & 0xFF)
                elif isinstance(val, bytes):
                    setattr(obj, name, val[::-1] + b'\x01')
                elif isinstance(val, list):
                    val.append(val[0] if val else 0)
            try:
                bytes(obj)
            except Exception:
                pass
            r.ev('pollution_mutate')
    except Exception:
        r.ev('pollution_step_raised')


# =============================================================================
# work items
# =============================================================================
HAND_UNITS = {
    'l2cap-ertm': (['i-frame', 's-frame'], ev_ertm),
    'l2cap-psm': (['psm'], ev_psm),
    'l2cap-pdu': (['L2CAP_PDU'], ev_l2cap_pdu),
    'l2cap-cfgopt': (['options', 'in-request', 'in-response'], ev_cfgopt),
    'unknown-code': (['l2cap-sig', 'att', 'smp'], ev_unknown_code),
    'sdp-element': (['any', 'uint', 'sint', 'uuid', 'text', 'url', 'seq', 'alt', 'bool', 'nil', 'nested', 'wide', 'nonminimal', 'int128'], ev_sdp_element),
    'rfcomm-frame': (['sabm', 'ua', 'dm', 'disc', 'uih', 'uih-credit'], ev_rfcomm_frame),
    'rfcomm-mcc': (['mcc', 'pn', 'msc'], ev_rfcomm_mcc),
    'avctp': (['single'], ev_avctp),
    'avc': (['VendorDependentCommandFrame', 'VendorDependentResponseFrame', 'PassThroughCommandFrame', 'PassThroughResponseFrame',
             'CommandFrame', 'ResponseFrame', 'extended-subunit'], ev_avc),
    'avrcp-special': (['GetCapabilitiesResponse', 'RegisterNotificationResponse', 'GetFolderItemsResponse', 'RejectedResponse',
                       'NotImplementedResponse', 'pdu-header'], ev_avrcp_special),
    'rtp': (['MediaPacket'], ev_rtp),
    'a2dp': (['sbc', 'aac', 'vendor', 'opus'], ev_a2dp),
    'media': (['aac-latm', 'aac-source', 'sbc-source'], ev_media),
    'ad-typed': (sorted(RU.AD_TYPES), ev_ad_typed),
    'ad': (['AdvertisingData'], ev_advertising_data),
    'address': (['bytes', 'string'], ev_address),
    'uuid': (['bytes', 'string', 'int', 'bytes', 'string'], ev_uuid),
}


def all_units(r: R | None = None):
    """[(family, unit)] from the run-time registries + the hand-adapted list; registered
    classes without a reference layout are reported, never silently skipped"""
    out = []
    for F in GENERIC:
        classes = F.classes()
        for name in sorted(classes):
            if name in F.ref:
                out.append((F.name, name))
            elif name in HANDLED_ELSEWHERE.get(F.name, {}):
                pass
            elif r is not None:
                r.add_extra_list('classes_uncovered', f'{F.name}/{name}')
        for name in F.ref:
            if name not in classes and r is not None:
                r.add_extra_list('reference_layouts_without_class', f'{F.name}/{name}')
    for fam, (units, _fn) in HAND_UNITS.items():
        for u in units:
            out.append((fam, u))
    # typed AD classes registered in bumble's factory map but absent from the reference table
    if r is not None:
        from bumble import data_types
        for cls in set(data_types._AD_TO_DATA_TYPE_CLASS_MAP.values()):
            if cls.__name__ not in RU.AD_TYPES:
                r.add_extra_list('classes_uncovered', f'ad-typed/{cls.__name__}')
    return out


def eval_instance(item, j, r: R, ctx: Ctx | None = None):
    """one instance, reproducible from (family, unit, item seed, index) alone"""
    fam, unit = item['fam'], item['unit']
    rng = random.Random(f'{fam}/{unit}/{item["s"]}/{j}')
    ev = Ev(r, fam, unit, rng, ctx)
    if fam in GENERIC_BY_NAME:
        eval_generic(GENERIC_BY_NAME[fam], ev, unit)
    else:
        HAND_UNITS[fam][1](ev, unit)
    r.evals()


def eval_item(item, r: R, ctx: Ctx | None = None):
    for j in ([item['j']] if 'j' in item else range(item['n'])):
        eval_instance(item, j, r, ctx)


_SOLO_CACHE: dict[str, bool] = {}


def _shared_dir():
    """the per-run work directory of the parent runner (removed by it afterwards): the
    classification of a key is shared between the shards of one run"""
    try:
        a = sys.argv[1]
        d = os.path.dirname(os.path.abspath(a))
        if os.path.basename(a).startswith('in') and os.path.basename(os.path.dirname(d)) == '.work':
            return d
    except Exception:
        pass
    return None


def _shared_get(key):
    d = _shared_dir()
    if d is None:
        return None
    import hashlib
    try:
        with open(os.path.join(d, 'solo-' + hashlib.sha1(key.encode()).hexdigest())) as f:
            return f.read().strip() == '1'
    except OSError:
        return None


def _shared_put(key, val):
    d = _shared_dir()
    if d is None:
        return
    import hashlib
    try:
        path = os.path.join(d, 'solo-' + hashlib.sha1(key.encode()).hexdigest())
        with open(path + f'.{os.getpid()}', 'w') as f:
            f.write('1' if val else '0')
        os.replace(path + f'.{os.getpid()}', path)
    except OSError:
        pass


class _SoloServer:
    """A helper interpreter that has imported bumble and nothing else: for every request it
    forks, and the child -- a pristine copy of the just-imported state, i.e. what a fresh
    process looks like -- evaluates one work item alone and reports its violation keys."""

    def __init__(self):
        self.p = None

    def start(self):
        root = os.path.dirname(os.path.dirname(os.path.abspath(__file__)))
        self.p = subprocess.Popen([sys.executable, '-m', 'checks.c18', '--solo-server'], stdin=subprocess.PIPE,
                                  stdout=subprocess.PIPE, stderr=subprocess.DEVNULL, text=True, env=dict(os.environ), cwd=root)

    def ask(self, item):
        import select
        for attempt in (0, 1):
            try:
                if self.p is None or self.p.poll() is not None:
                    self.start()
                self.p.stdin.write(json.dumps(item) + '\n')
                self.p.stdin.flush()
                ready, _, _ = select.select([self.p.stdout], [], [], 120)
                if not ready:
                    self.p.kill()
                    self.p = None
                    return None
                line = self.p.stdout.readline()
                if line.startswith('SOLO '):
                    return set(json.loads(line[5:]))
                if line.startswith('SOLO-ERROR'):
                    return None
            except Exception:
                self.p = None
        return None


_SOLO = _SoloServer()


def solo_keys(item) -> set | None:
    """violation keys of the item evaluated alone in a fresh process"""
    if os.environ.get('C18_NO_SOLO'):  # triage aid only: keys then carry no history suffix
        return None
    return _SOLO.ask(item)


def _solo_child(item) -> str:
    rr = R({})
    try:
        eval_item(item, rr, None)
        return 'SOLO ' + json.dumps(sorted({v['key'] for v in rr.violations}))
    except Exception as e:  # noqa
        return f'SOLO-ERROR {type(e).__name__}: {e}'


def _solo_server():
    prereg()  # imports every bumble module the check touches; executes no codec
    all_units(None)
    for line in sys.stdin:
        line = line.strip()
        if not line:
            continue
        item = json.loads(line)
        rd, wr = os.pipe()
        pid = os.fork()
        if pid == 0:
            try:
                os.close(rd)
                out = _solo_child(item)
                os.write(wr, out.encode())
            finally:
                os._exit(0)
        os.close(wr)
        chunks = []
        while True:
            c = os.read(rd, 65536)
            if not c:
                break
            chunks.append(c)
        os.close(rd)
        os.waitpid(pid, 0)
        sys.stdout.write((b''.join(chunks).decode() or 'SOLO-ERROR empty') + '\n')
        sys.stdout.flush()


def run_item_with_history(item, r: R, ctx: Ctx):
    for j in range(item['n']):
        tmp = R(r.case)
        eval_instance(item, j, tmp, ctx)
        for k, v in tmp.events.items():
            r.ev(k, v)
        r.evaluations += tmp.evaluations
        r.sigs |= tmp.sigs
        if tmp.violations:
            classify(dict(item, j=j), tmp, r)


def classify(inst, tmp: R, r: R):
    """re-run the failing instance alone in a fresh process; the key says whether the failure needs the history"""
    for v in tmp.violations:
        if v['key'] not in _SOLO_CACHE:
            sh = _shared_get(v['key'])
            if sh is not None:
                _SOLO_CACHE[v['key']] = sh
                r.ev('solo_classification_from_other_shard')
    need = [v['key'] for v in tmp.violations if v['key'] not in _SOLO_CACHE]
    if need:
        fresh = solo_keys(inst)
        r.ev('solo_reruns')
        if fresh is None:
            r.ev('solo_rerun_failed')
        for k in need:
            if fresh is not None:
                _SOLO_CACHE[k] = k not in fresh  # True = only with history
                _shared_put(k, _SOLO_CACHE[k])
    for v in tmp.violations:
        hist = _SOLO_CACHE.get(v['key'])
        key = v['key'] + ('/history-dependent' if hist else '')
        how = '' if v['key'] in need else ' (classification from an earlier instance with the same key in this run)'
        note = {True: ' [history-dependent: the instance alone in a fresh process is clean' + how + ']',
                False: ' [also fails alone in a fresh process' + how + ']', None: ' [fresh re-run unavailable]'}[hist]
        r.bad(key, v['detail'] + note + f' instance={json.dumps(inst)}')


def case_mix(case, r: R):
    prereg()
    rng = random.Random(f'mix/{case["seed"]}')
    ctx = Ctx()
    units = all_units(r)
    r.extra['generic_classes_per_case'] = sum(1 for f, _ in units if f in GENERIC_BY_NAME)
    r.extra['units_per_case'] = len(units)
    items = [{'fam': f, 'unit': u, 's': case['seed'] * 1000 + j, 'n': case['per_unit']} for j, (f, u) in enumerate(units)]
    rng.shuffle(items)
    for it in items:
        if rng.random() < 0.6:
            pollute(ctx, rng, r)
        run_item_with_history(it, r, ctx)
    r.sample = {'kind': 'mix', 'seed': case['seed'], 'items': len(items), 'instances_per_item': case['per_unit'],
                'first_items': [f'{i["fam"]}/{i["unit"]}' for i in items[:6]], 'example_instances': ctx.examples}


def case_ertm_all(case, r: R):
    ev = Ev(r, 'l2cap-ertm', 'all', random.Random(0))
    for tx in range(64):
        for req in range(64):
            for sar in range(4):
                for final in (0, 1):
                    ev.begin()
                    ertm_one(ev, 'i', tx, req, sar, 0, 0, final)
    for s in range(4):
        for req in range(64):
            for poll, final in ((0, 0), (1, 0), (0, 1)):
                ev.begin()
                ertm_one(ev, 's', 0, req, 0, s, poll, final)
    r.sig('ertm', 'exhaustive')
    r.evals(1)
    r.sample = {'kind': 'ertm-all', 'i_frames': 64 * 64 * 4 * 2, 's_frames': 4 * 64 * 3}


EXHAUSTIVE_NOTE = ('ERTM enhanced control fields: all 32768 I-frame and 768 valid S-frame field combinations; RFCOMM: UIH payload '
                   'lengths 0-3,120-135,254-257,16383,16384,32766,32767 x C/R x DLCI {0,2,61} x credit/no credit, and every '
                   'SABM/UA/DM/DISC address/PF combination; AV/C: every representable subunit ID (0-4, 6-514) x six frame classes, all '
                   'defined subunit types at the switch-over IDs; LATM: AAC frame lengths 0-1100 and k*255-1, k*255, k*255+1 for k<=40; '
                   'RTP: CSRC count 0-15 x padding x extension x marker; SBC source: 1-18 frames of room per packet')


def case_avc_grid(case, r: R):
    """one AV/C frame class x every subunit type bumble defines x EVERY representable subunit ID (0..4, 6..514):
    built from fields and parsed from the reference octets"""
    from bumble import avc
    shape = case['shape']
    rng = random.Random(f'avc-grid/{shape}/{case["seed"]}')
    ev = Ev(r, 'avc', shape, rng)
    types = [int(x) for x in avc.Frame.SubunitType if int(x) != 0x1E]
    n = 0
    for sid in [x for x in range(0, 5 + 254 + 255 + 1) if x != 5]:
        for st in ([types[sid % len(types)], 0x09] if sid not in (258, 259, 260, 261, 513, 514) else types):
            ev_avc(ev, shape, force={'shape': shape, 'sid': sid, 'st': st})
            r.ev('avc_grid_frames')
            n += 1
    r.sig('avc-grid', shape)
    r.evals(n)
    r.sample = {'kind': 'avc-grid', 'class': shape, 'subunit_ids': '0..4, 6..514 (all)', 'subunit_types': types, 'frames': n}


def case_media_grid(case, r: R):
    """LATM: every AAC frame length 0..1100 and k*255-1, k*255, k*255+1 up to the largest ADTS frame; the same boundary
    lengths as ADTS streams through the A2DP AAC source; RTP: every CSRC count x padding x extension x marker;
    SBC source: every frame count per packet 1..15 (+ a MTU with room for 16 and more)"""
    part, parts = case['part'], case['parts']
    rng = random.Random(f'media-grid/{part}/{case["seed"]}')
    ev = Ev(r, 'media', 'aac-latm', rng)
    lens = sorted(set(range(0, 1101)) | {max(0, k * 255 + d) for k in range(1, 41) for d in (-1, 0, 1)} | {8183, 8184})
    n = 0
    for i, ln in enumerate(lens):
        if i % parts != part:
            continue
        latm_one(ev, (ln + case['seed']) % 13, 1 + (ln + case['seed']) % 7, RU.rnd_bytes(rng, ln))
        r.ev('latm_grid_lengths')
        n += 1
    ev = Ev(r, 'media', 'aac-source', rng)
    bounds = [max(1, k * 255 + d) for k in range(1, 33) for d in (-1, 0, 1)] + [8183, 8184]
    mine = [b for i, b in enumerate(bounds) if i % parts == part]
    for i in range(0, len(mine), 6):
        aac_source_one(ev, [RU.rnd_bytes(rng, x) for x in mine[i:i + 6]], rng.randrange(13), rng.randint(1, 7))
        n += 1
    ev = Ev(r, 'media', 'sbc-source', rng)
    for per in range(1, 19):
        if per % parts != part:
            continue
        for aligned_only in (True, False):
            params, aligned = gen_sbc_params(rng, aligned_only=aligned_only)
            flen = RU.sbc_frame_length(params[1], params[2], params[4], params[5])
            sbc_source_one(ev, params, aligned, 2 * min(per, 15) + 1, 13 + per * flen, rng)
            r.ev('sbc_grid_frames_per_packet')
            n += 1
    if part == 0:
        ev = Ev(r, 'rtp', 'MediaPacket', rng)
        for ncsrc in range(16):
            for padding in (0, 1):
                for extension in (0, 1):
                    for marker in (0, 1):
                        ev_rtp(ev, 'MediaPacket', force={'ncsrc': ncsrc, 'padding': padding, 'extension': extension, 'marker': marker})
                        r.ev('rtp_grid_packets')
                        n += 1
    r.sig('media-grid', part)
    r.evals(n)
    r.sample = {'kind': 'media-grid', 'part': part, 'latm_lengths': len(lens) // parts, 'largest': lens[-1]}


def case_avdtp_generic(case, r: R):
    """AVDTP single packets for which bumble has NO dedicated class (signal identifier x message type not in the
    registry: e.g. the rejects of DISCOVER and ABORT, reserved signals, general reject): they are carried by a generic
    class and must re-serialise to the bytes they were parsed from."""
    from bumble import avdtp
    rng = random.Random(f'avdtp-generic/{case["seed"]}')
    registered = {(int(sig), int(mt)) for sig, by_type in avdtp.Message.subclasses.items() for mt in by_type}
    codes = [int(c) for c in avdtp.ErrorCode]
    fam = Avdtp()
    n = 0
    for sig in range(64):
        for mt in range(4):
            if (sig, mt) in registered:
                continue
            for rep in range(3):
                if mt == 3:
                    payload = bytes([rng.choice(codes)])          # a reject carries its error code
                elif mt == 1:
                    payload = b''                                 # general reject: no parameters
                else:
                    payload = RU.rnd_bytes(rng, rng.choice([0, 1, 2, 7, 40]))
                label = rng.randrange(16)
                data = RU.avdtp_single(label, mt, sig, payload)
                r.ev('avdtp_generic_messages')
                r.ev('oracle_evals')
                n += 1
                key = f'roundtrip/avdtp-generic/{"reject" if mt == 3 else "general-reject" if mt == 1 else "command" if mt == 0 else "accept"}'
                try:
                    msg = fam.parse(None, {'label': label}, data)
                    out = fam.serialise(msg, {'label': label})
                except Exception as e:
                    r.bad(key + f'/raises/{type(e).__name__}', f'signal {sig:#x} type {mt} payload {payload.hex()}: {e}')
                    continue
                if (int(msg.signal_identifier), int(msg.message_type)) != (sig, mt):
                    r.bad(key + '/signal-or-type', f'{data.hex()} parsed as signal={msg.signal_identifier!r} type={msg.message_type!r}')
                elif bytes(out) != data:
                    r.bad(key + '/reserialise', f'signal {sig:#x} type {mt}: parsed from {data.hex()}, re-serialised as {bytes(out).hex()}')
    r.evals(n)
    r.sample = {'kind': 'avdtp-generic', 'unregistered_signal_type_pairs': 256 - len(registered), 'messages': n}


def run_case(case, r: R):
    kind = case['kind']
    if kind == 'avdtp-generic':
        return case_avdtp_generic(case, r)
    if kind == 'mix':
        case_mix(case, r)
    elif kind == 'ertm-all':
        case_ertm_all(case, r)
    elif kind == 'rfcomm-grid':
        case_rfcomm_grid(case, r)
    elif kind == 'sdp-bounds':
        case_sdp_bounds(case, r)
    elif kind == 'avc-grid':
        case_avc_grid(case, r)
    elif kind == 'media-grid':
        case_media_grid(case, r)
    elif kind == 'cfgopt-grid':
        case_cfgopt_grid(case, r)
    else:
        raise ValueError(kind)


LEVEL_TEXT = ('Four-clause round-trip oracle (build->bytes->parse->equal + re-serialise, rebuild from parsed fields, independent '
              'byte layouts from vlib/ref_upper.py, parse of the reference bytes) over every class found in the run-time registries '
              'of L2CAP signalling, ATT, SMP, SDP, AVDTP and AVRCP plus hand-adapted units for ERTM control fields (exhaustive), PSM, '
              'SDP data elements (all size-descriptor switch points), RFCOMM frames/MCC/PN/MSC (length grid with and without credit '
              'octet, own CRC table), AVCTP, AV/C (every representable subunit ID x six frame classes), RTP (every CSRC count x '
              'P/X/M), the LATM AudioMuxElement of AAC-over-RTP (frame lengths 0-1100 and every k*255-1/k*255/k*255+1 up to 8184, '
              'built, parsed from reference bits, and through a2dp.AacPacketSource fed with ADTS), a2dp.SbcPacketSource (1-18 '
              'frames of room per packet, all SBC parameter classes), advertising data and its typed structures, Address, UUID and A2DP codec '
              'information; ~3x10^4 (quick) / 5x10^5 (thorough) instances executed in shuffled histories with polluting steps; every '
              'failing item is re-run alone in a fresh process. Held = no refuting instance among those generated; sampling, not proof.')
LEVEL_NOTE = ('Trusted: the layouts transcribed from the specifications in vlib/ref_upper.py (no bumble import), CPython. Field values '
              'are restricted to spec-valid ranges; see assumptions.')
TECHNIQUE = 'runtime monitoring: differential round-trip oracle against independent reference layouts, with process-history pollution and fresh-process re-runs'


if __name__ == '__main__':
    import logging
    logging.disable(logging.CRITICAL)
    if len(sys.argv) >= 2 and sys.argv[1] == '--solo-server':
        _solo_server()
    elif len(sys.argv) >= 3 and sys.argv[1] == '--solo':
        print(_solo_child(json.loads(sys.argv[2])))
