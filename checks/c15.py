"""C15 — the JSON key store is exact, persistent, namespace-isolated and crash-atomic.

Monitors:
  history    lock-step dict model (vlib/ref_keystore.py) beside 1-4 live JsonKeyStore
             instances + fresh instances on one shared file; after every operation the raw
             file (decoded by an independent layout decoder) and every view
             (get / get_all / get_resolving_keys) are compared with the model
  nscount    the same monitor over directed histories that change the NUMBER of namespaces in
             the file: two named namespaces with 1-2 peers each and a store without namespace,
             one live instance of every kind opened BEFORE the first step and a fresh one of
             every kind after each step; deletions of the last peer, delete_all, namespaces
             appearing.  A namespace that was in the file stays in the model when it loses its
             last entry, so a store without namespace keeps resolving as before; a file that
             drops the emptied namespace is tolerated only as long as no store's view differs
  paths      the same monitor over file-system layouts in which ONE real file is reached through several
             paths (a symbolic link to the file in the same / another directory, with an absolute / relative
             target, a chain of two links, a dangling link, a symbolic link to a directory on the way, with
             '..' behind it, a relative name given before the working directory changed); 2-3 named
             namespaces, each worked on through its own path; after every operation the REAL file holds the
             model, every link is still the same link, every live and fresh store through every path shows
             the model; two in five operations 'die' right before / after the rename
  roundtrip  every present/absent combination of the six keys x address types x link-key
             types, sub-fields (authenticated, ediv, rand) rotated through all 8 settings;
             checked through a fresh store, through the raw file layout, and from files
             written by the reference encoder
  crash      for one mutating operation on one prepared database: a helper process
             (subprocess.run(timeout=)) forks one victim per crash point; the victim arms
             a failpoint and dies with os._exit(137) at the n-th LINE event / n-th write /
             n-th file-system step; every resulting directory is inspected afterwards
  strace     one run per operation under strace; offline syscall-order checker
"""
from __future__ import annotations

import asyncio
import itertools
import json
import os
import random
import re
import shutil
import subprocess
import sys
import tempfile

from vlib import ref_keystore as ref

ID = 'C15'
LEVEL = 'fault_enumeration'
RULE = ('history: seeded random operation sequences over 2-4 peers x 1-3 named namespaces (+ a '
        'store without namespace) x 1-4 instances on one file with re-opening; non-trivial when '
        'it had >=2 namespaces or >=2 instances and at least one merge-update and one deletion; '
        'distinct = distinct operation sequence. nscount: the same over directed files (which of two named namespaces, '
        '__DEFAULT__ and a foreign one exist, with 0-2 entries each) with 1-2 peers, one live store of every kind (named A, '
        'named B, without namespace) opened before the first step, delete-heavy operation mix, so that namespaces lose their '
        'last entry and new ones appear every few steps. paths: nine file-system layouts (file symlink same dir / other dir with '
        'absolute or relative target / chain / dangling, directory symlink, directory symlink + "..", relative name with the '
        'working directory changed afterwards, relative name of a symlink) x 2-3 named namespaces each through its own path x '
        '5-12 operations, 40% of them dying at the rename; distinct = (layout, operation sequence). roundtrip: distinct = (present keys, address '
        'type, link-key type, sub-field setting). crash: one (initial database, store kind, '
        'operation) configuration; every crash point until the operation completes without the '
        'failpoint firing; distinct = (configuration, mode, n); non-trivial when the failpoint '
        'fired. strace: one traced run per configuration')
ASSUMPTIONS = [
    'process death, not power loss: whatever reached write(2) before the exit is on disk; no fsync is demanded',
    'deleting a name that is not stored may raise KeyError or do nothing, but must change nothing',
    'a namespace that loses its last entry (delete of the last peer, delete_all) keeps counting as a namespace '
    'of the file for the default-namespace rule: were it dropped, a deletion in namespace A would make a store '
    'without namespace adopt namespace B (return B\'s entries, write its next update into B). A file that omits '
    'the emptied namespace is accepted as long as every store of every kind still shows what the model says; '
    'only delete_all through a store whose namespace is not in the file may or may not create it (observed)',
    'get_resolving_keys: a peer name ending in /P is a public device address whatever address_type is stored; '
    'without stored address_type the address is random (base-class rule)',
    'isolation is asserted for explicitly named namespaces; a store without namespace follows the documented '
    'rule (__DEFAULT__ if present, else the only namespace, else a new __DEFAULT__), re-evaluated per operation',
    'the crash victim is a fork()ed copy of a helper that imported bumble; the helper itself is started with '
    'subprocess.run(timeout=)',
]
MIN_EVENTS = {
    'quick': {'oracle_evals': 150000, 'history_ops': 5000, 'fresh_store_views': 15000, 'roundtrips': 4032,
              'crash_points_line': 180, 'crash_points_write': 100, 'crash_points_fs': 80,
              'crash_fired': 380, 'crash_points_update': 180, 'crash_points_delete': 70,
              'crash_points_delete_all': 60, 'crash_states_inspected': 380, 'recovery_updates': 380,
              'strace_runs': 5, 'strace_renames_onto_final': 4,
              'nscount_histories': 300, 'nscount_ops': 2500, 'ns_emptied_by_delete_of_last_peer': 300,
              'ns_emptied_by_delete_all': 100, 'ns_emptied_where_dropping_would_redirect_default': 120,
              'ns_appeared': 300, 'ns_appeared_redirecting_default': 100,
              'default_store_views_after_namespace_count_event': 1500,
              'live_default_store_views_after_namespace_count_event': 400,
              'paths_histories': 280, 'paths_ops': 1500, 'paths_ops_through_symlink': 600,
              'paths_ops_relative_name_after_chdir': 200, 'paths_deaths': 500, 'paths_symlink_checks': 1500,
              'paths_views_not_through_the_real_path': 7000},
    'thorough': {'oracle_evals': 1500000, 'history_ops': 40000, 'fresh_store_views': 120000, 'roundtrips': 4032,
                 'crash_points_line': 1100, 'crash_points_write': 4000, 'crash_points_fs': 480,
                 'crash_fired': 5500, 'crash_points_update': 3500, 'crash_points_delete': 800,
                 'crash_points_delete_all': 1000, 'crash_states_inspected': 5500, 'recovery_updates': 5500,
                 'strace_runs': 15, 'strace_renames_onto_final': 11,
                 'nscount_histories': 3000, 'nscount_ops': 25000, 'ns_emptied_by_delete_of_last_peer': 3000,
                 'ns_emptied_by_delete_all': 1000, 'ns_emptied_where_dropping_would_redirect_default': 1200,
                 'ns_appeared': 3000, 'ns_appeared_redirecting_default': 1000,
                 'default_store_views_after_namespace_count_event': 15000,
                 'live_default_store_views_after_namespace_count_event': 4000,
                 'paths_histories': 3400, 'paths_ops': 18000, 'paths_ops_through_symlink': 7000,
                 'paths_ops_relative_name_after_chdir': 2400, 'paths_deaths': 6000, 'paths_symlink_checks': 18000,
                 'paths_views_not_through_the_real_path': 84000},
}
CASE_TIMEOUT = 3600          # a loaded machine stretches fork latency a hundredfold; expiry = inconclusive
SHARD_TIMEOUT = {'quick': 1800, 'thorough': 14400}
EXHAUSTIVE_NOTE = ('crash: for every planned configuration and each mode enabled for it (line, write, write-half, fs; '
                   'listed in the case descriptor) the crash '
                   'index n runs 1,2,.. until the operation finishes without the failpoint firing, so every '
                   'LINE event of the JsonKeyStore/KeyStore code objects, every write() on a file in the '
                   'store directory and every before/after of mkdir/open/close/replace/rename/unlink is '
                   'visited; roundtrip: all 64 key-presence sets x 7 address types x 9 link-key types')

PY = sys.executable
MODES = ('line', 'write', 'write-half', 'fs')
MODE_CLASS = {'line': 'line', 'write': 'write', 'write-half': 'write', 'fs': 'fs'}
POINT_CAP = 20000
PEERS = ['F0:F1:F2:F3:F4:F5', 'A0:A1:A2:A3:A4:A5/P', '00:00:00:00:00:01', 'FF:FF:FF:FF:FF:FE/P']
WEIRD_PEERS = ['foo', 'pe"er\\', 'zü中', ' ', 'x' * 300]
NAMESPACES = ['C4:C3:C2:C1:C0:00', 'ns/é "two"', 'third']
ADDRESS_TYPES = [None, 0, 1, 2, 3, 0xFE, 0xFF]
LINK_KEY_TYPES = [None, 0, 3, 4, 5, 6, 7, 8, 0xFF]


# =============================================================================
# building bumble objects from model fields
# =============================================================================
def make_keys(fields):
    from bumble import hci
    from bumble.keys import PairingKeys

    kw = {}
    for name, v in fields.items():
        if name == 'address_type':
            kw[name] = hci.AddressType(v)
        elif name == 'link_key_type':
            kw[name] = v
        else:
            kw[name] = PairingKeys.Key(value=v[0], authenticated=v[1], ediv=v[2], rand=v[3])
    return PairingKeys(**kw)


def rand_key(rng: random.Random):
    ln = rng.choice([16, 16, 16, 16, 0, 1, 32])
    value = bytes(rng.getrandbits(8) for _ in range(ln))
    if rng.random() < 0.1:
        value = bytes(ln) if rng.random() < 0.5 else b'\xff' * ln
    ediv = rng.choice([None, None, 0, 1, 0xFFFF, rng.getrandbits(16)])
    rand = rng.choice([None, None, b'', bytes(8), bytes(rng.getrandbits(8) for _ in range(8))])
    return (value, rng.random() < 0.5, ediv, rand)


def rand_fields(rng: random.Random, allow_irk=True, dense=None):
    p = dense if dense is not None else rng.choice([0.15, 0.4, 0.8])
    f = {}
    if rng.random() < p:
        f['address_type'] = rng.choice(ADDRESS_TYPES[1:])
    if rng.random() < p:
        f['link_key_type'] = rng.choice(LINK_KEY_TYPES[1:])
    for name in ref.KEY_FIELDS:
        if name == 'irk' and not allow_irk:
            continue
        if rng.random() < p:
            f[name] = rand_key(rng)
    return f


def jf(fields):
    """fields -> JSON-able (the documented layout doubles as the wire format to the helper)."""
    return ref.encode_fields(fields)


def show_db(db):
    return json.dumps(ref.encode_db(db), sort_keys=True)[:700]


# =============================================================================
# comparing a live store with the model
# =============================================================================
async def compare_views(store, ns_arg, model: ref.Model, r, peers, keyfn, ctx, check_resolving=True):
    """get_all / get(each peer) / get_resolving_keys of `store` against the model.
    keyfn(clause) -> mechanism key.  Returns False on the first mismatch."""
    expect = model.view(ns_arg)
    r.ev('store_views')
    try:
        got_all = await store.get_all()
    except Exception as e:
        r.ev('oracle_evals')
        r.bad(keyfn('get_all-raised/' + type(e).__name__), f'get_all raised {e!r}; {ctx()}')
        return False
    problems = []
    got = {}
    dup = False
    for name, pk in got_all:
        if name in got:
            dup = True
        got[name] = ref.fields_of(pk, problems)
    r.ev('oracle_evals')
    if dup or got != expect or problems:
        r.bad(keyfn('get_all'), f'get_all={show_db({"_": got}) if not problems else problems} expected '
                                f'{show_db({"_": expect})}; {ctx()}')
        return False
    for peer in peers:
        try:
            pk = await store.get(peer)
        except Exception as e:
            r.ev('oracle_evals')
            r.bad(keyfn('get-raised/' + type(e).__name__), f'get({peer!r}) raised {e!r}; {ctx()}')
            return False
        e = expect.get(peer)
        g = None if pk is None else ref.fields_of(pk, problems)
        r.ev('oracle_evals')
        if g != e or problems:
            r.bad(keyfn('get'), f'get({peer!r})={g} {problems} expected {e}; {ctx()}')
            return False
    if check_resolving:
        exp_res = model.resolving(ns_arg)
        if all(a is not None for (_i, a, _t) in exp_res):
            try:
                res = await store.get_resolving_keys()
            except Exception as e:
                r.ev('oracle_evals')
                r.bad(keyfn('get_resolving_keys-raised/' + type(e).__name__),
                      f'get_resolving_keys raised {e!r}; {ctx()}')
                return False
            got_res = sorted((bytes(irk), bytes(addr), int(addr.address_type)) for irk, addr in res)
            r.ev('oracle_evals')
            r.ev('resolving_key_views')
            if got_res != sorted(exp_res):
                r.bad(keyfn('get_resolving_keys'), f'got {got_res} expected {sorted(exp_res)}; {ctx()}')
                return False
    return True


def read_raw(path):
    """-> ('absent', None) | ('unparseable', why) | ('layout', why) | ('ok', model db)"""
    try:
        with open(path, 'rb') as f:
            data = f.read()
    except (FileNotFoundError, NotADirectoryError):
        return ('absent', None)
    try:
        obj = json.loads(data.decode('utf-8'))
    except Exception as e:
        return ('unparseable', f'{type(e).__name__}: {e}; {len(data)} bytes, tail {data[-40:]!r}')
    try:
        return ('ok', ref.decode_db(obj))
    except ref.LayoutError as e:
        return ('layout', str(e))


# =============================================================================
# history: lock-step model over a shared file
# =============================================================================
def rand_db(rng, namespaces, peers, weird):
    db = {}
    for ns in namespaces:
        db[ns] = {}
        for p in peers:
            if rng.random() < 0.6:
                db[ns][p] = rand_fields(rng, allow_irk=p not in weird)
    return db


def first_diff(a, b):
    """Class of the difference between the expected (a) and observed (b) keys of one peer."""
    if a is None or b is None:
        return 'entry-missing' if b is None else 'entry-unexpected'
    if set(a) - set(b) and all(a[m] == b[m] for m in set(a) & set(b)):
        return 'members-lost'
    if set(b) - set(a) and all(a[m] == b[m] for m in set(a) & set(b)):
        return 'members-unexpected'
    for m in list(ref.INT_FIELDS) + list(ref.KEY_FIELDS):
        x, y = (a or {}).get(m), (b or {}).get(m)
        if x == y:
            continue
        if m in ref.INT_FIELDS or x is None or y is None or not isinstance(x, tuple) or not isinstance(y, tuple):
            return m
        for i, sub in enumerate(('value', 'authenticated', 'ediv', 'rand')):
            if x[i] != y[i]:
                return f'key.{sub}'
        return m
    return 'none'


NSCOUNT_FILES = ('A1', 'A1 B1', 'A1 B0', 'A0 B1', 'A1 B1 D1', 'A2 B1', 'F1', 'A1 F1', 'A1 B1 F0', 'D1', 'A1 D0')


async def history(rng: random.Random, r, weird_ok=True, profile='random'):
    from bumble.keys import JsonKeyStore

    nscount = profile == 'nscount'
    base = tempfile.mkdtemp(prefix='c15h-')
    try:
        if nscount:
            layout = rng.choice(['nofile', 'emptyobj', 'prefilled', 'prefilled', 'prefilled'])
        else:
            layout = rng.choice(['nofile', 'nodir', 'emptyobj', 'prefilled', 'prefilled'])
        path = os.path.join(base, 'a', 'b', 'keys.json') if layout == 'nodir' else os.path.join(base, 'keys.json')
        nns = 2 if nscount else rng.choice([1, 2, 2, 3])
        namespaces = rng.sample(NAMESPACES, nns)
        use_default = nscount or rng.random() < 0.4
        ns_args = list(namespaces) + ([rng.choice([None, '', ref.DEFAULT_NAMESPACE])] if use_default else [])
        peers = rng.sample(PEERS, rng.randint(1, 2) if nscount else rng.randint(2, 4))
        weird = []
        if weird_ok and not nscount and rng.random() < 0.2:
            weird = [rng.choice(WEIRD_PEERS)]
        allpeers = peers + weird
        model = ref.Model()
        if layout == 'emptyobj':
            with open(path, 'w') as f:
                f.write('{}')
        elif layout == 'prefilled' and nscount:
            # directed files: which namespaces exist and how many entries each holds (0 = an empty
            # namespace, as the store itself leaves behind after deleting the last peer)
            shape = rng.choice(NSCOUNT_FILES)
            names = {'A': namespaces[0], 'B': namespaces[1], 'D': ref.DEFAULT_NAMESPACE, 'F': 'foreign:ns'}
            db = {}
            for tok in shape.split():
                db[names[tok[0]]] = {p: (rand_fields(rng) or {'ltk': rand_key(rng)})
                                     for p in (PEERS[:2] if tok[1] == '2' and len(allpeers) < 2 else allpeers)[:int(tok[1])]}
            model = ref.Model(db)
            r.ev('nscount_file_' + shape.replace(' ', '+'))
            with open(path, 'w', encoding='utf-8') as f:
                json.dump(ref.encode_db(model.db), f, indent=rng.choice([None, 2]))
        elif layout == 'prefilled':
            pool = list(namespaces) + ['foreign:ns'] + ([ref.DEFAULT_NAMESPACE] if rng.random() < 0.2 else [])
            model = ref.Model(rand_db(rng, rng.sample(pool, rng.randint(1, len(pool))), allpeers, weird))
            with open(path, 'w', encoding='utf-8') as f:
                if rng.random() < 0.5:
                    json.dump(ref.encode_db(model.db), f)
                else:
                    json.dump(ref.encode_db(model.db), f, indent=2, ensure_ascii=False)
        instances = []

        def open_instance():
            ns_arg = rng.choice(ns_args)
            instances.append((JsonKeyStore(ns_arg, path), ns_arg))
            return ns_arg

        if nscount:
            # one store of every kind (named A, named B, without namespace) exists BEFORE the first step
            for a in ns_args:
                instances.append((JsonKeyStore(a, path), a))
            r.ev('nscount_histories')
        else:
            for _ in range(rng.randint(1, 2)):
                open_instance()
        ops = []
        n_merge = n_del = 0
        max_inst = len(instances)
        tolerated_dropped = {}      # emptied namespace the file no longer lists -> 'op/store kind' that dropped it
        count_event = [False]       # the last operation emptied a namespace or made one appear

        def ctx():
            return f'layout={layout} ns_args={ns_args} ops={ops[-12:]} model={show_db(model.db)}'

        def file_bytes():
            try:
                with open(path, 'rb') as f:
                    return f.read()
            except OSError:
                return None

        async def verify(opname):
            before = file_bytes()
            seen_fresh = set()
            fresh_args = list(ns_args)
            if tolerated_dropped and not use_default:
                fresh_args.append(None)
            in_file = None
            if tolerated_dropped:
                st, rawdb = read_raw(path)
                in_file = ref.Model(rawdb) if st == 'ok' else None
            for who, (store, ns_arg) in ([('live', i) for i in instances] +
                                         [('fresh', (None, a)) for a in fresh_args]):
                if who == 'fresh':
                    store = JsonKeyStore(ns_arg, path)
                    r.ev('fresh_store_views')
                vk = model.kind(ns_arg)
                if count_event[0] and vk.startswith('default'):
                    r.ev('default_store_views_after_namespace_count_event')
                    r.ev(f'{who}_default_store_views_after_namespace_count_event')

                def keyfn(clause, who=who, vk=vk, ns_arg=ns_arg):
                    if (in_file is not None and vk.startswith('default')
                            and in_file.resolve(ns_arg) != model.resolve(ns_arg)):
                        # the store without namespace now resolves to a foreign namespace because an
                        # emptied namespace vanished from the file
                        by = sorted(set(tolerated_dropped.values()))[0]
                        return f'isolation/default-store-redirected/namespace-dropped-by-{by}/{clause}/{who}-store'
                    return f'view/{clause}/{who}-store/{vk}'

                ok = await compare_views(store, ns_arg, model, r, allpeers, keyfn,
                                         lambda: f'after {opname}; viewing ns_arg={ns_arg!r}; '
                                                 f'namespaces dropped from the file={tolerated_dropped}; ' + ctx())
                if not ok:
                    return False
            r.ev('oracle_evals')
            if file_bytes() != before:
                r.bad('exact/read-modified-file', f'reading changed the file; {ctx()}')
                return False
            return True

        if not await verify('open'):
            return None
        length = rng.randint(5, 16) if nscount else rng.randint(4, 36)
        for _step in range(length):
            op = rng.choices(['update', 'delete', 'delete_missing', 'delete_all', 'open', 'close'],
                             [4, 4.5, 0.4, 1.3, 0.5, 0.3] if nscount else [7, 2.5, 0.5, 0.7, 1.2, 0.6])[0]
            if op == 'open':
                if len(instances) >= (6 if nscount else 4):
                    continue
                ops.append(('open', open_instance()))
                max_inst = max(max_inst, len(instances))
                continue
            if op == 'close':
                if len(instances) <= (3 if nscount else 1):
                    continue
                instances.pop(rng.randrange(3 if nscount else 0, len(instances)))
                ops.append(('close',))
                continue
            store, ns_arg = rng.choice(instances)
            kind = model.kind(ns_arg)
            target = model.resolve(ns_arg)
            r.ev('history_ops')
            if nscount:
                r.ev('nscount_ops')
            count_event[0] = False
            pre_ns = set(model.db)
            pre_entries = len(model.db.get(target, {}))
            pre_default = model.resolve(None)
            exc = None
            if op == 'update':
                peer = rng.choice(allpeers)
                fields = rand_fields(rng, allow_irk=peer not in weird)
                if peer in model.view(ns_arg):
                    n_merge += 1
                ops.append(('update', ns_arg, peer, sorted(fields)))
                try:
                    await store.update(peer, make_keys(fields))
                except Exception as e:
                    exc = e
                model.update(ns_arg, peer, fields)
            elif op in ('delete', 'delete_missing'):
                present = list(model.view(ns_arg))
                if op == 'delete' and present:
                    peer = rng.choice(present)
                    n_del += 1
                else:
                    op = 'delete_missing'
                    absent = [p for p in allpeers + ['never:there'] if p not in present]
                    peer = rng.choice(absent)
                ops.append((op, ns_arg, peer))
                try:
                    await store.delete(peer)
                except KeyError as e:
                    if op == 'delete_missing':
                        r.ev('delete_missing_keyerror')
                    else:
                        exc = e
                except Exception as e:
                    exc = e
                if op == 'delete':
                    model.delete(ns_arg, peer)
            else:
                ops.append(('delete_all', ns_arg))
                n_del += 1
                try:
                    await store.delete_all()
                except Exception as e:
                    exc = e
                model.delete_all(ns_arg)
            r.ev('oracle_evals')
            if exc is not None:
                r.bad(f'exact/raised/{op}/{kind}/{type(exc).__name__}', f'{op} raised {exc!r}; {ctx()}')
                return None
            # ---- the raw file, decoded independently ---------------------------------
            status, raw = read_raw(path)
            r.ev('oracle_evals')
            r.ev('raw_file_checks')
            if status != 'ok':
                if status == 'absent' and not ref.strip_empty(model.db) and op == 'delete_missing':
                    pass
                else:
                    r.bad(f'exact/raw-file-{status}/{op}/{kind}', f'file after {op}: {status} {raw}; {ctx()}')
                    return None
            else:
                # ---- the number of namespaces ------------------------------------------------
                if op == 'delete_all' and target not in pre_ns:
                    r.ev('delete_all_on_namespace_not_in_file')
                    if target not in raw:       # left open: it may or may not create the namespace
                        model.db.pop(target, None)
                for ns in list(tolerated_dropped):
                    if ns in raw:
                        del tolerated_dropped[ns]
                for ns in model.db:
                    if not model.db[ns] and ns not in raw and ns not in tolerated_dropped:
                        tolerated_dropped[ns] = f'{op}/{kind}'
                        r.ev('emptied_namespaces_dropped_from_file')
                count_event[0] = False
                if pre_entries and not model.db.get(target, True):
                    count_event[0] = True
                    r.ev('ns_emptied_by_' + ('delete_all' if op == 'delete_all' else 'delete_of_last_peer'))
                    without = ref.Model({ns: v for ns, v in model.db.items() if ns != target})
                    if use_default and without.resolve(None) != model.resolve(None):
                        r.ev('ns_emptied_where_dropping_would_redirect_default')
                if target not in pre_ns and target in model.db:
                    count_event[0] = True
                    r.ev('ns_appeared')
                    if use_default and target != ref.DEFAULT_NAMESPACE and model.resolve(None) != pre_default:
                        r.ev('ns_appeared_redirecting_default')
                expect_raw = {ns: v for ns, v in model.db.items() if ns not in tolerated_dropped}
                if raw != expect_raw:
                    others = [ns for ns in set(raw) | set(expect_raw)
                              if ns != target and raw.get(ns) != expect_raw.get(ns)]
                    if others:
                        r.bad(f'isolation/other-namespace-changed/{op}/{kind}',
                              f'{op} on {target!r} changed {others}: file={show_db(raw)}; {ctx()}')
                    else:
                        e, g = expect_raw.get(target, {}), raw.get(target, {})
                        bad_peers = sorted(p for p in set(e) | set(g) if e.get(p) != g.get(p))
                        member = first_diff(e.get(bad_peers[0]), g.get(bad_peers[0])) if bad_peers else 'none'
                        r.bad(f'exact/raw-file/{op}/{kind}/{member}',
                              f'file after {op} = {show_db(raw)}; {ctx()}')
                    return None
            if not await verify(op):
                return None
        if (nns + use_default >= 2 or max_inst >= 2) and n_merge and n_del:
            r.sig('history', layout, tuple(map(str, ops)))
        r.evals()
        return {'layout': layout, 'ns_args': ns_args, 'peers': allpeers, 'ops': [list(map(str, o)) for o in ops[:12]],
                'final_db_namespaces': {ns: len(p) for ns, p in model.db.items()}}
    finally:
        shutil.rmtree(base, ignore_errors=True)


# =============================================================================
# paths: one real file reached through several file-system paths
# =============================================================================
PATH_LAYOUTS = ('symlink-same-dir', 'symlink-other-dir-absolute-target', 'symlink-other-dir-relative-target', 'symlink-chain',
                'symlink-dangling', 'directory-symlink', 'directory-symlink-dotdot', 'relative-path-cwd-changed',
                'relative-path-through-symlink-cwd-changed')


class _Die(BaseException):
    """the process 'dies' at a file-system step (raised out of the patched os.replace)"""


def build_path_layout(base, layout):
    """-> (real path, [(label, filename given to JsonKeyStore, cwd at the time the store is opened or None)], symlinks
    {path: target}, whether the real file exists at the start).  The real path is always the first access path."""
    real_base = os.path.realpath(base)
    mk = lambda *p: os.makedirs(os.path.join(real_base, *p), exist_ok=True)  # noqa
    j = lambda *p: os.path.join(real_base, *p)  # noqa
    links = {}

    def ln(target, at):
        os.symlink(target, at)
        links[at] = target

    mk('a'), mk('b'), mk('elsewhere')
    real = j('a', 'real.json')
    acc = [('real-path', real, None)]
    exists = True
    if layout == 'symlink-same-dir':
        ln('real.json', j('a', 'link.json'))
        acc.append(('file-symlink', j('a', 'link.json'), None))
    elif layout == 'symlink-other-dir-absolute-target':
        ln(real, j('b', 'link.json'))
        acc.append(('file-symlink', j('b', 'link.json'), None))
    elif layout == 'symlink-other-dir-relative-target':
        ln(os.path.join('..', 'a', 'real.json'), j('b', 'link.json'))
        acc.append(('file-symlink', j('b', 'link.json'), None))
    elif layout == 'symlink-chain':
        ln(os.path.join('..', 'a', 'real.json'), j('b', 'link1.json'))
        ln(j('b', 'link1.json'), j('elsewhere', 'link2.json'))
        acc.append(('file-symlink', j('b', 'link1.json'), None))
        acc.append(('file-symlink-to-symlink', j('elsewhere', 'link2.json'), None))
    elif layout == 'symlink-dangling':
        exists = False
        ln(real, j('b', 'link.json'))
        acc.append(('file-symlink', j('b', 'link.json'), None))
    elif layout == 'directory-symlink':
        ln(j('a'), j('b', 'dirlink'))
        acc.append(('directory-symlink', j('b', 'dirlink', 'real.json'), None))
    elif layout == 'directory-symlink-dotdot':
        mk('a', 'deep')
        ln(j('a', 'deep'), j('b', 'dirlink'))
        acc.append(('directory-symlink-dotdot', j('b', 'dirlink', '..', 'real.json'), None))
    elif layout == 'relative-path-cwd-changed':
        acc.append(('relative-path', 'real.json', j('a')))
        acc.append(('relative-path-dotdot', os.path.join('..', 'a', 'real.json'), j('b')))
    elif layout == 'relative-path-through-symlink-cwd-changed':
        ln(os.path.join('..', 'a', 'real.json'), j('b', 'link.json'))
        acc.append(('relative-path-to-file-symlink', 'link.json', j('b')))
        acc.append(('relative-path', os.path.join('a', 'real.json'), real_base))
    else:
        raise ValueError(layout)
    return real, acc, links, exists


async def paths_history(rng: random.Random, r, layout):
    """2-3 named namespaces in ONE real file; every store reaches it through its own path (the real path, a symbolic
    link to the file, a symbolic link to a directory on the way, a relative name given before the working directory
    changed).  After every operation: the REAL file holds the model, every symbolic link is still the same link, every
    live and every fresh store through every path shows the model; some operations 'die' right before / after the
    rename and the same is demanded with the previous / the new state."""
    from bumble.keys import JsonKeyStore

    base = tempfile.mkdtemp(prefix='c15p-')
    cwd0 = os.getcwd()
    try:
        real, acc, links, exists = build_path_layout(base, layout)
        later_cwd = os.path.join(os.path.realpath(base), 'elsewhere')
        namespaces = rng.sample(NAMESPACES, rng.choice([2, 3]))
        peers = rng.sample(PEERS, rng.randint(2, 3))
        model = ref.Model()
        if exists:
            pre = rng.choice(['absent', 'emptyobj', 'prefilled', 'prefilled'])
            if pre == 'emptyobj':
                with open(real, 'w') as f:
                    f.write('{}')
            elif pre == 'prefilled':
                model = ref.Model(rand_db(rng, rng.sample(namespaces + ['foreign:ns'], rng.randint(1, len(namespaces) + 1)), peers, []))
                with open(real, 'w', encoding='utf-8') as f:
                    json.dump(ref.encode_db(model.db), f, indent=rng.choice([None, 2]))
        else:
            pre = 'absent'
        listing0 = {d: sorted(os.listdir(d)) for d in {os.path.dirname(real)} | {os.path.dirname(p) for p in links}}

        def open_store(ns, a):
            label, filename, cwd = a
            if cwd is None:
                return JsonKeyStore(ns, filename)
            os.chdir(cwd)
            try:
                return JsonKeyStore(ns, filename)
            finally:
                os.chdir(later_cwd)

        os.chdir(later_cwd)
        # namespace k is worked on through access path k (round robin): different namespaces through different paths
        live = []
        for k, ns in enumerate(namespaces):
            a = acc[(k + rng.randrange(len(acc))) % len(acc)] if k else acc[-1]
            live.append([open_store(ns, a), ns, a])
        if all(a[0] == live[0][2][0] for _s, _n, a in live):
            live[-1][2] = acc[0]
            live[-1][0] = open_store(live[-1][1], acc[0])
        ops = []
        r.ev('paths_histories')
        r.ev('paths_layout_' + layout)

        def ctx():
            return (f'layout={layout} real={os.path.relpath(real, base)} links={ {os.path.relpath(k, base): v for k, v in links.items()} } '
                    f'stores={[(n, a[0], a[1] if a[2] else os.path.relpath(a[1], base), a[2] and os.path.relpath(a[2], base)) for _s, n, a in live]} '
                    f'initial={pre} ops={ops[-10:]} model={show_db(model.db)}')

        async def verify(opname, via):
            # 1. the real file
            status, raw = read_raw(real)
            r.ev('oracle_evals')
            r.ev('paths_real_file_checks')
            want = ref.strip_empty(model.db)
            if status == 'absent' and not want and not exists_now[0]:
                pass
            elif status != 'ok':
                r.bad(f'paths/real-file-{status}/{opname}/{layout}/via-{via}', f'real file after {opname}: {status} {raw}; {ctx()}')
                return False
            elif ref.strip_empty(raw) != want:
                r.bad(f'paths/real-file-not-the-one-updated/{opname}/{layout}/via-{via}',
                      f'real file after {opname} = {show_db(raw)}; {ctx()}')
                return False
            else:
                exists_now[0] = True
            # 2. the links are still the links
            for lp, target in links.items():
                r.ev('oracle_evals')
                r.ev('paths_symlink_checks')
                if not os.path.islink(lp) or os.readlink(lp) != target:
                    what = 'gone' if not os.path.lexists(lp) else 'a regular file' if not os.path.islink(lp) else f'a link to {os.readlink(lp)}'
                    r.bad(f'paths/symlink-replaced/{opname}/{layout}/via-{via}',
                          f'{os.path.relpath(lp, base)} was a symbolic link to {target}, after {opname} it is {what}; {ctx()}')
                    return False
            # 3. no other file appeared or vanished (a left-over *.tmp after a death is allowed)
            for d, names in listing0.items():
                now = sorted(n for n in os.listdir(d) if not n.endswith('.tmp'))
                r.ev('oracle_evals')
                if [n for n in now if n != os.path.basename(real) or d != os.path.dirname(real)] != \
                        [n for n in names if n != os.path.basename(real) or d != os.path.dirname(real)]:
                    r.bad(f'paths/directory-entries-changed/{opname}/{layout}/via-{via}',
                          f'{os.path.relpath(d, base)} held {names}, after {opname} {now}; {ctx()}')
                    return False
            # 4. every view through every path
            for who, store, ns, a in ([('live', s, n, a) for s, n, a in live] +
                                      [('fresh', None, n, a) for n in namespaces for a in acc]):
                if who == 'fresh':
                    store = open_store(ns, a)
                    r.ev('fresh_store_views')
                r.ev('paths_views')
                if a[0] != 'real-path':
                    r.ev('paths_views_not_through_the_real_path')

                def keyfn(clause, who=who, a=a):
                    return f'paths/view/{clause}/{who}-store/{layout}/seen-via-{a[0]}/written-via-{via}'
                if not await compare_views(store, ns, model, r, peers, keyfn,
                                           lambda: f'after {opname}; viewing {ns!r} through {a[0]}; ' + ctx()):
                    return False
            return True

        exists_now = [exists and pre != 'absent']
        if not await verify('open', 'nothing'):
            return None
        for _step in range(rng.randint(5, 12)):
            k = rng.randrange(len(live))
            store, ns, a = live[k]
            op = rng.choices(['update', 'delete', 'delete_all', 'reopen'], [7, 2.5, 0.6, 1.5])[0]
            if op == 'reopen':
                a = rng.choice(acc)
                live[k] = [open_store(ns, a), ns, a]
                ops.append(('reopen', ns, a[0]))
                continue
            if op == 'delete' and not model.view(ns):
                op = 'update'
            die = rng.choice([None, None, None, 'before-rename', 'after-rename'])
            r.ev('paths_ops')
            r.ev('history_ops')
            if a[0] != 'real-path':
                r.ev('paths_ops_not_through_the_real_path')
            if 'symlink' in a[0]:
                r.ev('paths_ops_through_symlink')
            if a[2]:
                r.ev('paths_ops_relative_name_after_chdir')
            after = model.copy()
            if op == 'update':
                peer = rng.choice(peers)
                fields = rand_fields(rng)
                ops.append(('update', ns, a[0], peer, sorted(fields), die))
                after.update(ns, peer, fields)
                call = lambda: store.update(peer, make_keys(fields))  # noqa
            elif op == 'delete':
                peer = rng.choice(list(model.view(ns)))
                ops.append(('delete', ns, a[0], peer, die))
                after.delete(ns, peer)
                call = lambda: store.delete(peer)  # noqa
            else:
                ops.append(('delete_all', ns, a[0], die))
                after.delete_all(ns)
                call = lambda: store.delete_all()  # noqa
            exc = None
            died = False
            real_replace = os.replace
            if die:
                def dying_replace(*args, **kw):
                    if die == 'before-rename':
                        raise _Die()
                    real_replace(*args, **kw)
                    raise _Die()
                os.replace = dying_replace
            try:
                await call()
            except _Die:
                died = True
            except Exception as e:
                exc = e
            finally:
                os.replace = real_replace
            r.ev('oracle_evals')
            if exc is not None:
                r.bad(f'paths/raised/{op}/{layout}/via-{a[0]}/{type(exc).__name__}', f'{op} raised {exc!r}; {ctx()}')
                return None
            opname = op
            if die:
                r.ev('oracle_evals')
                if not died:
                    # no rename at all: legitimate only if the file is complete anyhow, which verify() decides
                    r.ev('paths_death_point_not_reached')
                else:
                    r.ev('paths_deaths')
                    r.ev('paths_deaths_' + die)
                    opname = f'{op}-died-{die}'
                    # the dead process's store object is gone; a new process opens the same path
                    live[k] = [open_store(ns, a), ns, a]
            if not (died and die == 'before-rename'):
                model = after
            if not await verify(opname, a[0]):
                return None
        r.sig('paths', layout, tuple(map(str, ops)))
        r.evals()
        return {'layout': layout, 'access_paths': [a[0] for a in acc], 'namespaces': namespaces,
                'ops': [list(map(str, o)) for o in ops[:10]]}
    finally:
        os.chdir(cwd0)
        shutil.rmtree(base, ignore_errors=True)


# =============================================================================
# roundtrip: all field combinations
# =============================================================================
def roundtrip_combos():
    out = []
    i = 0
    for mask in range(64):
        for at in ADDRESS_TYPES:
            for lkt in LINK_KEY_TYPES:
                out.append((i, mask, at, lkt))
                i += 1
    return out


def combo_fields(i, mask, at, lkt):
    rng = random.Random(i)
    f = {}
    if at is not None:
        f['address_type'] = at
    if lkt is not None:
        f['link_key_type'] = lkt
    settings = []
    for j, name in enumerate(ref.KEY_FIELDS):
        if mask >> j & 1:
            s = (i + 3 * j) % 8
            settings.append(s)
            ln = [16, 16, 0, 1, 32, 16, 16, 7][(i + j) % 8]
            value = bytes(rng.getrandbits(8) for _ in range(ln))
            ediv = [0, 1, 0xFFFF, rng.getrandbits(16)][(i // 8 + j) % 4] if s & 2 else None
            rnd = [bytes(8), b'', bytes(rng.getrandbits(8) for _ in range(8))][(i // 8 + j) % 3] if s & 4 else None
            f[name] = (value, bool(s & 1), ediv, rnd)
    return f, tuple(settings)


async def roundtrip_case(case, r):
    from bumble.keys import JsonKeyStore, PairingKeys

    base = tempfile.mkdtemp(prefix='c15r-')
    try:
        combos = roundtrip_combos()[case['lo']:case['hi']]
        for (i, mask, at, lkt) in combos:
            fields, settings = combo_fields(i, mask, at, lkt)
            peer = PEERS[i % len(PEERS)]
            ns = NAMESPACES[i % len(NAMESPACES)]
            path = os.path.join(base, f'k{i}.json')
            r.ev('roundtrips')
            where = lambda: f'combo mask={mask:06b} address_type={at} link_key_type={lkt} fields={jf(fields)}'
            # (a) through the store and a fresh store
            await JsonKeyStore(ns, path).update(peer, make_keys(fields))
            got = await JsonKeyStore(ns, path).get(peer)
            problems = []
            g = None if got is None else ref.fields_of(got, problems)
            r.ev('oracle_evals')
            if g != fields or problems:
                r.bad(f'roundtrip/store/{first_diff(fields, g) if g != fields else "python-type"}', f'stored then read {g} {problems}; {where()}')
            # address type must come back as the enum it went in as
            if got is not None and at is not None:
                r.ev('oracle_evals')
                if type(got.address_type) is not type(make_keys(fields).address_type):
                    r.bad('roundtrip/store/address_type-class', f'{type(got.address_type).__name__}; {where()}')
            # (b) the layout on disk
            status, raw = read_raw(path)
            r.ev('oracle_evals')
            if status != 'ok' or raw != {ns: {peer: fields}}:
                member = first_diff(fields, raw.get(ns, {}).get(peer)) if status == 'ok' else status
                r.bad(f'roundtrip/layout-written/{member}', f'file: {status} {raw}; {where()}')
            # (c) a file written by the reference encoder
            path2 = os.path.join(base, f'r{i}.json')
            with open(path2, 'w', encoding='utf-8') as f:
                json.dump(ref.encode_db({ns: {peer: fields}, 'other': {}}), f)
            allk = await JsonKeyStore(ns, path2).get_all()
            problems = []
            g2 = {n: ref.fields_of(pk, problems) for n, pk in allk}
            r.ev('oracle_evals')
            if g2 != {peer: fields} or problems:
                r.bad(f'roundtrip/layout-read/{first_diff(fields, g2.get(peer)) if g2 != {peer: fields} else "python-type"}',
                      f'reference-written file read as {g2} {problems}; {where()}')
            # (d) the dict codecs directly
            problems = []
            g3 = ref.fields_of(PairingKeys.from_dict(json.loads(json.dumps(jf(fields)))), problems)
            r.ev('oracle_evals')
            if g3 != fields or problems:
                r.bad(f'roundtrip/from_dict/{first_diff(fields, g3) if g3 != fields else "python-type"}', f'{g3} {problems}; {where()}')
            try:
                g4 = ref.decode_fields(json.loads(json.dumps(make_keys(fields).to_dict())))
            except ref.LayoutError as e:
                g4 = {'_layout_error': str(e)}
            r.ev('oracle_evals')
            if g4 != fields:
                r.bad(f'roundtrip/to_dict/{first_diff(fields, g4)}', f'{g4}; {where()}')
            os.unlink(path)
            os.unlink(path2)
            r.sig('roundtrip', mask, at, lkt, settings)
            r.evals()
        r.sample = {'kind': 'roundtrip', 'combos': len(combos), 'last': jf(fields)}
    finally:
        shutil.rmtree(base, ignore_errors=True)


# =============================================================================
# crash / strace configurations
# =============================================================================
INITS = ('nodir', 'nofile', 'emptyobj', 'one', 'multi', 'multi-default')
STORES = ('named', 'named-new', 'default')
OPS = ('update-new', 'update-merge', 'update-same', 'delete', 'delete-missing', 'delete_all')
PROBE_PEER = 'DE:AD:BE:EF:00:01'
PROBE_FIELDS = {'address_type': 1, 'ltk': (bytes(range(16)), True, 7, bytes(8))}


def build_config(cfg):
    """cfg -> dict(old=Model|None, ns_arg, op, peer, fields, main_rel, init_files, init_dirs) or None."""
    rng = random.Random(cfg['seed'])
    init, store, opname = cfg['init'], cfg['store'], cfg['op']
    size = cfg.get('size', 'small')
    main_rel = 'a/b/keys.json' if init == 'nodir' else 'keys.json'
    dense = {'tiny': 0.0, 'small': 0.5, 'big': 0.9}[size]
    if init in ('nodir', 'nofile'):
        old = None
    elif init == 'emptyobj':
        old = ref.Model()
    else:
        nss = {'one': NAMESPACES[:1], 'multi': NAMESPACES[:3],
               'multi-default': NAMESPACES[:2] + [ref.DEFAULT_NAMESPACE]}[init]
        npeers = {'tiny': 1, 'small': 2, 'big': 4}[size]
        db = {ns: {p: rand_fields(rng, dense=dense) for p in PEERS[:npeers]} for ns in nss}
        for ns in nss:      # make sure entries are not empty
            for p in db[ns]:
                db[ns][p].setdefault('ltk', rand_key(rng))
        old = ref.Model(db)
    ns_arg = {'named': NAMESPACES[0], 'named-new': 'brand:new', 'default': None}[store]
    base_model = old if old is not None else ref.Model()
    view = base_model.view(ns_arg)
    op = opname.split('-')[0]
    peer = None
    fields = {}
    if opname == 'update-new':
        peer = next(p for p in PEERS + ['AB:CD:EF:01:02:03'] if p not in view)
        fields = rand_fields(rng, dense=0.0 if size == 'tiny' else 0.7)
        fields.setdefault('irk', rand_key(rng))
        fields.setdefault('address_type', 0)
    elif opname in ('update-merge', 'update-same', 'delete'):
        if not view:
            return None
        peer = sorted(view)[0]
        if opname == 'update-merge':
            fields = rand_fields(rng, dense=0.0 if size == 'tiny' else 0.5)
            fields['csrk'] = rand_key(rng)
            fields['ltk'] = rand_key(rng)
        elif opname == 'update-same':
            fields = dict(view[peer])
    elif opname == 'delete-missing':
        peer = 'never:there'
    init_files = []
    if old is not None:
        text = json.dumps(ref.encode_db(old.db), indent=rng.choice([None, 4]), sort_keys=rng.random() < 0.5)
        init_files.append([main_rel, text])
    if cfg.get('stale_tmp'):
        if init == 'nodir':
            return None
        init_files.append([main_rel + '.tmp', '{"stale": "' + 'G' * 6000 + '"'])
    new = base_model.copy()
    if op == 'update':
        new.update(ns_arg, peer, fields)
    elif op == 'delete':
        new.delete(ns_arg, peer)
    else:
        new.delete_all(ns_arg)
    return dict(old=old, new=new, ns_arg=ns_arg, op=op, opname=opname, peer=peer, fields=fields,
                main_rel=main_rel, init_files=init_files, kind=base_model.kind(ns_arg))


def cfg_label(cfg):
    return (f'{cfg["init"]}/{cfg["store"]}/{cfg["op"]}' + ('/stale-tmp' if cfg.get('stale_tmp') else '')
            + '/' + cfg.get('size', 'small'))


def all_configs(seed):
    out = []
    for init, store, op in itertools.product(INITS, STORES, OPS):
        for stale in (False, True):
            cfg = {'init': init, 'store': store, 'op': op, 'stale_tmp': stale, 'seed': seed}
            if build_config(cfg) is not None:
                out.append(cfg)
    return out


def write_spec(base, cfg, bc, modes):
    spec = {'base': base, 'main_rel': bc['main_rel'], 'init_files': bc['init_files'], 'ns': bc['ns_arg'],
            'op': bc['op'], 'peer': bc['peer'], 'fields': jf(bc['fields']), 'modes': list(modes),
            'cap': POINT_CAP, 'out': os.path.join(base, 'results.json')}
    path = os.path.join(base, 'spec.json')
    with open(path, 'w') as f:
        json.dump(spec, f)
    return path


def reset_cur(spec):
    cur = os.path.join(spec['base'], 'cur')
    shutil.rmtree(cur, ignore_errors=True)
    os.makedirs(cur)
    for rel, text in spec['init_files']:
        p = os.path.join(cur, rel)
        os.makedirs(os.path.dirname(p), exist_ok=True)
        with open(p, 'w', encoding='utf-8') as f:
            f.write(text)
    return cur


# =============================================================================
# helper process: `python -m checks.c15 enumerate|op spec.json`
# =============================================================================
def _collect_codes():
    from bumble import keys as bkeys

    codes = []

    def add(code):
        if code in codes or not code.co_filename.endswith('keys.py'):
            return
        codes.append(code)
        for c in code.co_consts:
            if hasattr(c, 'co_code'):
                add(c)

    for cls in (bkeys.JsonKeyStore, bkeys.KeyStore):
        for v in vars(cls).values():
            f = getattr(v, '__func__', v)
            code = getattr(f, '__code__', None)
            if code is not None:
                add(code)
    for v in vars(bkeys).values():
        code = getattr(v, '__code__', None)
        if code is not None and getattr(v, '__module__', None) == bkeys.__name__:
            add(code)
    return codes


def _arm(mode, n, report_fd, cur):
    """Install the failpoint in this (victim) process."""
    import builtins
    import io

    def die(where):
        try:
            os.write(report_fd, json.dumps({'where': where}).encode())
        finally:
            os._exit(137)

    if mode == 'line':
        mon = sys.monitoring
        tool = mon.PROFILER_ID
        mon.use_tool_id(tool, 'c15-failpoint')
        count = [0]

        def on_line(code, line):
            count[0] += 1
            if count[0] == n:
                die(f'before line {line} of {code.co_qualname}')

        mon.register_callback(tool, mon.events.LINE, on_line)
        for code in _collect_codes():
            mon.set_local_events(tool, code, mon.events.LINE)
        return

    prefix = cur + os.sep
    count = [0]

    def rel(p):
        return p[len(prefix):] if p.startswith(prefix) else p

    def path_of(x):
        if isinstance(x, int) and not isinstance(x, bool):
            try:
                return os.readlink(f'/proc/self/fd/{x}')
            except OSError:
                return None
        try:
            return os.path.abspath(os.fspath(x))
        except TypeError:
            return None

    def inside(p):
        return isinstance(p, str) and (p.startswith(prefix) or p == cur)

    def step(when, name, p):
        if mode != 'fs':
            return
        count[0] += 1
        if count[0] == n:
            die(f'{when} {name} {rel(p)}')

    class FileProxy:
        def __init__(self, f, p):
            object.__setattr__(self, '_f', f)
            object.__setattr__(self, '_p', p)

        def write(self, data):
            if mode in ('write', 'write-half'):
                count[0] += 1
                if count[0] == n:
                    if mode == 'write-half':
                        self._f.write(data[:len(data) // 2])
                        self._f.flush()
                    die(f'{"in the middle of" if mode == "write-half" else "before"} write #{n} '
                        f'({len(data)} units) to {rel(self._p)}')
            res = self._f.write(data)
            self._f.flush()
            return res

        def writelines(self, lines):
            for line in lines:
                self.write(line)

        def close(self):
            if self._f.closed:
                return
            step('before', 'close', self._p)
            self._f.close()
            step('after', 'close', self._p)

        def __enter__(self):
            return self

        def __exit__(self, *a):
            self.close()
            return False

        def __iter__(self):
            return iter(self._f)

        def __getattr__(self, name):
            return getattr(self._f, name)

        def __setattr__(self, name, value):
            setattr(self._f, name, value)

    real_open = builtins.open

    def w_open(file, mode_='r', *a, **kw):
        p = path_of(file)
        ins = inside(p)
        if ins:
            step('before', 'open', p)
        f = real_open(file, mode_, *a, **kw)
        if ins:
            step('after', 'open', p)
            if any(c in mode_ for c in 'wax+'):
                return FileProxy(f, p)
        return f

    builtins.open = w_open
    io.open = w_open
    from bumble import keys as bkeys
    if 'open' in vars(bkeys):
        bkeys.open = w_open

    def wrap_os(name, fd_based=False):
        real = getattr(os, name, None)
        if real is None:
            return

        def w(*a, **kw):
            ps = [path_of(x) for x in a[:2] if isinstance(x, (str, bytes, os.PathLike)) or
                  (fd_based and isinstance(x, int))]
            hit = next((p for p in ps if inside(p)), None)
            if hit:
                step('before', 'os.' + name, hit)
            res = real(*a, **kw)
            if hit:
                step('after', 'os.' + name, hit)
            return res

        setattr(os, name, w)

    for name in ('mkdir', 'replace', 'rename', 'unlink', 'remove', 'rmdir', 'link', 'symlink', 'truncate',
                 'open', 'chmod'):
        wrap_os(name)
    for name in ('fsync', 'fdatasync', 'ftruncate', 'close'):
        wrap_os(name, fd_based=True)
    real_os_write = os.write

    def w_os_write(fd, data):
        p = path_of(fd)
        if inside(p) and mode in ('write', 'write-half'):
            count[0] += 1
            if count[0] == n:
                if mode == 'write-half':
                    real_os_write(fd, data[:len(data) // 2])
                die(f'os.write #{n} to {rel(p)}')
        return real_os_write(fd, data)

    os.write = w_os_write


class _NeedsLoop(BaseException):
    pass


def _perform(spec, cur, before_run=None, use_loop=True):
    from bumble.keys import JsonKeyStore

    store = JsonKeyStore(spec['ns'], os.path.join(cur, spec['main_rel']))
    if spec['op'] == 'update':
        keys = make_keys(ref.decode_fields(spec['fields']))
    if before_run:
        before_run()
    if spec['op'] == 'update':
        coro = store.update(spec['peer'], keys)
    elif spec['op'] == 'delete':
        coro = store.delete(spec['peer'])
    else:
        coro = store.delete_all()
    if use_loop:
        asyncio.run(coro)
        return
    # the store's coroutines never really suspend: run them without an event loop (a loop
    # costs more than the operation); if one does suspend, the helper switches to a loop
    try:
        coro.send(None)
    except StopIteration:
        return
    raise _NeedsLoop()


def _helper_main(argv):
    import logging
    import signal

    logging.disable(logging.CRITICAL)
    what = argv[0]
    with open(argv[1]) as f:
        spec = json.load(f)
    base = spec['base']
    cur = os.path.join(base, 'cur')
    import gc

    import bumble.keys  # noqa: F401  (imported once, before any fork)
    parent = os.getppid()
    use_loop = False

    if what == 'op':
        try:
            _perform(spec, cur)
        except KeyError:
            os._exit(3)
        os._exit(0)

    results = []
    gc.collect()
    gc.freeze()
    gc.disable()
    for mode in spec['modes']:
        n = 0
        while True:
            n += 1
            if n > spec['cap']:
                results.append({'mode': mode, 'n': n, 'code': None, 'cut': True})
                break
            if os.getppid() != parent:      # the check that started us is gone
                os._exit(5)
            reset_cur(spec)
            rfd, wfd = os.pipe()
            pid = os.fork()
            if pid == 0:
                code = 0
                try:
                    os.close(rfd)
                    signal.alarm(30)
                    _perform(spec, cur, before_run=lambda: _arm(mode, n, wfd, cur), use_loop=use_loop)
                except _NeedsLoop:
                    os._exit(4)
                except BaseException as e:
                    code = 3
                    try:
                        os.write(wfd, json.dumps({'exc': type(e).__name__, 'text': repr(e)[:300]}).encode())
                    except BaseException:
                        pass
                os._exit(code)
            os.close(wfd)
            chunks = []
            while True:
                b = os.read(rfd, 65536)
                if not b:
                    break
                chunks.append(b)
            os.close(rfd)
            _pid, st = os.waitpid(pid, 0)
            code = os.waitstatus_to_exitcode(st)
            try:
                info = json.loads(b''.join(chunks).decode()) if chunks else {}
            except Exception:
                info = {'garbled': True}
            if code == 4 and not use_loop:
                use_loop = True
                n -= 1
                continue
            dname = f'c-{mode}-{n}'
            os.rename(cur, os.path.join(base, dname))
            results.append({'mode': mode, 'n': n, 'code': code, 'dir': dname, **info})
            if code != 137:
                break
    with open(spec['out'] + '.part', 'w') as f:
        json.dump(results, f)
    os.rename(spec['out'] + '.part', spec['out'])
    os._exit(0)


# =============================================================================
# crash: parent side
# =============================================================================
def classify_state(path, bc, r):
    """-> (state_name, model) where state_name in old|new|both, or (problem_clause, detail)."""
    status, raw = read_raw(path)
    old, new = bc['old'], bc['new']
    if status == 'absent':
        if old is None:
            return ('old', None)
        return ('main-file-missing', 'the database file is gone')
    if status == 'unparseable':
        return ('main-file-unparseable', raw)
    if status == 'layout':
        return ('main-file-not-a-database', raw)
    is_old = old is not None and raw == old.db
    n2 = new.copy()
    n2.sync_empty_namespaces(raw)
    is_new = raw == n2.db
    if is_old and is_new:
        return ('both', n2)
    if is_new:
        return ('new', n2)
    if is_old:
        return ('old', old)
    return ('main-file-mixture', f'file={show_db(raw)}')


async def inspect_state(path, bc, model, r, keyprefix, ctx):
    """Fresh stores on `path` must show `model` (None = no database yet); then one more
    update through a fresh store must work and land on top of that state."""
    from bumble.keys import JsonKeyStore

    m = model.copy() if model is not None else ref.Model()
    universe = list(dict.fromkeys([bc['ns_arg']] + list(m.db) + [None, NAMESPACES[1]]))
    peers = list(dict.fromkeys(PEERS + [p for ns in m.db.values() for p in ns] + [PROBE_PEER]))
    for ns_arg in universe:
        r.ev('fresh_store_views')
        ok = await compare_views(JsonKeyStore(ns_arg, path), ns_arg, m, r, peers,
                                 lambda clause: f'{keyprefix}/view-{clause}/{bc["op"]}',
                                 lambda: f'fresh store ns_arg={ns_arg!r}; {ctx()}')
        if not ok:
            return False
    # recovery: the next operation after the crash
    probe_kind = m.kind(bc['ns_arg'])
    try:
        await JsonKeyStore(bc['ns_arg'], path).update(PROBE_PEER, make_keys(PROBE_FIELDS))
    except Exception as e:
        r.ev('oracle_evals')
        if keyprefix.startswith('exact'):
            r.bad(f'exact/raised/update/{probe_kind}/{type(e).__name__}', f'next update raised {e!r}; {ctx()}')
        else:
            r.bad(f'crash/next-update-raised/{bc["op"]}/{type(e).__name__}', f'{e!r}; {ctx()}')
        return False
    m.update(bc['ns_arg'], PROBE_PEER, PROBE_FIELDS)
    status, raw = read_raw(path)
    if status == 'ok':
        m.sync_empty_namespaces(raw)
    r.ev('oracle_evals')
    r.ev('recovery_updates')
    if status != 'ok' or raw != m.db:
        detail = (f'file after the next update ({probe_kind} store): {status} '
                  f'{show_db(raw) if status == "ok" else raw}; {ctx()}')
        if keyprefix.startswith('exact'):
            r.bad(f'exact/raw-file-{status if status != "ok" else "mismatch"}/update/{probe_kind}', detail)
        else:
            r.bad(f'crash/next-update-wrong/{bc["op"]}', detail)
        return False
    return True


def run_helper(what, spec_path, timeout, prefix=()):
    env = dict(os.environ)
    return subprocess.run(list(prefix) + [PY, '-m', 'checks.c15', what, spec_path], env=env,
                          cwd=os.path.dirname(os.path.dirname(os.path.abspath(__file__))),
                          stdout=subprocess.PIPE, stderr=subprocess.STDOUT, timeout=timeout)


async def crash_case(case, r):
    cfg = case['cfg']
    bc = build_config(cfg)
    label = cfg_label(cfg)
    base = tempfile.mkdtemp(prefix='c15c-')
    try:
        spec_path = write_spec(base, cfg, bc, case.get('modes', MODES))
        try:
            p = run_helper('enumerate', spec_path, timeout=case.get('helper_timeout', 3000))
        except subprocess.TimeoutExpired:
            raise RuntimeError(f'crash helper timed out for {label}')
        results_path = os.path.join(base, 'results.json')
        if p.returncode != 0 or not os.path.exists(results_path):
            raise RuntimeError(f'crash helper failed rc={p.returncode} for {label}: {p.stdout[-800:]!r}')
        with open(results_path) as f:
            results = json.load(f)
        op, kind = bc['op'], bc['kind']
        terminals = [x for x in results if x.get('code') != 137]
        fired = [x for x in results if x.get('code') == 137]

        def ctx_for(x):
            return lambda: (f'config={label} store kind={kind} mode={x["mode"]} n={x["n"]} '
                            f'died {x.get("where")}; old={show_db(bc["old"].db) if bc["old"] else None} '
                            f'op={bc["opname"]}({bc["peer"]!r})')

        # ---- the runs in which the failpoint never fired: plain exactness -----------
        exact = True
        for x in terminals:
            r.ev('oracle_evals')
            if x.get('cut'):
                r.add_extra_list('crash_enumerations_cut', f'{label}/{x["mode"]}')
                raise RuntimeError(f'crash enumeration cut at {POINT_CAP} points for {label}/{x["mode"]}')
            if x['code'] not in (0, 3):
                raise RuntimeError(f'victim of {label}/{x["mode"]} ended with code {x["code"]}: {x}')
            if x['code'] == 3 and not (bc['opname'] == 'delete-missing' and x.get('exc') == 'KeyError'):
                r.bad(f'exact/raised/{bc["opname"] if op == "delete" else op}/{kind}/{x.get("exc")}',
                      f'{x.get("text")}; {ctx_for(x)()}')
                exact = False
                continue
            path = os.path.join(base, x['dir'], bc['main_rel'])
            state, m = classify_state(path, bc, r)
            want_new = ref.strip_empty(bc['old'].db if bc['old'] else {}) != ref.strip_empty(bc['new'].db)
            if state not in ('new', 'both') and (want_new or state != 'old'):
                clause = {'old': 'not-saved', 'main-file-missing': 'absent', 'main-file-unparseable': 'unparseable',
                          'main-file-not-a-database': 'layout', 'main-file-mixture': 'mismatch'}[state]
                r.bad(f'exact/raw-file-{clause}/{op}/{kind}',
                      f'after a complete {op}: {"file still holds the old database" if state == "old" else m}; '
                      f'{ctx_for(x)()}')
                exact = False
                continue
            r.ev('crash_complete_runs')
            if not await inspect_state(path, bc, m, r, 'exact/after-complete', ctx_for(x)):
                exact = False
        if not exact:
            r.ev('crash_configs_skipped_inexact')
            r.evals()
            r.sample = {'kind': 'crash', 'config': label, 'skipped': 'complete run not exact'}
            return
        # ---- every crash point ---------------------------------------------------------
        per_mode = {}
        states = {'old': 0, 'new': 0, 'both': 0}
        leftovers = 0
        for x in fired:
            mc = MODE_CLASS[x['mode']]
            per_mode[x['mode']] = per_mode.get(x['mode'], 0) + 1
            r.ev('crash_points_' + mc)
            r.ev('crash_points_' + op)
            r.ev('crash_fired')
            r.sig('crash', label, x['mode'], x['n'])
            d = os.path.join(base, x['dir'])
            path = os.path.join(d, bc['main_rel'])
            state, m = classify_state(path, bc, r)
            r.ev('oracle_evals')
            r.ev('crash_states_inspected')
            if state not in states:
                r.bad(f'crash/{state}/{op}', f'{m}; {ctx_for(x)()}')
                continue
            states[state] += 1
            names = []
            for root, _dirs, files in os.walk(d):
                names += [os.path.relpath(os.path.join(root, f), d) for f in files]
            if any(nm != bc['main_rel'] for nm in names):
                leftovers += 1
            await inspect_state(path, bc, m, r, 'crash', ctx_for(x))
        r.ev('crash_state_old', states['old'])
        r.ev('crash_state_new', states['new'])
        r.ev('crash_state_old_equals_new', states['both'])
        r.ev('crash_leftover_temp_files', leftovers)
        r.ev('crash_configs')
        r.extra['exhaustive_crash_points'] = len(fired)
        r.extra['crash_enumerations_exhaustive'] = len(terminals)
        r.add_extra_list('crash_operations_enumerated', f'{bc["opname"]}/{kind}')
        r.evals()
        r.sample = {'kind': 'crash', 'config': label, 'store_kind': kind, 'points_per_mode': per_mode,
                    'states': states, 'leftover_temp_files': leftovers,
                    'first_points': [f'{x["mode"]}#{x["n"]}: {x.get("where")}' for x in fired[:3]],
                    'last_point': f'{fired[-1]["mode"]}#{fired[-1]["n"]}: {fired[-1].get("where")}' if fired else None}
    finally:
        shutil.rmtree(base, ignore_errors=True)


# =============================================================================
# strace: offline syscall-order checker
# =============================================================================
STRACE_SET = ('trace=file,write,pwrite64,writev,close,ftruncate,fsync,fdatasync,dup,dup2,dup3')
_LINE = re.compile(r'^(\d+)\s+(\w+)\((.*)\)\s+= (-?\d+|\?)(.*)$')
_QUOTED = re.compile(r'"((?:[^"\\]|\\.)*)"')
_FD = re.compile(r'^(\d+)<([^>]*)>')
WRITE_FLAGS = ('O_WRONLY', 'O_RDWR', 'O_TRUNC', 'O_CREAT', 'O_APPEND')


def check_trace(trace_text, final, watch_dir):
    """-> (violations [(clause, detail)], stats)"""
    bad = []
    stats = {'syscalls_in_dir': 0, 'renames_onto_final': 0, 'writes_in_dir': 0, 'opens_for_writing': 0}
    fdtab = {}          # (pid, fd) -> [path, writable]
    written = {}        # path -> bytes written since last open for writing
    opened_w = set()
    last_source_bytes = None
    for line in trace_text.splitlines():
        m = _LINE.match(line)
        if not m:
            continue
        pid, name, args, ret, rest = m.groups()
        if ret in ('?',) or ret.startswith('-'):
            continue
        if watch_dir not in line:
            continue
        stats['syscalls_in_dir'] += 1
        if name in ('open', 'openat', 'creat'):
            q = _QUOTED.search(args)
            if not q:
                continue
            path = os.path.normpath(q.group(1))
            flags = args[q.end():]
            writable = name == 'creat' or any(fl in flags for fl in WRITE_FLAGS)
            fdtab[(pid, ret)] = [path, writable]
            if writable:
                stats['opens_for_writing'] += 1
                opened_w.add(path)
                written[path] = 0 if ('O_TRUNC' in flags or 'O_CREAT' in flags or name == 'creat') \
                    else written.get(path, 0)
                if path == final:
                    bad.append(('final-opened-for-writing', line.strip()[:300]))
        elif name in ('write', 'pwrite64', 'writev'):
            fm = _FD.match(args)
            if not fm:
                continue
            path = fm.group(2)
            stats['writes_in_dir'] += 1
            written[path] = written.get(path, 0) + int(ret)
            ent = fdtab.get((pid, fm.group(1)))
            if ent is not None and ent[0] != path:      # renamed while open
                written[ent[0]] = written.get(ent[0], 0) + int(ret)
            if path == final:
                bad.append(('final-written-in-place', line.strip()[:300]))
        elif name == 'close':
            fm = _FD.match(args)
            if fm:
                fdtab.pop((pid, fm.group(1)), None)
        elif name in ('rename', 'renameat', 'renameat2'):
            qs = [os.path.normpath(x) for x in _QUOTED.findall(args)]
            if len(qs) < 2:
                continue
            src, dst = qs[0], qs[1]
            if dst == final:
                stats['renames_onto_final'] += 1
                if src not in opened_w:
                    bad.append(('rename-source-never-written', line.strip()[:300]))
                still = [k for k, v in fdtab.items() if v[0] == src and v[1]]
                if still:
                    bad.append(('rename-source-still-open', f'{line.strip()[:200]} with fds {still} open'))
                last_source_bytes = written.get(src)
            if src == final:
                bad.append(('final-renamed-away', line.strip()[:300]))
            for v in fdtab.values():
                if v[0] == src:
                    v[0] = dst
        elif name in ('unlink', 'unlinkat', 'truncate', 'rmdir', 'link', 'linkat'):
            qs = [os.path.normpath(x) for x in _QUOTED.findall(args)]
            if name in ('link', 'linkat'):
                if len(qs) >= 2 and qs[1] == final:
                    bad.append(('final-created-by-link', line.strip()[:300]))
            elif qs and qs[0] == final:
                bad.append((f'final-{name}', line.strip()[:300]))
        elif name == 'ftruncate':
            fm = _FD.match(args)
            if fm and fm.group(2) == final:
                bad.append(('final-ftruncate', line.strip()[:300]))
    stats['last_source_bytes'] = last_source_bytes
    return bad, stats


async def strace_case(case, r):
    cfg = case['cfg']
    bc = build_config(cfg)
    label = cfg_label(cfg)
    base = tempfile.mkdtemp(prefix='c15s-')
    try:
        spec_path = write_spec(base, cfg, bc, [])
        with open(spec_path) as f:
            spec = json.load(f)
        cur = reset_cur(spec)
        trace = os.path.join(base, 'trace.txt')
        try:
            p = run_helper('op', spec_path, timeout=120,
                           prefix=['strace', '-f', '-y', '-s', '0', '-o', trace, '-e', STRACE_SET])
        except subprocess.TimeoutExpired:
            raise RuntimeError(f'strace run timed out for {label}')
        if p.returncode not in (0, 3) or not os.path.exists(trace):
            raise RuntimeError(f'strace run failed rc={p.returncode} for {label}: {p.stdout[-600:]!r}')
        final = os.path.join(cur, bc['main_rel'])
        with open(trace, errors='replace') as f:
            text = f.read()
        bad, stats = check_trace(text, final, cur)
        r.ev('strace_runs')
        r.ev('strace_syscalls_in_dir', stats['syscalls_in_dir'])
        r.ev('strace_renames_onto_final', stats['renames_onto_final'])
        r.ev('strace_writes_in_dir', stats['writes_in_dir'])
        op, kind = bc['op'], bc['kind']
        for clause, detail in bad:
            r.ev('oracle_evals')
            r.bad(f'strace/{clause}/{op}', f'{detail}; config={label}')
        r.ev('oracle_evals', 1 + stats['syscalls_in_dir'])
        state, m = classify_state(final, bc, r)
        changed = ref.strip_empty(bc['old'].db if bc['old'] else {}) != ref.strip_empty(bc['new'].db)
        if p.returncode == 3 and bc['opname'] != 'delete-missing':
            r.bad(f'exact/raised/{op}/{kind}/KeyError', f'config={label}')
        elif state not in ('new', 'both') and (changed or state != 'old'):
            clause = {'old': 'not-saved', 'main-file-missing': 'absent', 'main-file-unparseable': 'unparseable',
                      'main-file-not-a-database': 'layout', 'main-file-mixture': 'mismatch'}[state]
            r.bad(f'exact/raw-file-{clause}/{op}/{kind}', f'after a complete {op} under strace: '
                  f'{"file still holds the old database" if state == "old" else m}; config={label}')
        else:
            if state in ('new', 'both') and os.path.exists(final):
                r.ev('oracle_evals')
                if stats['renames_onto_final'] == 0:
                    if changed:
                        r.bad(f'strace/final-changed-without-rename/{op}', f'config={label} stats={stats}')
                elif stats['last_source_bytes'] != os.path.getsize(final):
                    r.bad(f'strace/rename-source-size/{op}',
                          f'{stats["last_source_bytes"]} bytes written to the rename source, final file has '
                          f'{os.path.getsize(final)}; config={label}')
        r.sig('strace', label)
        r.evals()
        r.sample = {'kind': 'strace', 'config': label, **stats}
    finally:
        shutil.rmtree(base, ignore_errors=True)


# =============================================================================
# plan / dispatch
# =============================================================================
def plan(tier, seed):
    cases = []
    quick = tier == 'quick'
    nh = 48 if quick else 200
    for i in range(nh):
        cases.append({'kind': 'history', 'seed': seed * 100003 + i, 'histories': 12 if quick else 25})
    for i in range(32 if quick else 200):
        cases.append({'kind': 'nscount', 'seed': seed * 100019 + i, 'histories': 16 if quick else 25})
    for i in range(16 if quick else 96):
        cases.append({'kind': 'paths', 'seed': seed * 100043 + i, 'rounds': 2 if quick else 4})
    total = len(roundtrip_combos())
    step = 126
    for lo in range(0, total, step):
        cases.append({'kind': 'roundtrip', 'lo': lo, 'hi': min(total, lo + step)})
    cfgs = all_configs(seed)
    crash = []
    if quick:
        for c in cfgs:
            key = (c['init'], c['store'], c['op'])
            if c['stale_tmp']:
                if key == ('one', 'named', 'delete'):
                    crash.append(({**c, 'size': 'tiny'}, list(MODES)))
                continue
            if c['init'] == 'one':
                modes = ['line', 'fs']
                if c['store'] == 'named' and c['op'] in ('update-new', 'delete', 'delete_all'):
                    modes.append('write')
                crash.append(({**c, 'size': 'tiny'}, modes))
            elif key in (('multi-default', 'default', 'update-merge'), ('multi-default', 'default', 'delete_all'),
                         ('nofile', 'default', 'delete_all'), ('emptyobj', 'named-new', 'update-new')):
                crash.append(({**c, 'size': 'tiny'}, ['line', 'fs']))
            elif key == ('nodir', 'named', 'update-new'):
                crash.append(({**c, 'size': 'tiny'}, ['line', 'fs', 'write']))
    else:
        for c in cfgs:
            modes = ['line', 'fs']
            if not c['stale_tmp'] or c['op'] in ('update-new', 'delete'):
                modes.append('write')
            if c['store'] == 'named' and c['init'] == 'one' and not c['stale_tmp']:
                modes.append('write-half')
            crash.append(({**c, 'size': 'tiny'}, modes))
        small = [('one', 'named', 'update-new'), ('one', 'default', 'update-merge'), ('multi', 'named', 'delete'),
                 ('multi-default', 'default', 'update-new'), ('multi-default', 'named', 'delete_all')]
        big = [('multi', 'named', 'update-merge')]
        for k, c in enumerate(cfgs):
            if c['stale_tmp']:
                continue
            if (c['init'], c['store'], c['op']) in small:
                crash.append(({**c, 'size': 'small', 'seed': seed * 7 + k},
                              list(MODES) if c['op'] == 'update-new' else ['line', 'write', 'fs']))
            if (c['init'], c['store'], c['op']) in big:
                crash.append(({**c, 'size': 'big', 'seed': seed * 11 + k}, ['line', 'write', 'fs']))
    crash.sort(key=lambda cm: -sum(60 if 'write' in m else 25 for m in cm[1]))
    for c, modes in crash:
        cases.append({'kind': 'crash', 'cfg': c, 'modes': modes})
    st = [c for c in cfgs if not c['stale_tmp'] and
          ((c['init'], c['store']) in (('one', 'named'), ('multi', 'named-new'), ('nodir', 'default')))]
    if quick:
        st = [c for c in st if c['init'] == 'one'][:6]
    else:
        st = st + [c for c in cfgs if c['stale_tmp'] and c['init'] == 'multi-default' and c['store'] == 'default']
    for c in st:
        cases.append({'kind': 'strace', 'cfg': c})
    # long cases first so that the shards finish together
    order = {'crash': 0, 'strace': 1, 'history': 2, 'nscount': 2, 'paths': 2, 'roundtrip': 3}
    cases.sort(key=lambda c: order[c['kind']])
    return cases


async def run_case(case, r):
    kind = case['kind']
    if kind in ('history', 'nscount'):
        rng = random.Random(case['seed'])
        s = None
        for _ in range(case['histories']):
            s = await history(rng, r, profile='nscount' if kind == 'nscount' else 'random') or s
        if s:
            r.sample = {'kind': kind, **s}
    elif kind == 'paths':
        rng = random.Random(f'paths/{case["seed"]}')
        s = None
        for _ in range(case['rounds']):
            for layout in PATH_LAYOUTS:
                s = await paths_history(rng, r, layout) or s
        if s:
            r.sample = {'kind': kind, **s}
    elif kind == 'roundtrip':
        await roundtrip_case(case, r)
    elif kind == 'crash':
        await crash_case(case, r)
    else:
        await strace_case(case, r)


LEVEL_TEXT = ('Fault enumeration: for each (initial database x store kind x mutating operation) configuration '
              'the real JsonKeyStore operation is re-run in a forked victim once per crash point - every LINE '
              'event of the store\'s code objects (sys.monitoring), every write() reaching the store directory '
              '(flushed one by one, also cut in half), and before/after every mkdir/open/close/replace/rename/'
              'unlink - until it completes without the failpoint firing; each resulting directory is re-opened '
              'with json.load, with fresh stores for every namespace, and with one more update. Around it: a '
              'lock-step dict model over random multi-namespace, multi-instance histories and over ~500 (quick) directed '
              'histories in which namespaces are emptied (last peer deleted, delete_all) or appear while stores of every kind '
              '- opened before and after the step - are compared with the model, an exhaustive '
              'PairingKeys field-combination round trip checked against an independent layout codec, and an '
              'strace syscall-order checker. The crash points of the enumerated configurations are covered '
              'exhaustively; the configurations and histories themselves are a finite sample.')
LEVEL_NOTE = ('Trusted: vlib/ref_keystore.py (model + layout codec, ~200 lines), CPython sys.monitoring LINE '
              'events, fork/_exit semantics of Linux (data handed to write(2) survives process death), strace. '
              'Crash = process death; power loss / fsync ordering is out of scope.')
TECHNIQUE = ('runtime monitoring: sys.monitoring LINE failpoints + write/file-system-step failpoints in forked '
             'victims, lock-step reference model, independent layout codec, offline strace checker')


if __name__ == '__main__':
    _helper_main(sys.argv[1:])
