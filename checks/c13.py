"""C13 — pairing ends the same way on both sides, with honest authentication.

Two real bumble devices (own in-memory key stores) on the virtual LE link, each with
its own PairingConfig and a recording delegate driven by two simulated users. Monitors:

  outcome   pair() result, 'pairing' / 'pairing_failure' events of both connections,
            bounded in virtual time; both sides must end the same way
  model     association model actually used, derived from the delegate-call log of both
            sides AND from the SMP wire log (which TK / passkey bits / single commitment
            the Confirm values commit to, recomputed with vlib/ref_smpcrypto), compared
            with Core Vol 3 Part H Table 2.8 as transcribed in vlib/ref_smp.py
  keys      the key the central's LE Enable Encryption command carries vs the key the
            peripheral host's long-term-key provider answers for that EDIV/Rand (asked by
            the harness: the virtual controller never asks), vs STK = s1(...) / LTK = f5(...)
            recomputed from the wire (DH secret from the reference P-256); distributed key
            values on the wire vs both key stores; 'authenticated' flag vs the model used
  negative  wrong passkey, declined passkey, comparison / confirmation rejected, request
            rejected, one bit flipped in flight in Confirm / Random / DHKey Check / Public
            Key: both sides fail, no keys in either store
  reconnect after bonding: disconnect, reconnect (same and swapped roles), central
            encrypt(): snooped (EDIV, Rand, LTK) vs the peripheral's provider
  ctkd      SMP over BR/EDR (link encryption mocked exactly as tests/self_test.py does)
  roles     the SMP initiator is the link Central (pair(), or pair() after a Security Request) or the link
            Peripheral (pair() on the peripheral's connection): the whole IO table for each; Table 2.8 is read
            from the SMP initiator/responder point of view, never by link role
  hardware  the delegates are strict about their IO capability: a device without a keyboard cannot supply a
            passkey, one without a display shows nothing, one without yes/no cannot compare; every such request
            is recorded and is a violation
  users     answers (accept, confirm, compare, passkey) arrive after a think time: virtual seconds (long after
            everything in flight was delivered) or a few loop turns (between two protocol messages), on either
            side; a refusal, however late, ends in failure on both sides, no stored keys, no encrypted link, and
            nobody reports completion while its own user still looks at a prompt
  history   several bonds of the same two devices one after the other on the SAME key stores (legacy then SC, SC then
            legacy, legacy twice with another key distribution, SC twice, three in a row; link roles kept or swapped
            between the pairings; SMP initiated by the link Central or Peripheral), each on a connection of its own, on
            the real JsonKeyStore (temp file), on the check's serialising store with JsonKeyStore's field-by-field
            merge, on MemoryKeyStore, and with a different store on each side; then a reconnection in BOTH role
            assignments: the key in the central's LE Enable Encryption command == the key the peripheral host answers
            for that EDIV / Rand == the key of the LATEST bond (SC: f5(...) recomputed from the wire of the last
            pairing; legacy: the LTK today's Peripheral distributed in the last pairing, with its EDIV / Rand). Keys:
            reconnect/bond-history/<clause>/<last bond>-after-<the one before>/<merging-store|replacing-store|
            stores-differ>
  giveup    the APPLICATION that called pair() stops waiting (asyncio.wait_for(pair(), t) expiring, or its task cancelled
            after a few loop turns) while a user is still looking at a prompt; the SMP exchange goes on without it. After
            every answer was given both sides must still end the same way: both report 'pairing' and hold the keys (all the
            success oracles run), or both report 'pairing_failure' and hold none; keys carry the suffix /caller-gave-up
  again     further pairings on the SAME connection (after a refused/failed one, after a completed one): judged
            by the same oracles; keys carry the suffix /again-after-<previous outcome>
"""
from __future__ import annotations

import asyncio
import itertools
import random

from vlib import ref_p256, ref_smp as rs, ref_smpcrypto as rc, vloop
from vlib.result import R

ID = 'C13'
LEVEL = 'exploration'
RULE = ('one case = one pairing of two independently configured devices (plus reconnections). table: all '
        '5x5 IO-capability cells x {legacy, SC} x MITM requested by {both, initiator only, responder only, '
        'nobody}; mix: seeded product of SC/MITM/bonding per side x 4 key-distribution masks (2 per side) x '
        'who starts x user answers x passkey boundary values x delay; neg/tamper: every association model x '
        'every negative answer / every tamperable PDU x sender; ptable/srtable: the 5x5x2x4 table again with the link '
        'Peripheral as SMP initiator and via Security Request; think: every model x {legacy, SC} x initiator link role '
        'x every answer (honest + each refusal by either user) x 5 think-time patterns (answering user late by '
        'seconds / by loop turns, the other user late, both late); giveup: every model x {legacy, SC} x initiator link role x '
        '5 patterns of who is slow (responder\'s user, the initiator\'s own, both; seconds / loop turns) with the caller of '
        'pair() giving up earlier (wait_for expiring after 0.05-2 s, task cancelled after 2-34 loop turns) x (honest answers, '
        'two refusals in turn); again: every model x initiator x (X then honest, '
        'honest then X, X then X then honest) on one connection; bondhist: 6 sequences of bond kinds (2-3 bonds) x link '
        'roles kept / swapped between the pairings x 5 store combinations (JsonKeyStore file, merging, memory, mixed) x '
        'order of the two reconnections, key distribution and SMP initiator per bond by enumeration, association '
        'model seeded; a case is non-trivial when phase 2 was '
        'reached on the wire or a refusal was actually given; distinct = distinct descriptor without seed')
ASSUMPTIONS = [
    'the two users are honest: the typed passkey is the one displayed on the other device (or the agreed one '
    'when both type), "yes" to a comparison only if both devices show the same six digits, unless the case '
    'says otherwise',
    'the application on the central answers a Security Request by calling pair()',
    'key stores are bumble.keys.MemoryKeyStore, in 40% of the cases behind a to_dict/JSON/from_dict round trip as a JsonKeyStore would do; identity address type = the random static address used on air',
    'bond histories: a later bond of the same two devices replaces the earlier one: after it the only key for the '
    'central\'s encryption request is the latest bond\'s. The check\'s own merging store keeps every field of the older '
    'record (plain dict.update, what JsonKeyStore.update does): next to a newer SC LTK the legacy slots are dead weight '
    'for a stack that prefers the SC LTK on both sides, but a stale SC LTK next to newer legacy keys would be that '
    'store\'s doing, so histories that END in a legacy bond run on bumble\'s own stores (JsonKeyStore, MemoryKeyStore) '
    'only; slot-by-slot store oracles (which slots a record has) apply to the first bond only, later bonds are judged '
    'by what the stores yield on reconnection',
    'reconnection is judged only where a key for that direction was distributed (legacy: the future '
    'peripheral distributed its LTK); SMP over BR/EDR runs with link encryption set by the harness and link '
    'keys preloaded, as tests/self_test.py::test_self_smp_over_classic does',
    'a BR/EDR link key present in only one of the two stores (LinkKey flag negotiated in one direction only) is '
    'counted, not judged; two DIFFERENT link keys are a violation',
    'hardware model of the delegates (Vol 3 Part H Tables 2.3-2.5): keyboard = KeyboardOnly/KeyboardDisplay, display = '
    'DisplayOnly/DisplayYesNo/KeyboardDisplay, yes/no = DisplayYesNo/KeyboardDisplay; the plain yes/no confirmation of '
    'Just Works (delegate.confirm) is answered by every device, as bumble offers it to every device',
    'a user answers every prompt exactly once, possibly late (think time < 10 virtual s, far below the 300 s budget); '
    'virtual time does not advance while protocol messages are in flight, so "late by seconds" means after every '
    'message that could be sent without the answer has been delivered',
    'pairing again on the same connection is a pairing like any other (the statement quantifies over every pairing); '
    'the application calls pair() on the same device as before and both users answer afresh; a failed further attempt '
    'must leave the key store as the earlier completed pairing left it',
    'pair() on the link Peripheral makes it the SMP initiator (bumble supports this and logs a warning); the virtual '
    'controller accepts LE Enable Encryption from either link role',
]
MIN_EVENTS = {
    'quick': {'oracle_evals': 30000, 'pairings': 1200, 'paired_both': 900, 'failed_both': 200, 'table_cells': 200,
              'model_checks': 900, 'tamper_applied': 60, 'reconnect_checks': 150, 'wire_commit_checks': 900,
              'spec_key_checks': 900, 'authenticated_flag_checks': 2500, 'provider_queries': 1000,
              'passkey_bit_checks': 3000, 'numeric_value_checks': 80,
              'pairings_initiated_by_link_peripheral': 1400, 'peripheral_initiated_table_cells': 200,
              'security_request_table_cells': 200, 'hardware_prompt_checks': 11000, 'think_time_cases': 2000,
              'late_refusal_cases': 350, 'refusal_with_late_peer_cases': 90, 'late_honest_answers_paired': 1300,
              'answers_given_after_think_time': 2800, 'not_encrypted_after_failure_checks': 1000,
              'further_attempts_on_same_connection': 450,
              'caller_gave_up_cases': 250, 'caller_gave_up_while_exchange_running': 200,
              'caller_gave_up_while_exchange_running_legacy': 80, 'caller_gave_up_while_exchange_running_sc': 80,
              'caller_gave_up_then_paired_both': 60, 'caller_gave_up_then_failed_both': 60,
              'caller_gave_up_after-seconds': 150, 'caller_gave_up_after-loop-turns': 60,
              # bond histories on one store
              'bond_history_cases': 90, 'bond_history_pairings': 200, 'bond_history_reconnect_checks': 150,
              'bond_history_shared_key_checks': 150, 'bond_history_latest_key_checks_sc': 100,
              'bond_history_latest_key_checks_legacy': 40, 'bond_history_legacy-then-sc': 16,
              'bond_history_sc-then-legacy': 10, 'bond_history_legacy-then-legacy': 10, 'bond_history_sc-then-sc': 16,
              'bond_history_store_json': 40, 'bond_history_store_merging': 20, 'bond_history_store_memory': 40,
              'bond_history_reconnections_as-in-the-last-pairing': 80,
              'bond_history_reconnections_swapped-since-the-last-pairing': 80},
    'thorough': {'oracle_evals': 600000, 'pairings': 25000, 'paired_both': 18000, 'failed_both': 4000,
                 'table_cells': 200, 'model_checks': 18000, 'tamper_applied': 600, 'reconnect_checks': 3000,
                 'wire_commit_checks': 18000, 'spec_key_checks': 18000, 'authenticated_flag_checks': 50000,
                 'provider_queries': 20000, 'passkey_bit_checks': 60000, 'numeric_value_checks': 1500,
                 'pairings_initiated_by_link_peripheral': 12000, 'peripheral_initiated_table_cells': 2000,
                 'security_request_table_cells': 2000, 'hardware_prompt_checks': 90000, 'think_time_cases': 14000,
                 'late_refusal_cases': 3500, 'refusal_with_late_peer_cases': 900, 'late_honest_answers_paired': 9000,
                 'answers_given_after_think_time': 20000, 'not_encrypted_after_failure_checks': 8000,
                 'further_attempts_on_same_connection': 4500,
                 'caller_gave_up_cases': 2500, 'caller_gave_up_while_exchange_running': 2000,
                 'caller_gave_up_while_exchange_running_legacy': 800, 'caller_gave_up_while_exchange_running_sc': 800,
                 'caller_gave_up_then_paired_both': 600, 'caller_gave_up_then_failed_both': 600,
                 'caller_gave_up_after-seconds': 1500, 'caller_gave_up_after-loop-turns': 600,
                 'bond_history_cases': 720, 'bond_history_pairings': 1600, 'bond_history_reconnect_checks': 1200,
                 'bond_history_shared_key_checks': 1200, 'bond_history_latest_key_checks_sc': 800,
                 'bond_history_latest_key_checks_legacy': 320, 'bond_history_legacy-then-sc': 128,
                 'bond_history_sc-then-legacy': 80, 'bond_history_legacy-then-legacy': 80, 'bond_history_sc-then-sc': 128,
                 'bond_history_store_json': 320, 'bond_history_store_merging': 160, 'bond_history_store_memory': 320,
                 'bond_history_reconnections_as-in-the-last-pairing': 640,
                 'bond_history_reconnections_swapped-since-the-last-pairing': 640},
}
CASE_TIMEOUT = 180

IO = rs.IO_CAPS
IO_NAME = rs.IO_NAMES
PASSKEY_BOUNDARY = [0, 1, 999999, 1 << 19, 0x55555, 0xAAAAA & 0xFFFFF, 123456]
ADDRS = ['C1:22:33:44:55:66', 'F6:E5:D4:C3:B2:A1']


# =============================================================================
# plan
# =============================================================================

def keys_dict(keys):
    """Field dictionary of a PairingKeys taken attribute by attribute (not bumble's own to_dict(),
    which is a codec the key-store check judges)."""
    import dataclasses
    return dataclasses.asdict(keys) if dataclasses.is_dataclass(keys) else dict(vars(keys))


def _base(kind, seed, **kw):
    c = {
        'kind': kind, 'seed': seed,
        'io': [rs.KEYBOARD_DISPLAY, rs.KEYBOARD_DISPLAY],
        'sc': [True, True], 'mitm': [True, True], 'bonding': [True, True],
        'ikd': [3, 3], 'rkd': [3, 3],
        'start': 'central',
        'answers': {'passkey': ['right', 'right'], 'wrong_bit': 0, 'compare': [True, True],
                    'confirm': [True, True], 'accept': True},
        'passkey': None, 'delay': 0, 'acl': 27, 'tamper': None, 'reconnect': [],
        'initiator': 'central',     # link role of the device whose application calls pair()
        'think': [0, 0],            # per device: time its user takes to answer a prompt (>0 virtual s, <0 loop turns)
        'attempts': [],             # further pairings on the SAME connection: [{'answers': ...}, ...]
        'giveup': None,             # {'after': t}: the caller of pair() stops waiting after t (>0 virtual s: wait_for
                                    # expires; <0 that many loop turns, then its task is cancelled)
    }
    c.update(kw)
    return c


def plan(tier, seed):
    cases = []
    S = seed * 1000003
    n = 0

    def nxt():
        nonlocal n
        n += 1
        return S + n

    # (1) the table, exhaustively, with every MITM request pattern
    for sc in (False, True):
        for a in IO:
            for b in IO:
                for mitm in ([True, True], [True, False], [False, True], [False, False]):
                    cases.append(_base('table', nxt(), io=[a, b], sc=[sc, sc], mitm=mitm,
                                       ikd=[7, 7], rkd=[7, 7]))
    # (2) sampled product
    nmix = 4000 if tier == 'quick' else 30000
    rng = random.Random(S ^ 0xC13)
    rng2 = random.Random(S ^ 0x2C13)
    neg_kinds = ['ok', 'ok', 'ok', 'ok', 'wrong', 'none', 'compare-no', 'confirm-no', 'accept-no']

    def think_time():
        return rng2.choice([0, 0, 0.5, 2.0, 7.0, -1, -2, -3, -5, -8, -13, -21, -34, -55])
    for i in range(nmix):
        scp = [(True, True), (False, False), (True, False), (False, True)][i % 4]
        start = ['central', 'security-request'][(i // 4) % 2]
        ak = neg_kinds[(i // 8) % len(neg_kinds)]
        side = rng.randrange(2)
        ans = {'passkey': ['right', 'right'], 'wrong_bit': rng.randrange(20), 'compare': [True, True],
               'confirm': [True, True], 'accept': True}
        if ak == 'wrong':
            ans['passkey'][side] = 'wrong'
        elif ak == 'none':
            ans['passkey'][side] = 'none'
        elif ak == 'compare-no':
            ans['compare'][side] = False
        elif ak == 'confirm-no':
            ans['confirm'][side] = False
        elif ak == 'accept-no':
            ans['accept'] = False
        mitm = [rng.random() < 0.75, rng.random() < 0.75]
        kd = lambda: rng.choice([0, 1, 2, 3, 3, 4, 7, 8, 9, 11, 15, rng.randrange(16)])
        cases.append(_base(
            'mix', nxt(), io=[rng.choice(IO), rng.choice(IO)], sc=list(scp), mitm=mitm,
            bonding=[rng.random() < 0.8, rng.random() < 0.8],
            ikd=[kd(), kd()], rkd=[kd(), kd()], start=start, answers=ans,
            passkey=rng.choice(PASSKEY_BOUNDARY) if rng.random() < 0.35 else None,
            delay=rng.choice([0, 0, 1, 3, 6]), acl=rng.choice([27, 27, 69, 251]),
            reconnect=(['same', 'swapped'] if rng.random() < 0.25 else []),
            tamper=({'pdu': rng.choice(['confirm', 'random', 'dhkey', 'pubkey']), 'role': rng.randrange(2),
                     'nth': rng.choice([1, 1, 2, 7, 20]), 'byte': rng.randrange(16), 'bit': rng.randrange(8)}
                    if rng.random() < 0.1 else None)))
        c = cases[-1]
        if start == 'central' and rng2.random() < 0.3:
            c['initiator'] = 'peripheral'
        if rng2.random() < 0.3:
            c['think'] = [think_time(), think_time()]
    for c in cases:
        if c['kind'] == 'mix' and c['tamper'] is not None:
            c['passkey'] = None    # keep the 000000 class and the tampering classes apart
    # (3a) negative answers, systematically per model
    model_io = {
        'pk-i-disp': (rs.DISPLAY_ONLY, rs.KEYBOARD_ONLY), 'pk-r-disp': (rs.KEYBOARD_ONLY, rs.DISPLAY_YES_NO),
        'pk-both': (rs.KEYBOARD_ONLY, rs.KEYBOARD_ONLY), 'nc-or-pk': (rs.KEYBOARD_DISPLAY, rs.KEYBOARD_DISPLAY),
        'nc-or-jw': (rs.DISPLAY_YES_NO, rs.DISPLAY_YES_NO), 'jw': (rs.NO_INPUT_NO_OUTPUT, rs.KEYBOARD_DISPLAY),
    }
    reps = 1 if tier == 'quick' else 10
    for _rep in range(reps):
        for sc in (False, True):
            for mname, io in model_io.items():
                for ak in ('wrong', 'none', 'compare-no', 'confirm-no', 'accept-no'):
                    for side in (0, 1):
                        if ak == 'accept-no' and side == 0:
                            continue
                        ans = {'passkey': ['right', 'right'], 'wrong_bit': rng.randrange(20),
                               'compare': [True, True], 'confirm': [True, True], 'accept': True}
                        if ak == 'wrong':
                            ans['passkey'][side] = 'wrong'
                        elif ak == 'none':
                            ans['passkey'][side] = 'none'
                        elif ak == 'compare-no':
                            ans['compare'][side] = False
                        elif ak == 'confirm-no':
                            ans['confirm'][side] = False
                        else:
                            ans['accept'] = False
                        cases.append(_base('neg', nxt(), io=list(io), sc=[sc, sc], answers=ans,
                                           delay=rng.choice([0, 1, 3]),
                                           passkey=rng.choice(PASSKEY_BOUNDARY[1:]) if _rep else None))
        # passkey boundary values with right answers (000000 is a legal passkey)
        for sc in (False, True):
            for mname in ('pk-i-disp', 'pk-r-disp', 'pk-both'):
                for pk in PASSKEY_BOUNDARY:
                    cases.append(_base('table', nxt(), io=list(model_io[mname]), sc=[sc, sc], passkey=pk))
    # (3b) one bit flipped in flight
    for _rep in range(reps):
        for sc in (False, True):
            for mname, io in model_io.items():
                for pdu in ('confirm', 'random', 'dhkey', 'pubkey'):
                    if not sc and pdu in ('dhkey', 'pubkey'):
                        continue
                    for role in (0, 1):
                        nths = [1]
                        if sc and mname.startswith('pk') and pdu in ('confirm', 'random'):
                            nths = [1, rng.randrange(2, 20), 20]
                        for nth in nths:
                            cases.append(_base(
                                'tamper', nxt(), io=list(io), sc=[sc, sc],
                                tamper={'pdu': pdu, 'role': role, 'nth': nth,
                                        'byte': rng.randrange(16), 'bit': rng.randrange(8)},
                                delay=rng.choice([0, 1, 3]), ikd=[rng.choice([0, 3, 7]), 7], rkd=[7, rng.choice([0, 3, 7])]))
    # (4) reconnection after bonding
    kds = [(1, 1), (3, 3), (7, 7), (1, 0), (0, 1), (2, 3), (15, 15), (0, 0)]
    nrec = 1 if tier == 'quick' else 12
    for _rep in range(nrec):
        for sc in (False, True):
            for (ik, rk) in kds:
                for io in ((rs.NO_INPUT_NO_OUTPUT, rs.NO_INPUT_NO_OUTPUT), (rs.KEYBOARD_DISPLAY, rs.DISPLAY_ONLY),
                           (rs.DISPLAY_YES_NO, rs.KEYBOARD_DISPLAY)):
                    cases.append(_base('reconnect', nxt(), io=list(io), sc=[sc, sc], ikd=[ik, ik], rkd=[rk, rk],
                                       start=rng.choice(['central', 'security-request']),
                                       delay=rng.choice([0, 1, 3]), reconnect=['same', 'swapped', 'same']))
                    # the same bond made by a pairing the link Peripheral started
                    cases.append(_base('reconnect', nxt(), io=list(io), sc=[sc, sc], ikd=[ik, ik], rkd=[rk, rk],
                                       initiator='peripheral', delay=rng2.choice([0, 1, 3]),
                                       reconnect=['same', 'swapped', 'same']))
    # (5) OOB (authenticated without any user interaction) and CTKD over BR/EDR
    for _rep in range(nrec):
        for variant in ('sc-both', 'sc-initiator-has-peer-data', 'sc-responder-has-peer-data', 'legacy-both'):
            cases.append(_base('oob', nxt(), oob=variant, io=[rng.choice(IO), rng.choice(IO)],
                               sc=[variant != 'legacy-both'] * 2, reconnect=['same']))
        for lk_auth in (False, True):
            for kd in (3, 1, 7):
                cases.append(_base('ctkd', nxt(), lk_auth=lk_auth, ikd=[kd, kd], rkd=[kd, kd],
                                   io=[rng.choice(IO), rng.choice(IO)]))

    def answers(ak, dev):
        ans = {'passkey': ['right', 'right'], 'wrong_bit': rng2.randrange(20), 'compare': [True, True],
               'confirm': [True, True], 'accept': True}
        if ak == 'wrong':
            ans['passkey'][dev] = 'wrong'
        elif ak == 'none':
            ans['passkey'][dev] = 'none'
        elif ak == 'compare-no':
            ans['compare'][dev] = False
        elif ak == 'confirm-no':
            ans['confirm'][dev] = False
        elif ak == 'accept-no':
            ans['accept'] = False
        return ans

    def answer_kinds():
        """(answer kind, SMP role of the user who gives it): the honest pair + every refusal by either user."""
        yield 'ok', 0
        for ak in ('wrong', 'none', 'compare-no', 'confirm-no', 'accept-no'):
            for role in (0, 1):
                if ak == 'accept-no' and role == 0:
                    continue        # only the responder is asked whether to accept
                yield ak, role

    # (6) the whole table again with the link Peripheral as the SMP initiator (pair() called on the peripheral's
    #     connection): Table 2.8 is indexed by SMP role, not by link role
    for _rep in range(reps):
        for sc in (False, True):
            for a in IO:
                for b in IO:
                    for mitm in ([True, True], [True, False], [False, True], [False, False]):
                        # io / mitm are per DEVICE: device 1 (link peripheral) is the initiator and gets `a`
                        cases.append(_base('ptable', nxt(), io=[b, a], sc=[sc, sc], mitm=[mitm[1], mitm[0]],
                                           ikd=[7, 7], rkd=[7, 7], initiator='peripheral',
                                           delay=rng2.choice([0, 0, 1, 3]) if _rep else 0,
                                           passkey=rng2.choice(PASSKEY_BOUNDARY) if _rep and rng2.random() < 0.3 else None))
                        # and with the link Peripheral asking for security (Security Request -> the Central pairs)
                        cases.append(_base('srtable', nxt(), io=[a, b], sc=[sc, sc], mitm=mitm, ikd=[7, 7], rkd=[7, 7],
                                           start='security-request', delay=rng2.choice([0, 0, 1, 3]) if _rep else 0))
    # (7) users who take their time: every answer of every model, given late (after everything in flight has been
    #     delivered, or between two protocol messages), by the initiator's or the responder's user, with the other
    #     user fast or slow too, whoever (link central / link peripheral) initiated
    for _rep in range(reps):
        for sc in (False, True):
            for mname, io in model_io.items():
                for initiator in ('central', 'peripheral'):
                    ci = 0 if initiator == 'central' else 1     # device index of the SMP initiator
                    for ak, role in answer_kinds():
                        dev = ci if role == 0 else 1 - ci
                        turns = lambda: -rng2.choice([1, 2, 3, 5, 8, 13, 21, 34, 55])
                        for pattern in ('late-s', 'late-turns', 'peer-late-s', 'both-late-s', 'both-late-turns'):
                            th = [0, 0]
                            if pattern == 'late-s':
                                th[dev] = rng2.choice([0.3, 2.0, 9.0])
                            elif pattern == 'late-turns':
                                th[dev] = turns()
                            elif pattern == 'peer-late-s':
                                th[1 - dev] = rng2.choice([0.3, 2.0, 9.0])
                            elif pattern == 'both-late-s':
                                th[dev], th[1 - dev] = 4.0, 1.0
                            else:
                                th[dev], th[1 - dev] = turns(), turns()
                            # io per device: model_io is (initiator io, responder io)
                            dio = [io[0], io[1]] if ci == 0 else [io[1], io[0]]
                            cases.append(_base('think', nxt(), io=dio, sc=[sc, sc], answers=answers(ak, dev),
                                               initiator=initiator, think=th, delay=rng2.choice([0, 1, 3]),
                                               ikd=[rng2.choice([1, 3, 7]), 7], rkd=[7, rng2.choice([1, 3, 7])]))
    # (7b) the application gives up waiting for pair() while the protocol continues: every model x {legacy, SC} x
    #      initiator link role x who is slow (responder's user / initiator's own user / both; seconds / loop turns) x
    #      (honest answers, two refusals in turn)
    refusals = [(ak, role) for ak, role in answer_kinds() if ak != 'ok']
    gidx = 0
    for _rep in range(reps):
        for sc in (False, True):
            for mname, io in model_io.items():
                for initiator in ('central', 'peripheral'):
                    ci = 0 if initiator == 'central' else 1
                    dio = [io[0], io[1]] if ci == 0 else [io[1], io[0]]
                    for pattern in ('responder-slow-s', 'initiator-slow-s', 'both-slow-s', 'responder-slow-turns',
                                    'both-slow-turns'):
                        for which in range(3):
                            gidx += 1
                            ak, role = ('ok', 0) if which == 0 else refusals[(gidx + which * 4) % len(refusals)]
                            dev = ci if role == 0 else 1 - ci
                            th = [0, 0]
                            if pattern == 'responder-slow-s':
                                th[1 - ci] = rng2.choice([2.0, 9.0])
                                after = rng2.choice([0.05, 0.5, 1.0])
                            elif pattern == 'initiator-slow-s':
                                th[ci] = rng2.choice([2.0, 9.0])
                                after = rng2.choice([0.05, 0.5, 1.0])
                            elif pattern == 'both-slow-s':
                                th[ci], th[1 - ci] = rng2.choice([(4.0, 1.0), (1.0, 4.0), (3.0, 3.0)])
                                after = rng2.choice([0.5, 2.0])
                            elif pattern == 'responder-slow-turns':
                                th[1 - ci] = -rng2.choice([55, 89, 144])
                                after = -rng2.choice([2, 5, 13, 34])
                            else:
                                th[ci], th[1 - ci] = -rng2.choice([55, 89]), -rng2.choice([55, 144])
                                after = -rng2.choice([3, 8, 21])
                            cases.append(_base('giveup', nxt(), io=dio, sc=[sc, sc], answers=answers(ak, dev),
                                               initiator=initiator, think=th, giveup={'after': after, 'pattern': pattern},
                                               delay=rng2.choice([0, 0, 1, 3]),
                                               ikd=[rng2.choice([1, 3, 7]), 7], rkd=[7, rng2.choice([1, 3, 7])]))
    # (8) pairing again on the same connection: after a refused / failed pairing (the users try again), after a
    #     completed one (re-pairing), and twice in a row
    for _rep in range(reps):
        for sc in (False, True):
            for mname, io in model_io.items():
                for initiator in ('central', 'peripheral'):
                    ci = 0 if initiator == 'central' else 1
                    dio = [io[0], io[1]] if ci == 0 else [io[1], io[0]]
                    seqs = []
                    for ak, role in answer_kinds():
                        dev = ci if role == 0 else 1 - ci
                        seqs.append([answers(ak, dev), answers('ok', 0)])           # X then honest
                        if ak != 'ok':
                            seqs.append([answers('ok', 0), answers(ak, dev)])       # honest then X
                            if role == 1:
                                seqs.append([answers(ak, dev), answers(ak, ci), answers('ok', 0)])
                    for seq in seqs:
                        cases.append(_base('again', nxt(), io=dio, sc=[sc, sc], answers=seq[0], initiator=initiator,
                                           attempts=[{'answers': a} for a in seq[1:]],
                                           delay=rng2.choice([0, 0, 1, 3]), think=[rng2.choice([0, 0, 0, 1.0, -5]), 0],
                                           ikd=[3, 3], rkd=[3, 3]))
    # (9) bond HISTORIES on one store: legacy then SC, SC then legacy, re-pair with another key distribution, link
    #     roles swapped between the pairings, SMP initiated by the link Peripheral; on a merging store (the real
    #     JsonKeyStore on a temp file, the check's serialising store with the same merge), a replacing one, and one of
    #     each; then a reconnection in both role assignments
    mode_seqs = [(False, True), (True, False), (False, False), (True, True), (False, True, False), (True, False, True)]
    stores = [['json', 'json'], ['merging', 'merging'], ['memory', 'memory'], ['json', 'memory'], ['serialising', 'merging']]
    hrng = random.Random(S ^ 0x9C13)
    hidx = 0
    for _rep in range(1 if tier == 'quick' else 8):
        for seq in mode_seqs:
            for swap in (False, True):
                for store in stores:
                    if 'merging' in store and not seq[-1]:
                        # the check's own merging store keeps EVERY field of the older record (plain dict.update): next to
                        # a newer SC LTK the legacy slots are dead weight for a correct stack, but a stale SC LTK next to
                        # newer legacy keys is the store's doing, not bumble's. Histories that end in a legacy bond run on
                        # bumble's own stores only.
                        continue
                    for order in (['same', 'swapped'], ['swapped', 'same']):
                        ps = []
                        hidx += 1
                        for j, sc in enumerate(seq):
                            # key distribution by enumeration (the classes a history reaches do not depend on the seed):
                            # the first bond distributes everything (or EncKey both ways), the later ones in turn only
                            # from the responder, only from the initiator, everything, EncKey only
                            kd = ('both' if hidx % 2 else 'enc-only') if j == 0 else \
                                ['responder-only', 'initiator-only', 'both', 'enc-only'][(hidx // 2 + j) % 4]
                            ps.append({'sc': sc, 'central': (j % 2) if swap else 0,
                                       'initiator': 'peripheral' if (hidx // 3 + j) % 4 == 3 else 'central',
                                       'kd': kd,
                                       'model': hrng.choice(['jw', 'jw', 'passkey', 'numeric'] if sc else ['jw', 'jw', 'passkey'])})
                        cases.append({'kind': 'bondhist', 'seed': nxt(), 'pairings': ps, 'store': store,
                                      'reconnect': order, 'delay': hrng.choice([0, 0, 1, 3])})
    return cases


# =============================================================================
# the two users + recording delegates
# =============================================================================
class Users:
    """Shared state of the two people holding the devices, and the log of every
    delegate call: calls[side] = [(method, argument)]."""

    def __init__(self, case, rng):
        self.case = case
        self.ans = case['answers']
        self.calls = {0: [], 1: []}
        self.displayed = {0: None, 1: None}
        self.entered = {0: None, 1: None}
        self.asking = {0: False, 1: False}
        self.compare = {0: None, 1: None}
        self.refusals = []      # negative answers that were actually given: (side, what)
        self.agreed = case['passkey'] if case.get('passkey') is not None else rng.randrange(1000000)
        self.changed = asyncio.Event()
        self.hw = []            # (side, what): a prompt the device's hardware cannot serve was requested
        self.pending = {0: [], 1: []}    # prompts of each side's user that are asked and not yet answered
        self.premature = []     # (side, pending prompts) when that side reported completion with a prompt open
        self.late_answers = 0   # answers that were given after a think time

    def begin(self, case):
        """A further pairing attempt on the same connection: same two people, fresh screens."""
        self.case = case
        self.ans = case['answers']
        self.calls = {0: [], 1: []}
        self.displayed = {0: None, 1: None}
        self.entered = {0: None, 1: None}
        self.asking = {0: False, 1: False}
        self.compare = {0: None, 1: None}
        self.refusals = []
        self.hw = []
        self.pending = {0: [], 1: []}
        self.premature = []

    async def think(self, side):
        """The time this side's user takes before answering: case['think'][side] > 0 is virtual
        seconds (every protocol message in flight has long been delivered), < 0 is that many loop
        turns (the answer lands between two protocol messages)."""
        d = (self.case.get('think') or [0, 0])[side]
        if d < 0:
            for _ in range(-d):
                await asyncio.sleep(0)
        elif d > 0:
            await asyncio.sleep(d)
        if d:
            self.late_answers += 1

    def poke(self):
        self.changed.set()
        self.changed = asyncio.Event()

    async def wait_for(self, pred, t=20.0):
        end = asyncio.get_running_loop().time() + t
        while not pred():
            left = end - asyncio.get_running_loop().time()
            if left <= 0:
                return False
            try:
                await asyncio.wait_for(self.changed.wait(), left)
            except asyncio.TimeoutError:
                return pred()
        return True


def make_delegate(users: Users, side: int, io: int, ikd: int, rkd: int):
    from bumble.pairing import PairingDelegate

    # what the hardware of each IO capability (Vol 3 Part H Table 2.3/2.4/2.5) can do
    can_type = io in (rs.KEYBOARD_ONLY, rs.KEYBOARD_DISPLAY)
    can_show = io in (rs.DISPLAY_ONLY, rs.DISPLAY_YES_NO, rs.KEYBOARD_DISPLAY)
    can_yes_no = io in (rs.DISPLAY_YES_NO, rs.KEYBOARD_DISPLAY)

    class asked:
        """Marks a prompt as open for the time the user needs to answer it."""

        def __init__(self, what):
            self.what = what

        def __enter__(self):
            users.pending[side].append(self.what)

        def __exit__(self, *exc):
            users.pending[side].remove(self.what)
            users.poke()
            return False

    class Recording(PairingDelegate):
        async def accept(self):
            users.calls[side].append(('accept', None))
            with asked('accept'):
                await users.think(side)
                if not users.ans['accept']:
                    users.refusals.append((side, 'accept-rejected'))
                return users.ans['accept']

        async def confirm(self, auto: bool = False):
            users.calls[side].append(('confirm', auto))
            with asked('confirm'):
                await users.think(side)
                if not users.ans['confirm'][side]:
                    users.refusals.append((side, 'confirm-rejected'))
                return users.ans['confirm'][side]

        async def compare_numbers(self, number, digits):
            users.calls[side].append(('compare_numbers', number))
            if not (can_show and can_yes_no):
                users.hw.append((side, f'compare-on-{IO_NAME[io]}'))
                return False
            with asked('compare_numbers'):
                users.compare[side] = number
                users.poke()
                await users.wait_for(lambda: users.compare[1 - side] is not None)
                await users.think(side)
                other = users.compare[1 - side]
                if not users.ans['compare'][side]:
                    users.refusals.append((side, 'compare-rejected'))
                    return False
                if other is not None and other != number:
                    users.refusals.append((side, 'compare-values-differ'))
                    return False
                return True

        async def get_number(self):
            users.calls[side].append(('get_number', None))
            if not can_type:
                # no keys to type six digits with: the stack gets no number, the user is not at fault
                users.hw.append((side, f'input-on-{IO_NAME[io]}'))
                return None
            with asked('get_number'):
                users.asking[side] = True
                users.poke()
                await users.wait_for(lambda: users.displayed[1 - side] is not None or users.asking[1 - side])
                await users.think(side)
                base = users.displayed[1 - side]
                if base is None:
                    base = users.agreed
                how = users.ans['passkey'][side]
                if how == 'none':
                    users.refusals.append((side, 'passkey-declined'))
                    return None
                if how == 'wrong':
                    users.refusals.append((side, 'wrong-passkey'))
                    base ^= 1 << users.ans['wrong_bit']
                users.entered[side] = base
                return base

        async def get_string(self, max_length):
            users.calls[side].append(('get_string', max_length))
            return None

        async def display_number(self, number, digits):
            users.calls[side].append(('display_number', number))
            if not can_show:
                # nothing to show it on: the other user never sees a number
                users.hw.append((side, f'display-on-{IO_NAME[io]}'))
                return
            users.displayed[side] = number
            users.poke()

        async def generate_passkey(self):
            if users.case.get('passkey') is not None:
                return users.case['passkey']
            return await super().generate_passkey()

    return Recording(PairingDelegate.IoCapability(io),
                     PairingDelegate.KeyDistribution(ikd), PairingDelegate.KeyDistribution(rkd))


def side_role(calls):
    """Which part of an association model this side's delegate was asked to play."""
    kinds = set()
    for m, _a in calls:
        if m == 'display_number':
            kinds.add(rs.R_DISPLAY)
        elif m == 'get_number':
            kinds.add(rs.R_INPUT)
        elif m == 'compare_numbers':
            kinds.add(rs.R_COMPARE)
    if not kinds:
        return rs.R_NONE
    if len(kinds) == 1:
        return kinds.pop()
    return 'mixed:' + '+'.join(sorted(kinds))


def model_of_roles(ri, rr):
    s = {ri, rr}
    if rs.R_COMPARE in s:
        return rs.NUMERIC
    if rs.R_DISPLAY in s or rs.R_INPUT in s or any(x.startswith('mixed') for x in s):
        return rs.PASSKEY
    return rs.JUST_WORKS


# =============================================================================
# world
# =============================================================================
def addr_le(i):
    return bytes.fromhex(ADDRS[i].replace(':', ''))[::-1], 1


class World:
    async def start(self, case, r: R, classic=False):
        from bumble import crypto, hci
        from bumble.device import DeviceConfiguration
        from bumble.keys import MemoryKeyStore
        from bumble.pairing import PairingConfig
        from vlib import rig as vrig

        self.case, self.r = case, r
        self.rng = random.Random(case['seed'])
        vrig.seed_entropy(case['seed'])
        cfgs = []
        for i in range(2):
            cfg = DeviceConfiguration()
            cfg.name = f'dev{i}'
            cfg.address = hci.Address(ADDRS[i], hci.Address.RANDOM_DEVICE_ADDRESS)
            cfg.identity_address_type = hci.Address.RANDOM_DEVICE_ADDRESS
            cfgs.append(cfg)
        self.rg = rg = vrig.Rig(2, seed=case['seed'], max_delay=case['delay'], le_acl_len=case.get('acl'),
                                configs=cfgs, classic=classic)
        self.users = Users(case, self.rng)
        self.scalars = []
        self.irks = []
        self.configs = []
        oob = self.make_oob()
        import json as _json
        from bumble.keys import PairingKeys

        class SerialisingStore(MemoryKeyStore):
            """MemoryKeyStore that passes every stored value through the JSON form a
            JsonKeyStore writes (PairingKeys.to_dict -> json -> PairingKeys.from_dict), so that
            what a later connection reads is what persistence would have kept."""

            async def update(self, name, keys):
                await super().update(name, PairingKeys.from_dict(_json.loads(_json.dumps(keys.to_dict()))))

        class MergingSerialisingStore(SerialisingStore):
            """...and that MERGES an update into the record it already holds for that peer, field by field of the
            JSON form, the way bumble.keys.JsonKeyStore.update does (written here: dict.update of the two dicts)."""

            async def update(self, name, keys):
                old = self.all_keys.get(name)
                merged = dict(_json.loads(_json.dumps(old.to_dict()))) if old is not None else {}
                merged.update(_json.loads(_json.dumps(keys.to_dict())))
                self.all_keys[name] = PairingKeys.from_dict(merged)

        from bumble.keys import JsonKeyStore

        class FileStore(JsonKeyStore):
            """The real JsonKeyStore on a file of its own; `all_keys` lets the harness look at the file."""

            @property
            def all_keys(self):
                try:
                    with open(self.filename, encoding='utf-8') as f:
                        db = _json.load(f)
                except FileNotFoundError:
                    return {}
                return {n: PairingKeys.from_dict(k) for n, k in db.get(self.namespace, {}).items()}

        self.tmpdir = None
        kinds = None
        if case.get('store'):
            # bond histories name the store of each device: json (JsonKeyStore on a temp file), merging (the
            # check's serialising store with JsonKeyStore's merge), memory, serialising (both replace)
            kinds = case['store']
            self.serialising = False
            for k in set(kinds):
                r.ev(f'bond_history_store_{k}')
        else:
            self.serialising = self.rng.random() < 0.4
            r.ev('serialising_store_cases' if self.serialising else 'memory_store_cases')
        for i, d in enumerate(rg.devices):
            if kinds is None:
                d.keystore = SerialisingStore() if self.serialising else MemoryKeyStore()
            elif kinds[i] == 'json':
                import os
                import tempfile
                if self.tmpdir is None:
                    self.tmpdir = tempfile.mkdtemp(prefix='verif-c13-keys-')
                d.keystore = FileStore(ADDRS[i], os.path.join(self.tmpdir, f'keys{i}.json'))
            else:
                d.keystore = {'merging': MergingSerialisingStore, 'serialising': SerialisingStore,
                              'memory': MemoryKeyStore}[kinds[i]]()
            irk = bytes(self.rng.randrange(256) for _ in range(16))
            d.irk = irk
            self.irks.append(irk)
            scalar = self.rng.randrange(1, ref_p256.N)
            self.scalars.append(scalar)
            if oob[i] is None:
                d.smp_manager._ecc_key = crypto.EccKey.from_private_key_bytes(scalar.to_bytes(32, 'big'))
            delegate = make_delegate(self.users, i, case['io'][i], case['ikd'][i], case['rkd'][i])
            cfg = PairingConfig(sc=case['sc'][i], mitm=case['mitm'][i], bonding=case['bonding'][i],
                                delegate=delegate, identity_address_type=PairingConfig.AddressType.RANDOM,
                                oob=oob[i])
            self.configs.append(cfg)
            d.pairing_config_factory = lambda connection, _c=cfg: _c
            d.smp_session_proxy = self.spy_class(i)
        await rg.power_on()
        self.handle_of = {}
        self.provider_answers = []   # (seq of the command, asked device, rand, ediv, answer)
        rg.on_hci_logged.append(self.on_logged)
        self.tamper_hits = 0
        return self

    def reconfigure(self, sub):
        """Another pairing of the same two devices with another configuration (bond histories): same people,
        fresh screens, new delegates and PairingConfigs."""
        from bumble.pairing import PairingConfig
        self.case = sub
        self.users.begin(sub)
        self.configs = []
        for i, d in enumerate(self.rg.devices):
            delegate = make_delegate(self.users, i, sub['io'][i], sub['ikd'][i], sub['rkd'][i])
            cfg = PairingConfig(sc=sub['sc'][i], mitm=sub['mitm'][i], bonding=sub['bonding'][i], delegate=delegate,
                                identity_address_type=PairingConfig.AddressType.RANDOM, oob=None)
            self.configs.append(cfg)
            d.pairing_config_factory = lambda connection, _c=cfg: _c

    def cleanup(self):
        if getattr(self, 'tmpdir', None):
            import shutil
            shutil.rmtree(self.tmpdir, ignore_errors=True)
            self.tmpdir = None

    def spy_class(self, i):
        """Session subclass that only records the instances (observation of the method each
        state machine says it selected; never used to predict anything)."""
        from bumble import smp
        world = self
        world.sessions = getattr(world, 'sessions', {0: [], 1: []})

        class Spy(smp.Session):
            def __init__(self, *a, **k):
                super().__init__(*a, **k)
                world.sessions[i].append(self)

        return Spy

    def make_oob(self):
        from bumble import crypto
        from bumble.pairing import PairingConfig
        from bumble.smp import OobContext, OobLegacyContext
        v = self.case.get('oob')
        self.oob_r = [bytes(16), bytes(16)]
        self.oob_tk = None
        if not v:
            return [None, None]
        ctx = []
        for i in range(2):
            scalar = self.rng.randrange(1, ref_p256.N)
            key = crypto.EccKey.from_private_key_bytes(scalar.to_bytes(32, 'big'))
            ctx.append((scalar, OobContext(ecc_key=key, r=bytes(self.rng.randrange(256) for _ in range(16)))))
        self.oob_scalars = [c[0] for c in ctx]
        if v == 'legacy-both':
            tk = bytes(self.rng.randrange(256) for _ in range(16))
            self.oob_tk = tk
            lc = OobLegacyContext(tk=tk)
            return [PairingConfig.OobConfig(None, None, lc), PairingConfig.OobConfig(None, None, lc)]
        peer = [None, None]
        if v in ('sc-both', 'sc-initiator-has-peer-data'):
            peer[0] = ctx[1][1].share()
        if v in ('sc-both', 'sc-responder-has-peer-data'):
            peer[1] = ctx[0][1].share()
        self.oob_ctx_r = [ctx[0][1].r, ctx[1][1].r]
        self.oob_peer = peer
        return [PairingConfig.OobConfig(ctx[0][1], peer[0], None), PairingConfig.OobConfig(ctx[1][1], peer[1], None)]

    def on_logged(self, rec):
        seq, dev, direction, pkt, _t = rec
        if direction != 'h2c' or pkt[0] != 1 or pkt[1] != 0x19 or pkt[2] != 0x20:
            return
        cmds = rs.le_enable_encryption_commands([rec])
        if not cmds or cmds[0][2] is None:
            return
        _s, _d, _h, rand, ediv, _ltk = cmds[0]
        peer = 1 - dev
        handle = self.handle_of.get(peer)
        provider = self.rg.hosts[peer].long_term_key_provider

        async def ask():
            try:
                k = await asyncio.wait_for(provider(handle, rand, ediv), 60)
            except Exception as e:
                k = f'raised {type(e).__name__}: {e}'
            self.provider_answers.append((seq, peer, rand, ediv, k))

        asyncio.ensure_future(ask())

    def install_tamper(self, initiator_dev):
        t = self.case.get('tamper')
        if not t:
            return
        code = {'confirm': rs.PAIRING_CONFIRM, 'random': rs.PAIRING_RANDOM, 'dhkey': rs.PAIRING_DHKEY_CHECK,
                'pubkey': rs.PAIRING_PUBLIC_KEY}[t['pdu']]
        sender = initiator_dev if t['role'] == 0 else 1 - initiator_dev
        seen = [0]

        def flt(pkt: bytes):
            if pkt[0] != 0x02 or len(pkt) < 11:
                return pkt
            hf = int.from_bytes(pkt[1:3], 'little')
            if (hf >> 12) & 3 == 1:          # continuation fragment
                return pkt
            cid = int.from_bytes(pkt[7:9], 'little')
            if cid != rs.SMP_CID or pkt[9] != code:
                return pkt
            seen[0] += 1
            if seen[0] != t['nth']:
                return pkt
            k = 10 + min(t['byte'], len(pkt) - 11)
            b = bytearray(pkt)
            b[k] ^= 1 << t['bit']
            self.tamper_hits += 1
            self.tampered_seq = len(self.rg.hci_log)
            return bytes(b)

        self.rg.h2c[sender].filters.append(flt)


def kd_names(m):
    return '+'.join(n for b, n in ((1, 'enc'), (2, 'id'), (4, 'sign'), (8, 'link')) if m & b) or 'none'


def store_keys(device):
    return list(device.keystore.all_keys.items())


def key_fields(k):
    if k is None:
        return None
    return {'value': bytes(k.value).hex() if k.value is not None else None, 'authenticated': k.authenticated,
            'ediv': k.ediv, 'rand': bytes(k.rand).hex() if k.rand is not None else None}


def describe(case):
    return (f"io={IO_NAME[case['io'][0]]}/{IO_NAME[case['io'][1]]} sc={case['sc']} mitm={case['mitm']} "
            f"bonding={case['bonding']} ikd={case['ikd']} rkd={case['rkd']} start={case['start']} "
            f"answers={case['answers']} passkey={case.get('passkey')} delay={case['delay']} "
            f"tamper={case.get('tamper')} seed={case['seed']}"
            + (f" think={case.get('think')} caller-gives-up={case['giveup']}" if case.get('giveup') else ''))


# =============================================================================
# one LE pairing + all oracles
# =============================================================================
class Suffixed:
    """View of the result accumulator that appends a class suffix to every violation key: the
    same oracle judges a further pairing attempt on the same connection, but what it finds there
    is a different mechanism (state left behind by the earlier attempt)."""

    def __init__(self, r, sfx):
        object.__setattr__(self, '_r', r)
        object.__setattr__(self, '_sfx', sfx)

    def _key(self, key):
        # clause + pairing mode + what went before: the association model and the answers of THIS attempt are not
        # what discriminates a defect caused by leftovers of the previous attempt
        return '/'.join(key.split('/')[:3]) + self._sfx

    def bad(self, key, detail, trace_tail=None):
        self._r.bad(self._key(key), detail, trace_tail)

    def check(self, cond, key, detail=''):
        return self._r.check(cond, self._key(key), detail)

    def __getattr__(self, name):
        return getattr(self._r, name)

    def __setattr__(self, name, value):
        setattr(self._r, name, value)


async def le_case(case, r: R):
    w = await World().start(case, r)
    rg, users = w.rg, w.users
    cc, pc = await rg.connect_le(0, 1)          # device 0 is the link Central, device 1 the link Peripheral
    await rg.quiesce()
    w.handle_of = {0: cc.handle, 1: pc.handle}
    conns = {0: cc, 1: pc}
    # C = the device that sends the Pairing Request (SMP initiator), P = the SMP responder. The SMP roles are
    # independent of the link roles: bumble lets the application of the link Peripheral call pair() too.
    w.C = 1 if case.get('initiator') == 'peripheral' else 0
    w.P = 1 - w.C
    w.outcome = {0: [], 1: []}

    def on_paired(i, keys):
        w.outcome[i].append(('paired', keys))
        if users.pending[i]:
            users.premature.append((i, list(users.pending[i])))

    for i in (0, 1):
        conns[i].on('pairing', lambda keys, _i=i: on_paired(_i, keys))
        conns[i].on('pairing_failure', lambda reason, _i=i: w.outcome[_i].append(('failed', int(reason))))
    w.install_tamper(w.C)
    prev = None
    attempts = [case] + [dict(case, tamper=None, reconnect=[], **a) for a in (case.get('attempts') or [])]
    for k, sub in enumerate(attempts):
        if k:
            users.begin(sub)
            w.outcome = {0: [], 1: []}
            r.ev('further_attempts_on_same_connection')
            r.ev(f'further_attempt_after_{prev}')
        prev = await one_pairing(w, sub, r if k == 0 else Suffixed(r, f'/again-after-{prev}'), conns, k, prev,
                                 last=(k == len(attempts) - 1))
        if prev is None:
            break


async def one_pairing(w, case, r, conns, k, prev, last):
    """One pairing on the (already connected) link + all oracles. Returns 'paired' / 'failed' / 'mixed',
    or None when nothing more can be learnt from this connection (hang)."""
    from bumble.core import ProtocolError
    from vlib import rig as vrig

    rg, users = w.rg, w.users
    C, P = w.C, w.P
    desc = describe(case) + (f' [attempt {k + 1} on the same connection, the previous one ended {prev}]' if k else '')
    outcome = w.outcome
    w.log_mark = len(rg.hci_log)
    hits0 = w.tamper_hits
    enc_before = {i: bool(conns[i].is_encrypted) for i in (0, 1)}
    stores_before = {i: {n: keys_dict(kk) for n, kk in store_keys(rg.devices[i])} for i in (0, 1)}

    # what the table says for this configuration (used for keys and for the verdict)
    def auth_bits(i):
        return ((rs.AUTH_BONDING if case['bonding'][i] else 0) | (rs.AUTH_MITM if case['mitm'][i] else 0)
                | (rs.AUTH_SC if case['sc'][i] else 0))
    oobv = case.get('oob')
    oob_flags = [0, 0]
    if oobv == 'legacy-both':
        oob_flags = [1, 1]
    elif oobv:
        oob_flags = [1 if w.oob_peer[0] is not None else 0, 1 if w.oob_peer[1] is not None else 0]
    exp_sc, (exp_model, exp_ri, exp_rr) = rs.expected_model(
        case['io'][C], case['io'][P], auth_bits(C), auth_bits(P), oob_flags[C], oob_flags[P])
    mode = 'sc' if exp_sc else 'legacy'
    iokey = f'io-{IO_NAME[case["io"][C]]}-{IO_NAME[case["io"][P]]}'

    gu = case.get('giveup')
    gave = {}

    async def do_pair():
        task = None
        try:
            if gu and gu['after'] > 0:
                # the application waits that long and no longer
                await asyncio.wait_for(conns[C].pair(), gu['after'])
            elif gu:
                # the application's task is cancelled after a few loop turns (between two protocol messages)
                task = asyncio.ensure_future(conns[C].pair())
                for _ in range(-gu['after']):
                    if task.done():
                        break
                    await asyncio.sleep(0)
                if not task.done():
                    gave['cancelled'] = True
                    task.cancel()
                await task
            else:
                await conns[C].pair()
            return ('ok', None)
        except ProtocolError as e:
            return ('failed', e.error_code)
        except asyncio.TimeoutError:
            gave['running'] = not (outcome[C] or outcome[P])
            return ('gave-up', 'wait_for expired')
        except asyncio.CancelledError:
            if gave.get('cancelled') and task is not None and task.cancelled():
                gave['running'] = not (outcome[C] or outcome[P])
                return ('gave-up', 'task cancelled')
            raise
        except Exception as e:
            return ('raised', f'{type(e).__name__}: {e}')

    r.ev('pairings')
    lc = getattr(w, 'link_central', 0)       # device 0 is the link Central unless a bond history says otherwise
    r.ev(f'pairings_initiated_by_link_{"peripheral" if C != lc else "central"}')
    r.evals()
    hang = False
    if case['start'] == 'security-request':
        got = asyncio.get_running_loop().create_future()
        conns[C].once('security_request', lambda auth_req: got.done() or got.set_result(auth_req))
        conns[P].request_pairing()
        try:
            auth_req = await vloop.vwait(got, 60)
            r.ev('security_requests')
            r.check(int(auth_req) & 0x0F == auth_bits(P) & 0x0F, 'pairing/security-request/auth-req-wrong',
                    f'security request carried auth_req {int(auth_req):#x}, peripheral config {auth_bits(P):#x}; {desc}')
        except vloop.Hang:
            r.bad('hang/security-request', f'security request never reached the central application; {desc}')
            return None
    try:
        res = await vloop.vwait(do_pair())
    except vloop.Hang:
        hang = True
        res = ('hang', None)
    await rg.quiesce()
    for _ in range(60):
        if outcome[C] and outcome[P]:
            break
        await asyncio.sleep(1)
    await rg.quiesce()
    # a user who is still looking at a prompt gives the answer, however late it is, and the stack sees it
    for _ in range(60):
        if not (users.pending[C] or users.pending[P]):
            break
        await asyncio.sleep(1)
    await rg.quiesce()
    if users.late_answers:
        r.ev('answers_given_after_think_time', users.late_answers)
        users.late_answers = 0

    # ---- the wire ------------------------------------------------------------
    log = rg.hci_log[w.log_mark:]
    pdus = rs.transcript(vrig.l2cap_log(log, direction=vrig.H2C))
    cands = [0, users.agreed] + [v for v in (users.displayed[0], users.displayed[1], users.entered[0], users.entered[1])
                                 if v is not None]
    if w.oob_tk is not None:
        cands.append(int.from_bytes(w.oob_tk, 'little'))
    an = rs.analyse(pdus, addr_le, cands)
    tampered = w.tamper_hits > hits0
    if tampered:
        r.ev('tamper_applied')
        r.ev(f'tamper_applied_{case["tamper"]["pdu"]}')
    if an.initiator is not None:
        r.check(an.initiator == C, 'pairing/request-from-peripheral',
                f'pairing request sent by device {an.initiator}, pair() was called on device {C}; {desc}')
    for (s, code, ln) in an.malformed:
        r.bad('pairing/wire/malformed-pdu', f'device {s} sent SMP code {code:#x} with {ln} bytes; {desc}')

    # ---- outcome -------------------------------------------------------------
    def final(i):
        kinds = [k for k, _ in outcome[i]]
        if not kinds:
            return 'silent'
        if 'paired' in kinds and 'failed' in kinds:
            return 'both-events'
        return kinds[0]
    fin = {C: final(C), P: final(P)}
    negative = bool(users.refusals) or tampered
    what = None
    if tampered:
        what = 'tampered-' + case['tamper']['pdu']
    elif users.refusals:
        what = users.refusals[0][1]
    in_use = [v for v in (users.displayed[C], users.displayed[P], users.entered[C], users.entered[P]) if v is not None]
    cls = 'passkey-zero' if (0 in in_use) else what   # 000000 is a class of its own, whatever else happened
    sfx = f'/{cls}' if cls else ''
    gave_up = res[0] == 'gave-up'
    if gave_up:
        # the caller stopped waiting; what it would have been told is no longer observable, the events and stores are
        sfx += '/caller-gave-up'
        r.ev('caller_gave_up_cases')
        r.ev(f'caller_gave_up_{"after-seconds" if gu["after"] > 0 else "after-loop-turns"}')
        if gave.get('running'):
            r.ev('caller_gave_up_while_exchange_running')
            r.ev(f'caller_gave_up_while_exchange_running_{mode}')
    if hang:
        r.bad(f'hang/pair/{mode}/{exp_model}{sfx}', f'pair() still pending after {vloop.T_V} virtual s; responder={fin[P]} '
              f'wire={an.codes[-6:]}; {desc}')
    r.ev(f'outcome_{fin[C]}_{fin[P]}')
    # API result vs the initiator's own events
    r.check(hang or gave_up or (res[0] == 'ok') == (fin[C] == 'paired'), f'pairing/api-vs-event/{mode}/{exp_model}',
            f'pair() -> {res} but the initiator connection reported {outcome[C]}; {desc}')
    r.check(res[0] != 'raised', f'pairing/pair-raised-unexpected/{mode}',
            f'pair() raised {res[1]}; {desc}')
    for i in (C, P):
        r.check(fin[i] != 'both-events' and len(outcome[i]) <= 1, f'pairing/outcome-reported-twice/{mode}',
                f'device {i} reported {[(k, (v if k == "failed" else "keys")) for k, v in outcome[i]]}; {desc}')
    agree = (fin[C] == fin[P]) and fin[C] in ('paired', 'failed')
    if not hang:
        r.check(agree, f'pairing/outcome-disagree/{mode}/{exp_model}{sfx}',
                f'initiator: pair()={res} events={fin[C]}; responder: {fin[P]}; refusals={users.refusals} '
                f'tampered={tampered} wire tail={an.codes[-8:]}; {desc}')
    paired = agree and fin[C] == 'paired' and (res[0] == 'ok' or gave_up)
    failed = fin[C] != 'paired' and fin[P] != 'paired' and res[0] != 'ok'
    if paired:
        r.ev('paired_both')
    if agree and fin[C] == 'failed':
        r.ev('failed_both')
    if gave_up and gave.get('running'):
        if paired:
            r.ev('caller_gave_up_then_paired_both')
        elif agree:
            r.ev('caller_gave_up_then_failed_both')
        # whichever way it ended, nobody is left in between: no prompt stays open, both sessions are over
        r.check(not (users.pending[C] or users.pending[P]), f'pairing/prompt-never-answered/{mode}/{exp_model}/caller-gave-up',
                f'prompts still open 60 s after the caller gave up: initiator {users.pending[C]} responder {users.pending[P]}; {desc}')
    if negative:
        r.ev('negative_cases')
        r.ev(f'negative_{what}')
        # a refusal / a tampered authentication value must never end in success anywhere
        r.check(fin[C] != 'paired' and fin[P] != 'paired' and res[0] != 'ok',
                f'pairing/succeeded-despite/{what}/{mode}',
                f'initiator pair()={res} events={fin[C]} responder={fin[P]} although {what} '
                f'(refusals={users.refusals}); {desc}')
    elif not paired and not hang:
        r.ev('honest_case_not_paired')
        r.add_extra_list('honest_failures', f'{mode}/{exp_model}/{iokey}: {res} {fin}')
    think = case.get('think') or [0, 0]
    if think[C] or think[P]:
        r.ev('think_time_cases')
        if users.refusals:
            r.ev('late_refusal_cases' if think[users.refusals[0][0]] else 'refusal_with_late_peer_cases')
            r.ev(f'late_refusal_{mode}_{exp_model}')
        elif paired:
            r.ev('late_honest_answers_paired')
    # nobody reports completion while its own user is still looking at a prompt: the answer may be NO
    r.check(not users.premature, f'pairing/completed-before-user-answered/{mode}/{exp_model}',
            f'{[("initiator" if i == C else "responder", p) for i, p in users.premature]} reported "pairing" with these '
            f'prompts still open; answers given afterwards: refusals={users.refusals}; {desc}')
    # nobody is asked for something its declared IO capability cannot do (Vol 3 Part H Tables 2.3-2.5)
    r.ev('hardware_prompt_checks', len(users.calls[C]) + len(users.calls[P]))
    link_role = {lc: 'link-central', 1 - lc: 'link-peripheral'}
    for i, hw in users.hw:
        r.bad(f'pairing/prompt-impossible-for-io/{hw}/{mode}/{"initiator" if i == C else "responder"}-is-{link_role[i]}',
              f'device {i} ({IO_NAME[case["io"][i]]}, SMP {"initiator" if i == C else "responder"}, {link_role[i]}) was asked to '
              f'{hw.split("-on-")[0]}; Table 2.8 for initiator {IO_NAME[case["io"][C]]} / responder {IO_NAME[case["io"][P]]} gives '
              f'{exp_model}: initiator {exp_ri}, responder {exp_rr}; calls: initiator {users.calls[C]} responder {users.calls[P]}; {desc}')
    # a refused / corrupted pairing leaves no encrypted link behind
    if negative and not (enc_before[C] or enc_before[P]):
        r.ev('not_encrypted_after_failure_checks')
        r.check(not conns[C].is_encrypted and not conns[P].is_encrypted, f'pairing/encrypted-after-failure/{what}/{mode}',
                f'link encrypted: initiator {conns[C].is_encrypted} responder {conns[P].is_encrypted} after {what}; '
                f'outcome initiator {fin[C]} responder {fin[P]}; {desc}')

    # ---- stores after a failure ---------------------------------------------------
    stores = {i: store_keys(rg.devices[i]) for i in (C, P)}
    if not paired:
        for i in (C, P):
            if fin[i] == 'paired':
                continue   # reported under outcome-disagree
            now = {n: keys_dict(kk) for n, kk in stores[i]}
            r.check(now == stores_before[i], f'pairing/keys-stored-after-failure/{what or "no-refusal"}',
                    f'device {i} ({"initiator" if i == C else "responder"}) reported {fin[i]} but its key store holds '
                    f'{[(n, sorted(kk)) for n, kk in now.items()]} (before this pairing: {sorted(stores_before[i])}'
                    f'{", values changed" if sorted(now) == sorted(stores_before[i]) else ""}); other side {fin[1 - i]}; {desc}')

    # ---- association model -----------------------------------------------------
    roles = {C: side_role(users.calls[C]), P: side_role(users.calls[P])}
    obs_model = model_of_roles(roles[C], roles[P])
    if oobv and an.reached_phase2:
        obs_model = rs.OOB if (roles[C], roles[P]) == (rs.R_NONE, rs.R_NONE) else obs_model
    reached = an.reached_phase2 and an.pres is not None
    if reached:
        r.ev('phase2_reached')
        r.ev(f'model_{mode}_{exp_model}')
        if case['kind'] == 'table':
            r.ev('table_cells')
        if case['kind'] == 'ptable':
            r.ev('peripheral_initiated_table_cells')
        if case['kind'] == 'srtable':
            r.ev('security_request_table_cells')
        # the wire must show the negotiation the configuration implies
        want_pres_auth = ((rs.AUTH_BONDING if case['bonding'][C] and case['bonding'][P] else 0)
                          | (rs.AUTH_MITM if case['mitm'][P] else 0)
                          | (rs.AUTH_SC if case['sc'][C] and case['sc'][P] else 0))
        r.check(an.preq[1] == case['io'][C] and an.pres[1] == case['io'][P]
                and an.preq[3] & 0x0F == auth_bits(C) and an.pres[3] & 0x0F == want_pres_auth
                and an.preq[2] == oob_flags[C] and an.pres[2] == oob_flags[P],
                'pairing/wire/request-response-fields',
                f'preq={an.preq.hex()} pres={an.pres.hex()} for {desc}')
        r.check(an.sc == exp_sc, f'pairing/sc-negotiation/{mode}', f'wire says sc={an.sc}; {desc}')
        # complete whenever it matters: a side that fails early may not have prompted yet
        judge_roles = paired or (not tampered and not users.refusals)
        if exp_model == rs.OOB:
            exp_roles = (rs.R_NONE, rs.R_NONE)
        else:
            exp_roles = (exp_ri, exp_rr)
        if judge_roles and paired:
            r.ev('model_checks')
            ok = (roles[C], roles[P]) == exp_roles
            r.check(ok, f'pairing/model-wrong/{mode}/{iokey}' + ('' if (case['mitm'][C] or case['mitm'][P]) else '/no-mitm'),
                    f'Table 2.8 says {exp_model} (initiator {exp_roles[0]}, responder {exp_roles[1]}); delegates were asked: '
                    f'initiator {roles[C]} {users.calls[C]}, responder {roles[P]} {users.calls[P]}; {desc}')
            meth = {}
            for i in (C, P):
                if w.sessions[i]:
                    meth[i] = w.sessions[i][-1].pairing_method.name.lower().replace('_', '-')
            if len(meth) == 2:
                r.ev('session_method_checks')
                r.check(meth[C] == meth[P] == exp_model, f'pairing/model-wrong/{mode}/{iokey}/session-method',
                        f'sessions recorded initiator={meth[C]} responder={meth[P]}, Table 2.8 says {exp_model}; {desc}')
            if obs_model == rs.PASSKEY:
                comp = sorted((roles[C], roles[P])) in ([rs.R_DISPLAY, rs.R_INPUT], [rs.R_INPUT, rs.R_INPUT])
                r.check(comp, f'pairing/roles-not-complementary/{mode}/{iokey}',
                        f'initiator {roles[C]}, responder {roles[P]}; {desc}')
        else:
            # even on a failed run nobody may be asked to play a part the table does not give them
            for i, er in ((C, exp_roles[0]), (P, exp_roles[1])):
                r.check(roles[i] in (er, rs.R_NONE), f'pairing/model-wrong/{mode}/{iokey}/failed-run',
                        f'device {i} was asked to {roles[i]} but the table gives it {er} ({exp_model}); {desc}')
        # wire evidence of what was committed to
        if not tampered:
            check_wire_commitments(w, an, r, mode, exp_model, obs_model, roles, users, paired, desc)

    # ---- success: encryption, keys, flags -----------------------------------------
    w.last_an, w.last_mode, w.last_spec_ltk = an, mode, None
    if paired:
        check_success(w, an, r, mode, obs_model, exp_model, conns, stores, outcome, desc, tampered)
    sample_roles = {'initiator': roles[C], 'responder': roles[P]}
    r.sample = {'kind': case['kind'], 'config': desc[:300], 'expected_model': exp_model, 'observed_model': obs_model,
                'delegate_roles': sample_roles, 'wire': [f'{s}:{rs.CODE_NAMES.get(c, c)}' for s, c in an.codes][:24],
                'outcome': {'pair()': res[0], 'initiator': fin[C], 'responder': fin[P]}, 'wire_model': an.wire_model}
    if reached or users.refusals:
        sig = {k: v for k, v in case.items() if k not in ('seed', '_i')}
        r.sig(repr(sorted(sig.items(), key=lambda kv: kv[0])))
    r.sched.add(rg.schedule_signature)

    # ---- reconnection ---------------------------------------------------------
    if last and paired and case.get('reconnect') and an.bonding_both:
        await reconnect(w, an, r, mode, conns, case['reconnect'], desc)
    for where, e in rg.exceptions[getattr(w, 'exc_mark', 0):]:
        r.bad(f'pairing/exception-in-stack/{mode}', f'{where}: {e}; {desc}')
    w.exc_mark = len(rg.exceptions)
    if hang:
        return None
    return 'paired' if paired else ('failed' if (agree and fin[C] == 'failed') else 'mixed')


def check_wire_commitments(w, an, r, mode, exp_model, obs_model, roles, users, paired, desc):
    C, P = w.C, w.P
    if mode == 'legacy':
        if an.tk_by_role:
            r.ev('wire_commit_checks')
            for role, tk in an.tk_by_role.items():
                r.check(tk is not None, 'pairing/confirm-not-spec/legacy',
                        f'{"M" if role == 0 else "S"}confirm on the wire is not c1(TK, rand, preq, pres, iat, ia, rat, ra) for '
                        f'any TK in {{0, displayed, typed}} = {sorted(set([0, users.agreed] + [v for v in users.displayed.values() if v is not None] + [v for v in users.entered.values() if v is not None]))}; {desc}')
            if paired and all(v is not None for v in an.tk_by_role.values()):
                tk = an.tk
                if exp_model == rs.JUST_WORKS:
                    r.check(tk == 0, f'pairing/model-wire-mismatch/legacy/{exp_model}', f'TK on the wire = {tk}; {desc}')
                elif exp_model == rs.PASSKEY:
                    shown = [v for v in (users.displayed[C], users.displayed[P]) if v is not None]
                    typed = [v for v in (users.entered[C], users.entered[P]) if v is not None]
                    want = shown[0] if shown else (typed[0] if typed else None)
                    r.check(tk == want, f'pairing/model-wire-mismatch/legacy/{exp_model}',
                            f'TK on the wire = {tk}, passkey shown/typed = {shown}/{typed}; {desc}')
                elif exp_model == rs.OOB:
                    r.check(tk == int.from_bytes(w.oob_tk, 'little'), f'pairing/model-wire-mismatch/legacy/oob',
                            f'TK on the wire is not the OOB TK; {desc}')
    else:
        if an.wire_model == 'sc-single-commit' and an.single_commit_ok is not None:
            r.ev('wire_commit_checks')
            r.check(an.single_commit_ok, 'pairing/confirm-not-spec/sc',
                    f'Cb on the wire is not f4(PKbx, PKax, Nb, 0); {desc}')
            if paired:
                r.check(exp_model in (rs.JUST_WORKS, rs.NUMERIC), f'pairing/model-wire-mismatch/sc/{exp_model}',
                        f'wire shows a single commitment (just works / numeric comparison) but the table says {exp_model}; {desc}')
            if an.numeric_value is not None:
                for i in (C, P):
                    if users.compare[i] is not None:
                        r.ev('numeric_value_checks')
                        r.check(users.compare[i] == an.numeric_value, 'pairing/numeric-value-wrong',
                                f'device {i} showed {users.compare[i]:06d}, g2(PKax, PKbx, Na, Nb) mod 10^6 = {an.numeric_value:06d}; {desc}')
        elif an.wire_model == 'sc-passkey':
            r.ev('wire_commit_checks')
            for role, dev in ((0, C), (1, P)):
                bits = an.passkey_bits[role]
                r.check(all(b is not None for b in bits), 'pairing/confirm-not-spec/sc-passkey',
                        f'{"initiator" if role == 0 else "responder"} confirm of round {bits.index(None) + 1 if None in bits else "?"} is not '
                        f'f4(PKx, PKpeer, N, 0x80|bit) for either bit; {desc}')
                mine = users.displayed[dev] if users.displayed[dev] is not None else users.entered[dev]
                if mine is not None and bits and all(b is not None for b in bits):
                    r.ev('passkey_bit_checks', len(bits))
                    want = [(mine >> k) & 1 for k in range(len(bits))]
                    r.check(bits == want, 'pairing/passkey-commit-wrong/sc',
                            f'device {dev} committed to bits {bits} but its passkey is {mine} (bits {want}); {desc}')
            if paired:
                r.check(exp_model == rs.PASSKEY and len(an.passkey_bits[0]) == 20 and len(an.passkey_bits[1]) == 20,
                        f'pairing/model-wire-mismatch/sc/{exp_model}',
                        f'wire shows {len(an.passkey_bits[0])}/{len(an.passkey_bits[1])} passkey rounds, table says {exp_model}; {desc}')
        elif paired and exp_model != rs.OOB:
            r.check(False, f'pairing/model-wire-mismatch/sc/{exp_model}', f'paired without any commitment on the wire; {desc}')


def check_success(w, an, r, mode, obs_model, exp_model, conns, stores, outcome, desc, tampered):
    from bumble import hci
    C, P = w.C, w.P
    rg, users, case = w.rg, w.users, w.case
    for i in (C, P):
        r.check(conns[i].is_encrypted, f'pairing/not-encrypted/{mode}', f'device {i} reports success but its link is not encrypted; {desc}')
    # --- the key the link was encrypted with -----------------------------------
    cmds = rs.le_enable_encryption_commands(rg.hci_log[w.log_mark:])
    r.check(len(cmds) == 1 and cmds[0][1] == C and cmds[0][2] == conns[C].handle, f'pairing/encryption-command/{mode}',
            f'{len(cmds)} LE Enable Encryption commands {[(c[1], c[2]) for c in cmds]}; {desc}')
    link_key_used = None
    if cmds and cmds[0][2] is not None:
        seq, _d, _h, rand, ediv, key = cmds[0]
        link_key_used = key
        ans = [a for a in w.provider_answers if a[0] == seq]
        r.ev('provider_queries', len(ans))
        if ans:
            k = ans[0][4]
            r.check(isinstance(k, (bytes, bytearray)) and bytes(k) == key, f'pairing/link-key-differs/{mode}',
                    f'central encrypted with {key.hex()} (ediv={ediv} rand={rand.hex()}); the peripheral host would answer '
                    f'the LTK request with {k.hex() if isinstance(k, (bytes, bytearray)) else k}; {desc}')
        if mode == 'legacy' and an.stk is not None:
            r.ev('spec_key_checks')
            r.check(key == an.stk, 'pairing/stk-not-spec/legacy',
                    f'central encrypted with {key.hex()}, s1(TK={an.tk}, Srand, Mrand) = {an.stk.hex()}; {desc}')
        if mode == 'sc':
            if exp_model == rs.PASSKEY:
                pk = users.displayed[C] if users.displayed[C] is not None else users.entered[C]
                ra = rb = int(pk).to_bytes(16, 'little')
            elif exp_model == rs.OOB:
                # ra / rb: the OOB random of A / B if the OTHER side received it, else 0
                ra = w.oob_ctx_r[C] if w.oob_peer[P] is not None else bytes(16)
                rb = w.oob_ctx_r[P] if w.oob_peer[C] is not None else bytes(16)
            else:
                ra = rb = bytes(16)
            d = w.scalars[C] if not case.get('oob') else w.oob_scalars[C]
            ref = rs.sc_keys(d, an, addr_le, ra, rb)
            if ref is not None:
                w.last_spec_ltk = ref['ltk']
                r.ev('spec_key_checks')
                r.check(key == ref['ltk'], 'pairing/ltk-not-spec/sc',
                        f'central encrypted with {key.hex()}, f5(DHKey, Na, Nb, A, B) = {ref["ltk"].hex()}; {desc}')
                if exp_model != rs.OOB or (w.oob_peer[0] is not None and w.oob_peer[1] is not None):
                    r.check(an.dhkey_checks.get(0) == ref['ea'] and an.dhkey_checks.get(1) == ref['eb'],
                            'pairing/dhkey-check-not-spec/sc',
                            f'Ea/Eb on the wire {an.dhkey_checks.get(0, b"").hex()}/{an.dhkey_checks.get(1, b"").hex()} '
                            f'!= f6(...) {ref["ea"].hex()}/{ref["eb"].hex()}; {desc}')
    if getattr(w, 'rebond', False):
        # a further bond on a store that already holds one for this peer: what the record looks like slot by slot
        # depends on the store (replace / merge); what it YIELDS is judged by the reconnections of the bond history
        return
    # --- stores -------------------------------------------------------------------
    ident = {C: ADDRS[C], P: ADDRS[P]}
    rec = {}
    for i in (C, P):
        names = [n for n, _ in stores[i]]
        r.check(len(stores[i]) == 1 and names[0] == ident[1 - i], f'keys/store-entry/{mode}',
                f'device {i} stores {names}, expected exactly one entry for {ident[1 - i]}; {desc}')
        rec[i] = stores[i][0][1] if stores[i] else None
        ev_keys = [v for k, v in outcome[i] if k == 'paired']
        if ev_keys and rec[i] is not None:
            r.check(keys_dict(ev_keys[0]) == keys_dict(rec[i]), f'keys/event-vs-store/{mode}',
                    f'device {i}: pairing event keys {sorted(keys_dict(ev_keys[0]))} != stored {sorted(keys_dict(rec[i]))}; {desc}')
    if rec[C] is None or rec[P] is None:
        return
    ikd, rkd = an.init_kd, an.resp_kd
    preq_ikd, preq_rkd = an.preq[5], an.preq[6]
    r.check(ikd & ~preq_ikd == 0 and rkd & ~preq_rkd == 0 and ikd == preq_ikd & case['ikd'][P] and rkd == preq_rkd & case['rkd'][P]
            and preq_ikd == case['ikd'][C] and preq_rkd == case['rkd'][C],
            'keys/negotiation/masks', f'request {preq_ikd:#x}/{preq_rkd:#x} response {ikd:#x}/{rkd:#x}; {desc}')
    r.add_extra_list('kd_negotiated', f'{kd_names(ikd)}/{kd_names(rkd)}')
    # what the wire shows in the distribution phase vs the negotiated masks
    for role, mask, dev in ((0, ikd, C), (1, rkd, P)):
        dist = an.distributed[role]
        want = set()
        if mode == 'legacy' and mask & rs.KD_ENC:
            want |= {'ltk', 'ediv', 'rand'}
        if mask & rs.KD_ID:
            want |= {'irk', 'addr_type', 'addr'}
        if mask & rs.KD_SIGN:
            want |= {'csrk'}
        r.check(set(dist) == want, f'keys/distribution-not-per-negotiation/{mode}',
                f'{"initiator" if role == 0 else "responder"} negotiated {kd_names(mask)} but sent {sorted(dist)}; {desc}')
    auth_expected = rs.is_authenticated_model(obs_model if exp_model != rs.OOB else rs.OOB)
    for i in (C, P):
        k = rec[i]
        for name in ('ltk', 'ltk_central', 'ltk_peripheral', 'irk', 'csrk', 'link_key'):
            key = getattr(k, name)
            if key is None:
                continue
            r.ev('authenticated_flag_checks')
            if key.authenticated and not auth_expected:
                r.check(False, 'pairing/authenticated-flag/just-works',
                        f'device {i} stored {name} with authenticated=True after {obs_model} '
                        f'(delegate calls {users.calls[i]}); {desc}')
            elif not key.authenticated and auth_expected:
                r.check(False, f'pairing/authenticated-flag/{obs_model}-not-flagged',
                        f'device {i} stored {name} with authenticated=False after {obs_model}; {desc}')
            else:
                r.ev('oracle_evals')
    if mode == 'sc':
        for i in (C, P):
            r.check(rec[i].ltk is not None and rec[i].ltk_central is None and rec[i].ltk_peripheral is None,
                    'keys/ltk-slot/sc', f'device {i} stored {sorted(keys_dict(rec[i]))}; {desc}')
        if rec[C].ltk is not None and rec[P].ltk is not None:
            r.check(rec[C].ltk.value == rec[P].ltk.value, 'keys/ltk-value-differs/sc',
                    f'{rec[C].ltk.value.hex()} vs {rec[P].ltk.value.hex()}; {desc}')
            if link_key_used is not None:
                r.check(rec[C].ltk.value == link_key_used, 'keys/ltk-not-the-link-key/sc',
                        f'stored {rec[C].ltk.value.hex()}, link encrypted with {link_key_used.hex()}; {desc}')
    else:
        for i in (C, P):
            r.check(rec[i].ltk is None, 'keys/ltk-slot/legacy', f'device {i} stored an SC-style ltk after legacy pairing; {desc}')
        # every LTK that travelled must sit, with its EDIV/Rand, in the distributor's record and the receiver's store
        for role, dev in ((0, C), (1, P)):
            dist = an.distributed[role]
            if 'ltk' not in dist:
                continue
            for holder in (dev, 1 - dev):
                slots = [getattr(rec[holder], n) for n in ('ltk_central', 'ltk_peripheral')]
                hit = [s for s in slots if s is not None and s.value == dist['ltk']]
                r.check(bool(hit) and (holder == dev or (hit[0].ediv == dist.get('ediv') and hit[0].rand == dist.get('rand'))),
                        f'keys/ltk-value-differs/legacy/{"distributor" if holder == dev else "receiver"}',
                        f'LTK {dist["ltk"].hex()} ediv={dist.get("ediv")} rand={dist.get("rand", b"").hex()} distributed by the '
                        f'{"initiator" if role == 0 else "responder"} is not in device {holder}\'s record '
                        f'{[key_fields(s) for s in slots]}; {desc}')
    # identity, signing: receiver's store == distributor's value == wire
    for role, dev in ((0, C), (1, P)):
        dist = an.distributed[role]
        recv = rec[1 - dev]
        if 'irk' in dist:
            r.ev('irk_checks')
            r.check(recv.irk is not None and recv.irk.value == w.irks[dev] == dist['irk'], f'keys/irk-value-differs/{mode}',
                    f'device {dev} IRK {w.irks[dev].hex()}, wire {dist["irk"].hex()}, receiver stored {key_fields(recv.irk)}; {desc}')
            want_addr = addr_le(dev)[0]
            r.check(dist.get('addr') == want_addr and dist.get('addr_type') == 1 and recv.address_type == 1,
                    f'keys/identity-address-differs/{mode}',
                    f'device {dev} identity {ADDRS[dev]} (random); wire type={dist.get("addr_type")} addr={dist.get("addr", b"")[::-1].hex()}; '
                    f'receiver address_type={recv.address_type}; {desc}')
        else:
            r.check(recv.irk is None, f'keys/irk-not-distributed-but-stored/{mode}', f'device {1 - dev} stored {key_fields(recv.irk)}; {desc}')
        if 'csrk' in dist:
            r.check(recv.csrk is not None and recv.csrk.value == dist['csrk'], f'keys/csrk-value-differs/{mode}',
                    f'wire {dist["csrk"].hex()}, stored {key_fields(recv.csrk)}; {desc}')
        else:
            r.check(recv.csrk is None, f'keys/csrk-not-distributed-but-stored/{mode}', f'device {1 - dev} stored {key_fields(recv.csrk)}; {desc}')
    # cross-transport link key
    lk = {i: rec[i].link_key for i in (C, P)}
    if lk[C] is not None and lk[P] is not None:
        r.ev('link_key_checks')
        if mode == 'sc':
            want = rc.ltk_to_link_key(rec[C].ltk.value, False)
            r.check(lk[C].value == lk[P].value == want, 'keys/link-key/value-differs/sc',
                    f'{lk[C].value.hex()} / {lk[P].value.hex()}, h6(h6(LTK, tmp1), lebr) = {want.hex()}; {desc}')
        else:
            # Vol 3 Part H 2.4.2.4 converts only an LTK generated by Secure Connections; whatever an implementation does
            # with the LinkKey flag after legacy pairing, the two stores must not hold DIFFERENT link keys for each other
            r.check(lk[C].value == lk[P].value, 'keys/link-key/value-differs/legacy',
                    f'after legacy pairing with the LinkKey flag negotiated ({kd_names(ikd)}/{kd_names(rkd)}) the initiator '
                    f'stored BR/EDR link key {lk[C].value.hex()} and the responder {lk[P].value.hex()}; {desc}')
    elif (lk[C] is None) != (lk[P] is None):
        r.ev(f'link_key_on_one_side_only_{mode}')


async def reconnect(w, an, r, mode, conns, steps, desc):
    """After bonding: drop the link, reconnect, central encrypts from its store; ask the
    peripheral host's provider what it would answer for the snooped EDIV/Rand."""
    rg = w.rg
    cur = conns
    central = 0
    for n, step in enumerate(steps):
        try:
            await vloop.vwait(cur[central].disconnect())
        except vloop.Hang:
            r.bad('hang/reconnect/disconnect', f'disconnect pending; {desc}')
            return
        except Exception:
            pass
        await rg.quiesce()
        if step == 'swapped':
            central = 1 - central
        peripheral = 1 - central
        swapped = 'swapped' if central != 0 else 'same'
        try:
            cc, pc = await rg.connect_le(central, peripheral)
        except vloop.Hang:
            r.bad(f'hang/reconnect/connect/{swapped}-roles', f'reconnection pending; {desc}')
            return
        await rg.quiesce()
        cur = {central: cc, peripheral: pc}
        w.handle_of = {central: cc.handle, peripheral: pc.handle}
        # is there a key for this direction at all?
        if mode == 'sc':
            has_key = True
        else:
            # the device that is peripheral NOW must have distributed its LTK at pairing time
            role_then = 0 if peripheral == w.C else 1     # SMP role (0 = initiator) of that device at pairing time
            has_key = 'ltk' in an.distributed[role_then]
        mark = len(rg.hci_log)
        nprov = len(w.provider_answers)
        err = None
        try:
            await vloop.vwait(cc.encrypt())
        except vloop.Hang:
            r.bad(f'hang/reconnect/encrypt/{mode}/{swapped}-roles', f'encrypt() pending after {vloop.T_V} virtual s; {desc}')
            return
        except asyncio.CancelledError:
            raise
        except Exception as e:
            err = f'{type(e).__name__}: {e}'
        await rg.quiesce()
        cmds = rs.le_enable_encryption_commands(rg.hci_log[mark:], dev=central)
        r.ev('reconnect_attempts')
        key = f'{mode}/{swapped}-roles'
        if not has_key:
            r.ev('reconnect_no_key_for_direction')
            # nothing was distributed for this direction: the central must not claim an encrypted link under a key the
            # peripheral cannot know
            ans = w.provider_answers[nprov:]
            if cmds and cmds[0][2] is not None and ans:
                k = ans[0][4]
                same = isinstance(k, (bytes, bytearray)) and bytes(k) == cmds[0][5]
                r.check(same or err is not None, f'reconnect/encrypts-without-distributed-key/{key}',
                        f'no LTK was distributed for this direction, yet the central sent LE Enable Encryption with '
                        f'{cmds[0][5].hex()} and the peripheral would answer {k.hex() if isinstance(k, (bytes, bytearray)) else k}; {desc}')
            elif cmds and cmds[0][2] is None:
                r.check(False, f'reconnect/encrypts-without-distributed-key/{key}',
                        f'no LTK was distributed for this direction, yet the central sent a truncated LE Enable Encryption '
                        f'command (parameters {cmds[0][5].hex()}); {desc}')
            continue
        r.ev('reconnect_checks')
        if not r.check(err is None and len(cmds) == 1 and cmds[0][2] == cc.handle, f'reconnect/encrypt-failed/{key}',
                       f'encrypt() -> {err}; {len(cmds)} LE Enable Encryption commands; stores: central '
                       f'{[(n_, sorted(keys_dict(k))) for n_, k in store_keys(rg.devices[central])]}; {desc}'):
            continue
        _seq, _d, _h, rand, ediv, ltk = cmds[0]
        ans = w.provider_answers[nprov:]
        r.ev('provider_queries', len(ans))
        if not ans:
            r.bad('reconnect/harness/no-provider-answer', f'provider not asked; {desc}')
            continue
        k = ans[0][4]
        r.check(isinstance(k, (bytes, bytearray)) and bytes(k) == ltk, f'reconnect/ltk-mismatch/{key}',
                f'step {n} ({step}): central (device {central}) encrypts with LTK {ltk.hex()} ediv={ediv} rand={rand.hex()}; '
                f'the peripheral (device {peripheral}) host answers the LTK request with '
                f'{k.hex() if isinstance(k, (bytes, bytearray)) else k}; negotiated kd {kd_names(an.init_kd)}/{kd_names(an.resp_kd)}; {desc}')
        # the key must also be the one that pairing produced for this direction
        if mode == 'sc':
            want = store_keys(rg.devices[0])[0][1].ltk.value
        else:
            role_then = 0 if peripheral == w.C else 1
            want = an.distributed[role_then]['ltk']
            r.check(ediv == an.distributed[role_then].get('ediv') and rand == an.distributed[role_then].get('rand'),
                    f'reconnect/ediv-rand-wrong/{key}',
                    f'central asked with ediv={ediv} rand={rand.hex()}, the peripheral had distributed '
                    f'ediv={an.distributed[role_then].get("ediv")} rand={an.distributed[role_then].get("rand", b"").hex()}; {desc}')
        r.check(ltk == want, f'reconnect/wrong-ltk/{key}',
                f'central encrypts with {ltk.hex()}, the key for this direction is {want.hex()}; {desc}')
        r.check(cc.is_encrypted and pc.is_encrypted, f'reconnect/not-encrypted/{key}', desc)


# =============================================================================
# Bond histories on one store
# =============================================================================
KD_CLASSES = {'both': ([7, 7], [7, 7]), 'responder-only': ([2, 7], [7, 7]), 'initiator-only': ([7, 7], [2, 7]),
              'enc-only': ([1, 1], [1, 1])}


def bondhist_sub(case, p):
    """case descriptor of pairing p = {'sc', 'central', 'initiator', 'kd', 'model'} of a history.
    ikd / rkd are per DEVICE [dev0, dev1]; the SMP initiator offers (ikd, rkd), the responder masks them."""
    C = p['central'] if p['initiator'] == 'central' else 1 - p['central']
    ikd_c, rkd_c = KD_CLASSES[p['kd']]       # [initiator's view, responder's view]
    ikd = [0, 0]
    rkd = [0, 0]
    ikd[C], ikd[1 - C] = ikd_c[0], ikd_c[1]
    rkd[C], rkd[1 - C] = rkd_c[0], rkd_c[1]
    io = {'jw': [rs.NO_INPUT_NO_OUTPUT] * 2, 'passkey': [rs.KEYBOARD_DISPLAY, rs.KEYBOARD_ONLY],
          'numeric': [rs.DISPLAY_YES_NO, rs.KEYBOARD_DISPLAY]}[p['model']]
    return _base('bondhist', case['seed'], io=io, sc=[p['sc'], p['sc']] if p.get('sc_other') is None else
                 [p['sc'], p['sc_other']], mitm=[p['model'] != 'jw'] * 2, ikd=ikd, rkd=rkd, delay=case['delay'],
                 acl=case.get('acl', 27), initiator='central' if C == p['central'] else 'peripheral')


def history_class(pairings):
    modes = ['sc' if p['sc'] and p.get('sc_other') in (None, True) else 'legacy' for p in pairings]
    cls = '-then-'.join(modes)
    if len({p['central'] for p in pairings}) > 1:
        cls += '/link-roles-swapped-between-pairings'
    return cls


async def bond_history_case(case, r: R):
    """Several bonds of the same two devices, one after the other on the same key stores (each on a connection of
    its own, possibly with the link roles swapped and another key distribution), then a reconnection in both role
    assignments: the central's LE Enable Encryption command (snooped) and the peripheral host's answer to that
    EDIV / Rand (asked by the harness) must carry one key, and it must be the key of the LATEST bond: LTK =
    f5(...) recomputed from the wire of the last pairing (SC), or the LTK the device that is now the Peripheral
    distributed in the last pairing, with its EDIV / Rand (legacy)."""
    pairings = case['pairings']
    first = bondhist_sub(case, pairings[0])
    first['store'] = case['store']
    w = await World().start(first, r)
    try:
        await _bond_history(w, case, r)
    finally:
        w.cleanup()


async def _bond_history(w, case, r: R):
    rg, users = w.rg, w.users
    pairings = case['pairings']
    hcls = history_class(pairings)
    store_cls = 'merging-store' if any(k in ('json', 'merging') for k in case['store']) else 'replacing-store'
    if len(set(case['store'])) > 1:
        store_cls = 'stores-differ'
    r.ev('bond_history_cases')
    r.ev(f'bond_history_{hcls.split("/")[0]}')
    conns = None
    latest = None
    for j, p in enumerate(pairings):
        sub = bondhist_sub(case, p)
        if conns is not None:
            try:
                await vloop.vwait(conns[w.link_central].disconnect())
            except vloop.Hang:
                r.bad('hang/reconnect/disconnect', f'disconnect pending; {describe(sub)}')
                return
            except Exception:
                pass
            await rg.quiesce()
        w.reconfigure(sub)
        w.rebond = j > 0
        w.link_central = p['central']
        try:
            cc, pc = await rg.connect_le(p['central'], 1 - p['central'])
        except vloop.Hang:
            r.bad('hang/reconnect/connect/bond-history', f'connection for pairing {j + 1} pending; {describe(sub)}')
            return
        await rg.quiesce()
        conns = {p['central']: cc, 1 - p['central']: pc}
        w.handle_of = {p['central']: cc.handle, 1 - p['central']: pc.handle}
        w.C = p['central'] if p['initiator'] == 'central' else 1 - p['central']
        w.P = 1 - w.C
        w.outcome = {0: [], 1: []}

        def on_paired(i, keys):
            w.outcome[i].append(('paired', keys))
            if users.pending[i]:
                users.premature.append((i, list(users.pending[i])))

        for i in (0, 1):
            conns[i].on('pairing', lambda keys, _i=i: on_paired(_i, keys))
            conns[i].on('pairing_failure', lambda reason, _i=i: w.outcome[_i].append(('failed', int(reason))))
        rr = r if j == 0 else Suffixed(r, f'/rebond-after-{latest["mode"]}')
        res = await one_pairing(w, sub, rr, conns, 0, None, last=False)
        r.ev('bond_history_pairings')
        if res != 'paired':
            r.ev('bond_history_pairing_not_completed')
            return
        prev_mode = latest['mode'] if latest else None
        latest = {'mode': w.last_mode, 'C': w.C, 'an': w.last_an, 'spec_ltk': w.last_spec_ltk, 'desc': describe(sub)}
    # ---- reconnections in both role assignments --------------------------------------------------
    an = latest['an']
    hist = (f'bond history {hcls} on stores {case["store"]}: ' + '; '.join(
        f'#{j + 1} {"SC" if p["sc"] and p.get("sc_other") in (None, True) else "legacy"} central=dev{p["central"]} SMP initiator=link '
        f'{p["initiator"]} kd={p["kd"]} {p["model"]}' for j, p in enumerate(pairings)))
    central = w.link_central
    for n, step in enumerate(case['reconnect']):
        try:
            await vloop.vwait(conns[central].disconnect())
        except vloop.Hang:
            r.bad('hang/reconnect/disconnect', f'disconnect pending; {hist}')
            return
        except Exception:
            pass
        await rg.quiesce()
        central = pairings[-1]['central'] if step == 'same' else 1 - pairings[-1]['central']
        peripheral = 1 - central
        roles = 'as-in-the-last-pairing' if central == pairings[-1]['central'] else 'swapped-since-the-last-pairing'
        try:
            cc, pc = await rg.connect_le(central, peripheral)
        except vloop.Hang:
            r.bad(f'hang/reconnect/connect/bond-history', f'reconnection pending; {hist}')
            return
        await rg.quiesce()
        conns = {central: cc, peripheral: pc}
        w.handle_of = {central: cc.handle, peripheral: pc.handle}
        # the key of the LATEST bond for this direction
        if latest['mode'] == 'sc':
            want = (latest['spec_ltk'], bytes(8), 0)
        else:
            role_then = 0 if peripheral == latest['C'] else 1      # SMP role of today's Peripheral in the last pairing
            d = an.distributed[role_then]
            want = (d['ltk'], d.get('rand'), d.get('ediv')) if 'ltk' in d else None
        mark = len(rg.hci_log)
        nprov = len(w.provider_answers)
        err = None
        # class of the case: the kind of the last bond, the kind of the bond it replaced, how the stores treat an update
        # (the role assignment of the reconnection is in the detail text: a wrong key shows in both)
        key = f'{latest["mode"]}-after-{prev_mode}/{store_cls}'
        try:
            await vloop.vwait(cc.encrypt())
        except vloop.Hang:
            r.bad(f'hang/reconnect/encrypt/bond-history/{key}', f'encrypt() pending after {vloop.T_V} virtual s; {hist}')
            return
        except asyncio.CancelledError:
            raise
        except Exception as e:
            err = f'{type(e).__name__}: {e}'
        await rg.quiesce()
        cmds = rs.le_enable_encryption_commands(rg.hci_log[mark:], dev=central)
        ans = w.provider_answers[nprov:]
        r.ev('bond_history_reconnections')
        r.ev(f'bond_history_reconnections_{roles}')
        stores_txt = {i: [(n_, {f: key_fields(getattr(k_, f)) for f in ('ltk', 'ltk_central', 'ltk_peripheral')
                                 if getattr(k_, f) is not None}) for n_, k_ in store_keys(rg.devices[i])] for i in (0, 1)}
        where = (f'reconnection {n + 1} (central=dev{central}, {roles.replace("-", " ")}); {hist}; stores now: {stores_txt}; '
                 f'last pairing: {latest["desc"]}')
        if want is None:
            # the last bond has no key for this direction: the central must not end up encrypting under a key the
            # peripheral would not answer with
            r.ev('bond_history_no_key_for_direction')
            if cmds and cmds[0][2] is not None and ans:
                k = ans[0][4]
                same = isinstance(k, (bytes, bytearray)) and bytes(k) == cmds[0][5]
                r.check(same or err is not None, f'reconnect/bond-history/encrypts-without-key-from-the-last-bond/{key}',
                        f'the last bond distributed no LTK for this direction, yet the central sent LE Enable Encryption '
                        f'with {cmds[0][5].hex()} (ediv={cmds[0][4]}) and the peripheral would answer '
                        f'{k.hex() if isinstance(k, (bytes, bytearray)) else k}; {where}')
            continue
        r.ev('bond_history_reconnect_checks')
        if not r.check(err is None and len(cmds) == 1 and cmds[0][2] == cc.handle,
                       f'reconnect/bond-history/encrypt-failed/{key}',
                       f'encrypt() -> {err}; {len(cmds)} LE Enable Encryption commands; {where}'):
            continue
        _seq, _d, _h, rand, ediv, ltk = cmds[0]
        r.ev('provider_queries', len(ans))
        if not ans:
            r.bad('reconnect/harness/no-provider-answer', f'provider not asked; {where}')
            continue
        k = ans[0][4]
        kb = bytes(k) if isinstance(k, (bytes, bytearray)) else None
        r.ev('bond_history_shared_key_checks')
        r.check(kb == ltk, f'reconnect/bond-history/keys-differ/{key}',
                f'the central encrypts with {ltk.hex()} ediv={ediv} rand={rand.hex()}; the peripheral host answers that '
                f'request with {kb.hex() if kb is not None else k}; key of the last bond for this direction: '
                f'{want[0].hex() if want[0] else None}; {where}')
        if want[0] is not None:
            r.ev('bond_history_latest_key_checks')
            r.ev(f'bond_history_latest_key_checks_{latest["mode"]}')
            r.check(ltk == want[0] and (latest['mode'] == 'sc' or (rand == want[1] and ediv == want[2])),
                    f'reconnect/bond-history/not-the-key-of-the-last-bond/central/{key}',
                    f'the central encrypts with {ltk.hex()} ediv={ediv} rand={rand.hex()}; the last bond gives '
                    f'{want[0].hex()} ediv={want[2]} rand={want[1].hex() if want[1] is not None else None}; {where}')
            if kb is not None and kb == ltk and ltk != want[0]:
                r.ev('bond_history_both_sides_on_an_older_key')
        r.check(cc.is_encrypted and pc.is_encrypted, f'reconnect/bond-history/not-encrypted/{key}', where)
    r.sig('bondhist', hcls, tuple(case['store']), tuple(case['reconnect']),
          tuple((p['kd'], p['model'], p['initiator']) for p in pairings))
    r.sample = {'kind': 'bondhist', 'history': hist, 'reconnections': case['reconnect']}


# =============================================================================
# CTKD over BR/EDR
# =============================================================================
async def ctkd_case(case, r: R):
    from bumble import hci
    from bumble.core import ProtocolError
    from bumble.keys import PairingKeys
    from vlib import rig as vrig

    w = await World().start(case, r, classic=True)
    rg, users = w.rg, w.users
    desc = describe(case) + f' link_key_authenticated={case["lk_auth"]}'
    ca, cb = await rg.connect_classic(0, 1)
    await rg.quiesce()
    conns = {0: ca, 1: cb}
    lk = bytes(w.rng.randrange(256) for _ in range(16))
    kt = (hci.LinkKeyType.AUTHENTICATED_COMBINATION_KEY_GENERATED_FROM_P_256 if case['lk_auth']
          else hci.LinkKeyType.UNAUTHENTICATED_COMBINATION_KEY_GENERATED_FROM_P_256)
    for i in (0, 1):
        await rg.devices[i].keystore.update(
            str(conns[i].peer_address),
            PairingKeys(link_key=PairingKeys.Key(value=lk, authenticated=case['lk_auth']), link_key_type=int(kt)))
        # the virtual controller has no BR/EDR authentication/encryption: mark the link as tests/self_test.py does
        conns[i].encryption = 1
    outcome = {0: [], 1: []}
    for i in (0, 1):
        conns[i].on('pairing', lambda keys, _i=i: outcome[_i].append(('paired', keys)))
        conns[i].on('pairing_failure', lambda reason, _i=i: outcome[_i].append(('failed', int(reason))))

    async def do_pair():
        try:
            await ca.pair()
            return ('ok', None)
        except ProtocolError as e:
            return ('failed', e.error_code)
        except asyncio.CancelledError:
            raise
        except Exception as e:
            return ('raised', f'{type(e).__name__}: {e}')

    r.ev('pairings')
    r.ev('ctkd_pairings')
    r.evals()
    kdk = kd_names(case['ikd'][0])
    try:
        res = await vloop.vwait(do_pair())
    except vloop.Hang:
        await rg.quiesce()
        r.bad(f'hang/pair/ctkd/kd-{kdk}', f'pair() over BR/EDR still pending after {vloop.T_V} virtual s; responder events '
              f'{[k for k, _ in outcome[1]]}; {desc}')
        return
    await rg.quiesce()
    for _ in range(60):
        if outcome[0] and outcome[1]:
            break
        await asyncio.sleep(1)
    fin = {i: (outcome[i][0][0] if outcome[i] else 'silent') for i in (0, 1)}
    r.ev(f'outcome_{fin[0]}_{fin[1]}')
    r.check(fin[0] == fin[1] and fin[0] in ('paired', 'failed'), 'pairing/outcome-disagree/ctkd/ctkd',
            f'pair()={res}, initiator {fin[0]}, responder {fin[1]}; {desc}')
    r.sample = {'kind': 'ctkd', 'config': desc[:200], 'outcome': fin}
    r.sig('ctkd', case['lk_auth'], case['ikd'], case['rkd'])
    if not (fin[0] == fin[1] == 'paired'):
        return
    r.ev('paired_both')
    want = rc.link_key_to_ltk(lk, False)
    for i in (0, 1):
        k = rg.devices[i].keystore.all_keys.get(str(conns[i].peer_address))
        if not r.check(k is not None, 'keys/store-entry/ctkd', f'device {i} has no entry for its peer; {desc}'):
            continue
        if case['ikd'][0] & case['ikd'][1] & rs.KD_ENC and case['rkd'][0] & case['rkd'][1] & rs.KD_ENC:
            r.check(k.ltk is not None and k.ltk.value == want, 'keys/ltk-value-differs/ctkd',
                    f'device {i} derived {key_fields(k.ltk)}, h6(h6(LK, tmp2), brle) = {want.hex()}; {desc}')
        for name in ('ltk', 'irk', 'csrk', 'link_key'):
            key = getattr(k, name)
            if key is None:
                continue
            r.ev('authenticated_flag_checks')
            r.check(key.authenticated == case['lk_auth'],
                    'pairing/authenticated-flag/ctkd-' + ('unauthenticated-link-key' if not case['lk_auth'] else 'authenticated-link-key-not-flagged'),
                    f'device {i} stored {name} authenticated={key.authenticated} derived from / distributed under a link key '
                    f'with authenticated={case["lk_auth"]} (type {kt.name}); {desc}')
    for where, e in rg.exceptions:
        r.bad('pairing/exception-in-stack/ctkd', f'{where}: {e}; {desc}')


async def run_case(case, r: R):
    rs_selftest()
    if case['kind'] == 'ctkd':
        await ctkd_case(case, r)
    elif case['kind'] == 'bondhist':
        await bond_history_case(case, r)
    else:
        await le_case(case, r)


_st = False


def rs_selftest():
    """Harness self-check of the transcribed table (shape only) and the crypto reference."""
    global _st
    if _st:
        return
    rc.selftest()
    assert set(rs.TABLE_2_8) == set(IO) and all(set(row) == set(IO) for row in rs.TABLE_2_8.values())
    # 25 cells - 9 with a NoInputNoOutput side - the DisplayOnly/DisplayYesNo square (4 cells, of which
    # DisplayYesNo x DisplayYesNo is Numeric Comparison with SC) = 12 authenticated cells legacy, 13 SC
    n_leg = sum(1 for a in IO for b in IO if rs.table_cell(a, b, False)[0] != rs.JUST_WORKS)
    n_sc = sum(1 for a in IO for b in IO if rs.table_cell(a, b, True)[0] != rs.JUST_WORKS)
    assert (n_leg, n_sc) == (12, 13), (n_leg, n_sc)
    _st = True


LEVEL_TEXT = ('Two real bumble devices pair over the virtual LE link: all 5x5x{legacy,SC} IO-capability cells x 4 MITM request '
              'patterns exhaustively, ~1200 (quick) / ~30000 (thorough) sampled asymmetric configurations (SC/MITM/bonding per '
              'side, four key-distribution masks, who starts, user answers, passkey boundary values, seeded order-preserving '
              'delays), every negative answer and every single-bit in-flight corruption of Confirm/Random/DHKey Check/Public '
              'Key per association model, reconnection in same and swapped roles after bonding, OOB and SMP over BR/EDR; '
              'the whole table again with the link Peripheral as SMP initiator and via Security Request, with delegates '
              'that refuse what their IO capability cannot do; every answer of every model given late (seconds / loop '
              'turns) by either user; the caller of pair() giving up (wait_for timeout / cancellation) while a user still '
              'thinks, the exchange going on to success or refusal without it; further pairings on the same connection after a failed or a completed one; bond '
              'histories (2-3 bonds of different kinds, link roles kept or swapped, different key distributions) on one '
              'pair of stores (JsonKeyStore on a file, a merging serialising store, MemoryKeyStore, mixed) followed by a '
              'reconnection in both role assignments that must use one shared key, the latest bond\'s. '
              'Oracles: both-sides outcome agreement bounded in virtual time; no completion while the own user still looks '
              'at a prompt, no encrypted link and an unchanged key store after a refusal; no prompt the IO capability cannot '
              'serve; association model from delegate-call logs (by SMP role) and '
              'from recomputing the commitments on the wire with an independent AES/CMAC/P-256 toolbox against a table '
              'transcribed from Vol 3 Part H Table 2.8; key actually used for encryption vs the key the peripheral host would '
              'answer with; distributed values on the wire vs both stores; authenticated flag vs model used. Exploration, not proof.')
LEVEL_NOTE = ('Trusted: vlib/ref_smp.py (table, PDU parser, transcript analyser), vlib/ref_smpcrypto.py and vlib/ref_p256.py '
              '(self-tested against the published vectors), the rig taps, the virtual-time loop, and the simulated users in '
              'checks/c13.py. The virtual controller never asks the peripheral host for a key, so the harness asks the '
              "host's long_term_key_provider itself at the moment the central's LE Enable Encryption command is emitted. "
              'BR/EDR link encryption does not exist in the virtual controller: the CTKD cases set Connection.encryption and '
              'preload link keys like the repository test does.')
TECHNIQUE = ('runtime monitoring: cross-device relation oracles over event/delegate/HCI/L2CAP logs + independent '
             'recomputation of the SMP commitments and keys from the wire + in-flight bit-flip fault injection')
