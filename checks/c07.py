"""C07 — LE / enhanced credit-based channels: exact byte stream, credit discipline,
bounded progress.

Monitors
  ledger   vlib.ref_l2cap.coc_ledger over each bumble device's host-boundary log:
           a K-frame sent with an empty ledger, frame > peer MPS, SDU > peer MTU
  stream   bytes at each sink == bytes written (concatenation), both directions
  progress every transfer finishes within T_v virtual seconds while the sink consumes
Workloads
  b2b      bumble <-> bumble, independent MTU/MPS/credits per side, LE and enhanced
  rawsrv   raw peer *requests* a channel from a bumble server with peer-chosen CIDs
  rawcli   bumble requests a channel from a raw peer that answers with odd CIDs,
           zero initial credits, single-credit grants or bursts, or a Flow Control Credit
           frame in the same burst as its connection response
  len16    (profile of b2b / rawsrv / rawcli) every 16-bit length field on both sides of the
           signed/unsigned boundary: MTU 32767/32768/65535, MPS up to 65533, initial credits and
           grants of 32767/32768/65535, writes and SDUs of 32767..65535 and 65536+ bytes, both ways
  linkloss a saturating transfer cut by the loss of the link (either side, seeded moment), then
           reconnection, a new channel and a transfer that must complete; 1-3 times per case
"""
from __future__ import annotations

import asyncio
import random
import struct

from vlib import vloop
from vlib import ref_l2cap as rl
from vlib.result import R

ID = 'C07'
LEVEL = 'exploration'
RULE = ('seeded cases over (mode, mtu/mps/credits per side, write-size pattern, ACL geometry, delay '
        'schedule, link-loss moment and side); a case is non-trivial when at least one direction needed a credit replenishment '
        '(ledger touched zero or a grant was observed) or an SDU was segmented; distinct = distinct '
        'parameter tuple + write pattern')
ASSUMPTIONS = [
    'no frame loss on the virtual link',
    'writes may be coalesced into SDUs, so the stream clause compares concatenations',
    'an exception raised by write(b"") is tolerated as long as the stream stays exact',
]
MIN_EVENTS = {
    'quick': {'ledger_frames': 3000, 'ledger_credit_grants': 300, 'stream_checks': 150, 'raw_cases': 40, 'raw_multi_cases': 20,
              'max_credit_cases': 1, 'raw_multi_batch_cases': 15, 'last_words_checks': 100,
              'ledger_sdus_ge_32768': 30, 'raw_sdus_ge_32768_to_bumble': 10, 'linkloss_retransfers': 80,
              'linkloss_cuts_mid_transfer': 60, 'early_credit_cases': 12},
    'thorough': {'ledger_frames': 100000, 'ledger_credit_grants': 10000, 'stream_checks': 3000, 'raw_cases': 800,
                 'raw_multi_cases': 300, 'max_credit_cases': 4, 'raw_multi_batch_cases': 100, 'last_words_checks': 2000,
                 'ledger_sdus_ge_32768': 150, 'raw_sdus_ge_32768_to_bumble': 60, 'linkloss_retransfers': 600,
                 'linkloss_cuts_mid_transfer': 500, 'early_credit_cases': 80},
}
CASE_TIMEOUT = 300

MTUS = [23, 24, 100, 512, 2046, 65535]
MPSS = [23, 24, 100, 2048, 65533]
CREDITS = [1, 2, 3, 7, 256, 65535]


def plan(tier, seed):
    cases = []
    n_b2b = 360 if tier == 'quick' else 2400
    n_raw = 200 if tier == 'quick' else 1200
    for i in range(n_b2b):
        cases.append({'kind': 'b2b', 'seed': seed * 1000003 + i, 'tier': tier})
    for i in range(n_raw):
        cases.append({'kind': 'rawsrv' if i % 2 else 'rawcli', 'seed': seed * 1000003 + i, 'tier': tier})
    for i in range(120 if tier == 'quick' else 600):
        cases.append({'kind': 'rawmulti', 'seed': seed * 1000003 + i, 'tier': tier})
    for i in range(32 if tier == 'quick' else 160):
        cases.append({'kind': 'b2b', 'profile': 'len16', 'k': i, 'seed': seed * 1000003 + 70000 + i, 'tier': tier})
    for i in range(32 if tier == 'quick' else 200):
        cases.append({'kind': 'rawsrv' if i % 2 else 'rawcli', 'profile': 'len16', 'seed': seed * 1000003 + 71000 + i, 'tier': tier})
    for i in range(96 if tier == 'quick' else 800):
        cases.append({'kind': 'linkloss', 'seed': seed * 1000003 + 72000 + i, 'tier': tier})
    for i in range(1 if tier == 'quick' else 4):
        cases.append({'kind': 'maxcredits', 'seed': seed * 1000003 + i, 'tier': tier, '_timeout': 600})
    # the long case first, so that it overlaps with everything else
    cases.sort(key=lambda c: c['kind'] != 'maxcredits')
    return cases


def write_pattern(rng, mtu, mps, total_cap):
    pat = rng.choice(['small', 'mps-edge', 'mtu-edge', 'big', 'mixed', 'mixed'])
    sizes = []
    if pat == 'small':
        sizes = [rng.choice([1, 1, 2, 3, 5]) for _ in range(rng.randint(1, 30))]
    elif pat == 'mps-edge':
        sizes = [max(1, mps + d) for d in (-3, -2, -1, 0, 1)] * rng.randint(1, 2)
    elif pat == 'mtu-edge':
        sizes = [max(1, mtu + d) for d in (-1, 0, 1)] + [3 * mtu]
    elif pat == 'big':
        sizes = [rng.randint(1000, 20000) for _ in range(rng.randint(1, 5))]
    else:
        sizes = [rng.choice([0, 1, mps - 2, mps, mps + 1, mtu, mtu + 1, 2 * mtu + 1, rng.randint(1, 3000)])
                 for _ in range(rng.randint(2, 12))]
        sizes = [max(0, s) for s in sizes]
    out = []
    tot = 0
    for s in sizes:
        if tot + s > total_cap:
            s = max(0, total_cap - tot)
        out.append(s)
        tot += s
        if tot >= total_cap:
            break
    return pat, out


BIG_MTUS = [32767, 32768, 65535]
BIG_MPSS = [251, 2048, 32767, 32768, 65533]
BIG_CREDITS = [2, 64, 32767, 32768, 65535]
LEN16_SIZES = [32767, 32768, 32769, 65534, 65535]


def big_pattern(rng, total_cap):
    sizes = [rng.choice(LEN16_SIZES), rng.choice([7, 1, 300]), rng.choice(LEN16_SIZES + [rng.randint(32769, 65534)])]
    if rng.random() < 0.5:
        sizes.append(rng.choice([65536, 70000]))       # one write that needs two SDUs even with the largest MTU
    rng.shuffle(sizes)
    out, tot = [], 0
    for s in sizes:
        if tot + s > total_cap:
            break
        out.append(s)
        tot += s
    return 'len16', out


_DATA_CACHE = {}


def make_data(tag: int, start: int, n: int) -> bytes:
    if n > 4096:
        # long runs: position-dependent with a period that is no power of two, built by slicing
        key = tag & 0xFF
        base = _DATA_CACHE.get(key)
        if base is None:
            base = _DATA_CACHE[key] = bytes(((key * 131 + i * 7 + (i // 251) * 13) & 0xFF) for i in range(251 * 256))
        out = bytearray()
        pos = start % len(base)
        while len(out) < n:
            out += base[pos:pos + n - len(out)]
            pos = 0
        return bytes(out)
    return _make_data_small(tag, start, n)


def _make_data_small(tag: int, start: int, n: int) -> bytes:
    # position-dependent bytes so that loss, duplication or reordering anywhere shows
    return bytes(((tag * 131 + (start + i) * 7 + ((start + i) >> 8) * 13) & 0xFF) for i in range(n))


async def b2b(case, r: R):
    from bumble import l2cap
    from vlib import rig as vrig

    rng = random.Random(case['seed'])
    vrig.seed_entropy(case['seed'])
    cap = 6000 if case['tier'] == 'quick' else rng.choice([6000, 30000, 100000])
    mode = rng.choice(['le', 'le', 'enh1', 'enh3'])
    spec_c = dict(mtu=rng.choice(MTUS), mps=rng.choice(MPSS), max_credits=rng.choice(CREDITS))
    spec_s = dict(mtu=rng.choice(MTUS), mps=rng.choice(MPSS), max_credits=rng.choice(CREDITS))
    lens = [rng.choice([27, 27, 64, 251]) for _ in range(2)]
    big = case.get('profile') == 'len16'
    if big:
        # every 16-bit length field of the channel on both sides of the signed/unsigned boundary:
        # MTU, MPS, credits in the request AND in the response, SDU length, K-frame length
        cap = 150000
        mode = rng.choice(['le', 'le', 'enh1'])
        spec_c = dict(mtu=rng.choice(BIG_MTUS), mps=rng.choice(BIG_MPSS), max_credits=rng.choice(BIG_CREDITS))
        spec_s = dict(mtu=rng.choice(BIG_MTUS), mps=rng.choice(BIG_MPSS), max_credits=rng.choice(BIG_CREDITS))
        if case.get('k', 0) % 2 == 0:
            spec_s['mtu'] = rng.choice([32768, 65535])     # at least the server accepts SDUs >= 32768
        lens = [rng.choice([64, 251, 251]) for _ in range(2)]
    nums = [rng.choice([1, 2, 4, 64]) for _ in range(2)]
    delay = rng.choice([0, 0, 1, 3, 7])
    rg = vrig.Rig(2, seed=case['seed'], max_delay=delay, le_acl_len=lens, le_acl_num=nums)
    await rg.power_on()
    cc, pc = await rg.connect_le(0, 1)
    psm = rng.choice([0x80, 0x25, 0xFF])
    server_channels = []
    rg.devices[1].create_l2cap_server(
        spec=l2cap.LeCreditBasedChannelSpec(psm=psm, **spec_s), handler=server_channels.append)
    cspec = l2cap.LeCreditBasedChannelSpec(psm=psm, **spec_c)
    try:
        if mode == 'le':
            chans = [await vloop.vwait(cc.create_l2cap_channel(spec=cspec))]
        else:
            count = 1 if mode == 'enh1' else 3
            chans = await vloop.vwait(
                rg.devices[0].l2cap_channel_manager.create_enhanced_credit_based_channels(cc, cspec, count))
    except vloop.Hang:
        r.bad(f'coc/connect-hang/{mode}', f'channel creation pending at T_v; spec_c={spec_c} spec_s={spec_s}')
        return
    await rg.quiesce()
    r.ev('oracle_evals')
    if big:
        mode = mode + '/len16'
        r.ev('len16_cases')
    if len(server_channels) != len(chans):
        r.bad(f'coc/connect-mismatch/{mode}', f'{len(chans)} client channels, {len(server_channels)} server channels')
        return
    # pair the ends by CIDs
    pairs = []
    for ch in chans:
        peer = [s for s in server_channels if s.source_cid == ch.destination_cid]
        if len(peer) != 1:
            r.bad(f'coc/connect-mismatch/{mode}', f'no unique server end for client channel {ch}')
            return
        pairs.append((ch, peer[0]))
    plans = []
    nontrivial = False
    for idx, (ch, sv) in enumerate(pairs):
        got_s, got_c = bytearray(), bytearray()
        sv.sink = got_s.extend
        ch.sink = got_c.extend
        if big:
            pat_a, sizes_a = big_pattern(rng, cap)
            pat_b, sizes_b = big_pattern(rng, cap) if rng.random() < 0.7 else ('none', [])
        else:
            pat_a, sizes_a = write_pattern(rng, spec_s['mtu'], spec_s['mps'], cap)
            pat_b, sizes_b = write_pattern(rng, spec_c['mtu'], spec_c['mps'], cap) if rng.random() < 0.7 else ('none', [])
        plans.append((ch, sv, got_s, got_c, sizes_a, sizes_b, pat_a, pat_b))
    # issue writes, interleaved across channels and directions
    steps = []
    for pi, p in enumerate(plans):
        steps += [(pi, 'c2s', k) for k in range(len(p[4]))] + [(pi, 's2c', k) for k in range(len(p[5]))]
    # keep per (channel, direction) order, interleave otherwise
    queues = {}
    for s in steps:
        queues.setdefault((s[0], s[1]), []).append(s)
    sent = {(pi, d): bytearray() for pi in range(len(plans)) for d in ('c2s', 's2c')}
    while queues:
        key = rng.choice(sorted(queues))
        pi, d, k = queues[key].pop(0)
        if not queues[key]:
            del queues[key]
        ch, sv, got_s, got_c, sizes_a, sizes_b, _pa, _pb = plans[pi]
        size = (sizes_a if d == 'c2s' else sizes_b)[k]
        data = make_data(pi * 2 + (d == 's2c'), len(sent[(pi, d)]), size)
        try:
            (ch if d == 'c2s' else sv).write(data)
            sent[(pi, d)] += data
            r.ev('writes')
        except AssertionError:
            if size == 0:
                r.ev('empty_write_raised')
            else:
                raise
        if rng.random() < 0.4:
            for _ in range(rng.randint(1, 4)):
                await asyncio.sleep(0)

    async def all_received():
        while True:
            if all(len(p[2]) >= len(sent[(pi, 'c2s')]) and len(p[3]) >= len(sent[(pi, 's2c')])
                   for pi, p in enumerate(plans)):
                return
            await asyncio.sleep(0.01)

    try:
        await vloop.vwait(all_received())
    except vloop.Hang:
        for pi, p in enumerate(plans):
            for d, got in (('c2s', p[2]), ('s2c', p[3])):
                if len(got) < len(sent[(pi, d)]):
                    r.bad(f'coc/progress/stalled/{mode}',
                          f'{d}: {len(got)}/{len(sent[(pi, d)])} bytes after T_v; client={spec_c} server={spec_s} '
                          f'credits tx={p[0].credits if d == "c2s" else p[1].credits} mode={mode} '
                          f'sizes={p[4] if d == "c2s" else p[5]} seed={case["seed"]}')
    await rg.quiesce()
    for pi, p in enumerate(plans):
        for d, got in (('c2s', p[2]), ('s2c', p[3])):
            want = bytes(sent[(pi, d)])
            r.ev('stream_checks')
            r.ev('oracle_evals')
            if bytes(got) != want and len(got) >= len(want):
                r.bad(f'coc/stream/corrupt/{mode}',
                      f'{d}: sink has {len(got)} bytes, written {len(want)}; first difference at '
                      f'{next((i for i in range(min(len(got), len(want))) if got[i] != want[i]), min(len(got), len(want)))}; '
                      f'client={spec_c} server={spec_s}')
            elif bytes(got) != want[:len(got)]:
                r.bad(f'coc/stream/corrupt/{mode}', f'{d}: received prefix differs from what was written')
        # drain() of a quiet channel must finish
        for end in (p[0], p[1]):
            try:
                await vloop.vwait(end.drain(), 60)
            except vloop.Hang:
                r.bad(f'coc/drain-hang/{mode}', f'drain() pending with everything delivered; credits={end.credits}')
    # last words: write, wait for drain(), disconnect — the usual way to finish a transfer. What was
    # written before the drain() returned must all reach the peer's sink.
    for pi, p in enumerate(plans):
        if r.violations:
            break
        d = rng.choice(['c2s', 's2c'])
        end, got, peer_spec = (p[0], p[2], spec_s) if d == 'c2s' else (p[1], p[3], spec_c)
        size = min(peer_spec['mtu'], rng.choice([1, 23, 100, 700, 3000]))
        data = make_data(pi * 2 + (d == 's2c'), len(sent[(pi, d)]), size)
        end.write(data)
        sent[(pi, d)] += data
        try:
            await vloop.vwait(end.drain())
            await vloop.vwait(end.disconnect())
        except vloop.Hang:
            r.bad(f'coc/drain-hang/{mode}/last-words', f'write({size}); drain(); disconnect() pending at T_v; '
                                                       f'client={spec_c} server={spec_s}')
            continue
        await rg.quiesce()
        r.ev('last_words_checks')
        r.ev('oracle_evals')
        if bytes(got) != bytes(sent[(pi, d)]):
            r.bad(f'coc/stream/lost/after-drain-and-disconnect/{mode}',
                  f'{d}: write({size}); await drain(); await disconnect(): the peer sink has {len(got)} of '
                  f'{len(sent[(pi, d)])} bytes; client={spec_c} server={spec_s}')
    for dev in (0, 1):
        txs = rl.coc_ledger(rg.boundary_log, dev, r, tag='/len16' if big else '')
        for t in txs:
            if t.zero_credit_moments or t.sdus and t.frames > t.sdus:
                nontrivial = True
    for where, e in rg.exceptions:
        r.bad('coc/exception-in-stack', f'{where}: {e}')
    if nontrivial:
        r.sig('b2b', mode, tuple(sorted(spec_c.items())), tuple(sorted(spec_s.items())),
              tuple(tuple(p[4]) for p in plans), tuple(tuple(p[5]) for p in plans))
    r.sched.add(rg.schedule_signature)
    r.evals()
    r.sample = {'kind': 'b2b', 'mode': mode, 'client': spec_c, 'server': spec_s, 'acl_len': lens,
                'acl_num': nums, 'delay': delay, 'writes_c2s': plans[0][4][:12], 'writes_s2c': plans[0][5][:12]}


# -----------------------------------------------------------------------------
# raw peer variants
# -----------------------------------------------------------------------------
class RawCoc:
    """Harness-side endpoint of one credit-based channel spoken by hand."""

    def __init__(self, raw, handle, my_cid, my_mtu, my_mps):
        self.raw = raw
        self.handle = handle
        self.my_cid = my_cid
        self.my_mtu = my_mtu
        self.my_mps = my_mps
        self.peer_cid = 0
        self.peer_mtu = 0
        self.peer_mps = 0
        self.tx_credits = 0     # what I may send
        self.granted = 0        # what bumble may still send to me (my view)
        self.rx = bytearray()   # reassembled SDU bytes
        self.rx_sdus = []
        self._sdu = None
        self._left = 0
        self.frames_in = 0
        self.ident = 0x40

    def next_ident(self):
        self.ident = (self.ident % 255) + 1
        return self.ident

    def grant(self, n):
        self.granted += n
        self.raw.send(self.handle, rl.LE_SIG,
                      rl.sig(rl.CODE_LE_CREDIT, self.next_ident(), struct.pack('<HH', self.my_cid, n)))

    def on_frame(self, payload):
        self.frames_in += 1
        self.granted -= 1
        if self._sdu is None:
            ln = struct.unpack_from('<H', payload, 0)[0]
            self._sdu = bytearray(payload[2:])
            self._left = ln - len(self._sdu)
        else:
            self._sdu += payload
            self._left -= len(payload)
        if self._left <= 0:
            self.rx += self._sdu
            self.rx_sdus.append(len(self._sdu))
            self._sdu = None

    def send_sdu(self, data: bytes):
        """Returns the frames for one SDU (respecting peer MPS)."""
        sdu = struct.pack('<H', len(data)) + data
        return [sdu[i:i + self.peer_mps] for i in range(0, len(sdu), self.peer_mps)]


async def raw_case(case, r: R):
    from bumble import l2cap
    from vlib import rig as vrig

    rng = random.Random(case['seed'])
    vrig.seed_entropy(case['seed'])
    kind = case['kind']
    enhanced = rng.random() < 0.4
    rg = vrig.Rig(2, seed=case['seed'], max_delay=rng.choice([0, 1, 4]),
                  le_acl_len=[rng.choice([27, 64, 251]), rng.choice([27, 64, 251])])
    await rg.power_on()
    raw_is_central = rng.random() < 0.5
    if raw_is_central:
        rc, bc = await rg.connect_le(1, 0)   # device 1 (raw) central, device 0 bumble peripheral
    else:
        bc, rc = await rg.connect_le(0, 1)
    await rg.quiesce()
    raw = vrig.RawPeer(rg, 1)
    raw.take()
    psm = 0x81
    my_cid = rng.choice([0x0055, 0x0040, 0x007F, 0x0041, 0x0063])
    my_mtu = rng.choice([23, 64, 512, 2046])
    my_mps = rng.choice([23, 24, 64, 251, 2048])
    bspec = dict(mtu=rng.choice([23, 64, 512, 2046]), mps=rng.choice([23, 24, 64, 251, 2048]),
                 max_credits=rng.choice([1, 2, 3, 8, 64]))
    initial_grant = rng.choice([0, 0, 1, 2, 5])
    grant_style = rng.choice(['one', 'burst', 'exact'])
    # decisions added later draw from their own generator, so that the older cases stay what they were
    rng2 = random.Random(case['seed'] ^ 0x5EED07)
    big = case.get('profile') == 'len16'
    if big:
        my_mtu = rng2.choice(BIG_MTUS)
        my_mps = rng2.choice([251, 32767, 32768, 65533])
        bspec = dict(mtu=rng2.choice(BIG_MTUS), mps=rng2.choice([2048, 32767, 32768, 65533]),
                     max_credits=rng2.choice([8, 32767, 32768, 65535]))
        initial_grant = rng2.choice([0, 1, 32767, 32768, 65535])
        grant_style = rng2.choice(['one', 'burst', 'huge', 'huge'])
    # a Flow Control Credit frame that follows the connection RESPONSE at once (same burst)
    early = rng2.choice([0, 1, 3, 40]) if kind == 'rawcli' and not big and (initial_grant == 0 or rng2.random() < 0.3) else 0
    ep = RawCoc(raw, rc.handle, my_cid, my_mtu, my_mps)
    bumble_ch = None
    tag = ('/enhanced' if enhanced else '/le') + ('/len16' if big else '')
    if early:
        tag += '/credits-right-after-response'

    if kind == 'rawsrv':
        # bumble is the server, the raw peer requests
        accepted = []
        rg.devices[0].create_l2cap_server(spec=l2cap.LeCreditBasedChannelSpec(psm=psm, **bspec),
                                          handler=accepted.append)
        ident = ep.next_ident()
        if enhanced:
            req = rl.sig(rl.CODE_ECOC_REQ, ident,
                         struct.pack('<HHHHH', psm, max(my_mtu, 64), max(my_mps, 64), initial_grant, my_cid))
            ep.my_mtu, ep.my_mps = max(my_mtu, 64), max(my_mps, 64)
        else:
            req = rl.sig(rl.CODE_LE_COC_REQ, ident, struct.pack('<HHHHH', psm, my_cid, my_mtu, my_mps, initial_grant))
        ep.granted = initial_grant
        raw.send(rc.handle, rl.LE_SIG, req)
        rsp = await raw.wait_for(lambda h, cid, p: cid == rl.LE_SIG and p[0] in (rl.CODE_LE_COC_RSP, rl.CODE_ECOC_RSP))
        r.ev('oracle_evals')
        if rsp is None:
            r.bad('coc/raw/no-connection-response' + tag, 'bumble server never answered the connection request')
            return
        data = rsp[2][4:]
        if enhanced:
            mtu, mps, cr, result = struct.unpack_from('<HHHH', data, 0)
            dcid = struct.unpack_from('<H', data, 8)[0] if len(data) >= 10 else 0
        else:
            dcid, mtu, mps, cr, result = struct.unpack_from('<HHHHH', data, 0)
        if result != 0 or not accepted:
            r.bad('coc/raw/refused' + tag, f'server refused a valid request: result={result}')
            return
        ep.peer_cid, ep.peer_mtu, ep.peer_mps, ep.tx_credits = dcid, mtu, mps, cr
        bumble_ch = accepted[0]
    else:
        # bumble requests, the raw peer accepts with its own odd CID
        async def acceptor():
            req = await raw.wait_for(lambda h, cid, p: cid == rl.LE_SIG and p[0] in (rl.CODE_LE_COC_REQ, rl.CODE_ECOC_REQ))
            if req is None:
                return None
            code, ident = req[2][0], req[2][1]
            data = req[2][4:]
            if code == rl.CODE_LE_COC_REQ:
                _psm, scid, mtu, mps, cr = struct.unpack_from('<HHHHH', data, 0)
                raw.send(rc.handle, rl.LE_SIG, rl.sig(rl.CODE_LE_COC_RSP, ident,
                         struct.pack('<HHHHH', my_cid, my_mtu, my_mps, initial_grant, 0)))
            else:
                _psm, mtu, mps, cr = struct.unpack_from('<HHHH', data, 0)
                scid = struct.unpack_from('<H', data, 8)[0]
                ep.my_mtu, ep.my_mps = max(my_mtu, 64), max(my_mps, 64)
                raw.send(rc.handle, rl.LE_SIG, rl.sig(rl.CODE_ECOC_RSP, ident,
                         struct.pack('<HHHHH', ep.my_mtu, ep.my_mps, initial_grant, 0, my_cid)))
            ep.peer_cid, ep.peer_mtu, ep.peer_mps, ep.tx_credits = scid, mtu, mps, cr
            ep.granted = initial_grant
            if early:
                ep.grant(early)
                r.ev('early_credit_cases')
            return True

        acc = asyncio.ensure_future(acceptor())
        cspec = l2cap.LeCreditBasedChannelSpec(psm=psm, **bspec)
        try:
            if enhanced:
                chans = await vloop.vwait(
                    rg.devices[0].l2cap_channel_manager.create_enhanced_credit_based_channels(bc, cspec, 1))
                bumble_ch = chans[0]
            else:
                bumble_ch = await vloop.vwait(bc.create_l2cap_channel(spec=cspec))
        except vloop.Hang:
            r.bad('coc/raw/connect-hang' + tag, 'create channel pending at T_v against a raw acceptor')
            return
        await acc
    r.ev('raw_cases')
    got_b = bytearray()
    bumble_ch.sink = got_b.extend

    # frames from bumble to the raw endpoint
    def handler(h, cid, p):
        if cid == ep.my_cid:
            ep.on_frame(p)
        elif cid == rl.LE_SIG and p[0] == rl.CODE_LE_CREDIT:
            c, n = struct.unpack_from('<HH', p, 4)
            if c == ep.peer_cid:
                ep.tx_credits += n
                r.ev('raw_credits_from_bumble')
            else:
                r.ev('raw_credits_unknown_cid')

    raw.handlers.append(handler)

    # 1) bumble -> raw: bumble writes; raw grants credits in its own style
    total = rng.choice([1, 50, 300, 2000])
    if big:
        total = rng2.choice(LEN16_SIZES + [70000])
        r.ev('len16_cases')
    data_b2r = make_data(3, 0, total)
    off = 0
    while off < total:
        n = rng.choice([1, 7, 100, total]) if not big else total
        bumble_ch.write(data_b2r[off:off + n])
        off += n
    turns = 0
    while len(ep.rx) < total and turns < 20000:
        await rg.quiesce(extra_turns=5)
        turns += 1
        if len(ep.rx) >= total:
            break
        if ep.granted <= 0:
            g = (1 if grant_style == 'one' else rng.randint(2, 9) if grant_style == 'burst' else
                 rng2.choice([32768, 65535]) if grant_style == 'huge' else 3)
            ep.grant(g)
            r.ev('raw_grants')
        else:
            # credits outstanding yet nothing arrives: stalled sender
            break
    r.ev('stream_checks')
    r.ev('oracle_evals')
    if bytes(ep.rx) != data_b2r:
        if len(ep.rx) < total:
            r.bad('coc/progress/stalled/raw-peer-cid' + tag + ('/acceptor' if kind == 'rawsrv' else '/requester'),
                  f'bumble sent {len(ep.rx)}/{total} bytes although it holds {ep.granted} credits for cid '
                  f'{ep.my_cid:#x} (its own cid {ep.peer_cid:#x}); bumble credits={bumble_ch.credits}')
        else:
            r.bad('coc/stream/corrupt/raw' + tag, f'raw endpoint reassembled {len(ep.rx)} bytes, written {total}')
    for ln in ep.rx_sdus:
        r.ev('oracle_evals')
        if ln > ep.my_mtu:
            r.bad('coc/mtu-exceeded/raw' + tag, f'SDU of {ln} > my MTU {ep.my_mtu}')

    # 2) raw -> bumble: obey bumble's credits exactly; bumble must replenish
    total2 = rng.choice([1, 40, 500, 3000])
    if big:
        total2 = rng2.choice(LEN16_SIZES + [70000])
    data_r2b = make_data(5, 0, total2)
    frames = []
    off = 0
    while off < total2:
        n = min(ep.peer_mtu, rng.choice([1, 20, ep.peer_mtu, ep.peer_mtu]))
        if big:
            n = min(ep.peer_mtu, rng2.choice(LEN16_SIZES))
            if n >= 32768:
                r.ev('raw_sdus_ge_32768_to_bumble')
        frames += ep.send_sdu(data_r2b[off:off + n])
        off += n
    fi = 0
    idle = 0
    while fi < len(frames) and idle < 3:
        if ep.tx_credits > 0:
            raw.send(rc.handle, ep.peer_cid, frames[fi])
            ep.tx_credits -= 1
            fi += 1
            idle = 0
            if rng.random() < 0.3:
                await asyncio.sleep(0)
        else:
            await rg.quiesce(extra_turns=5)
            if ep.tx_credits <= 0:
                idle += 1
    await rg.quiesce()
    r.ev('stream_checks')
    r.ev('oracle_evals')
    if fi < len(frames):
        r.bad('coc/progress/no-credits-returned' + tag,
              f'bumble receiver stopped returning credits after {fi}/{len(frames)} frames '
              f'(bumble spec {bspec}, peer_credits={bumble_ch.peer_credits})')
    elif bytes(got_b) != data_r2b:
        r.bad('coc/stream/corrupt/raw-to-bumble' + tag, f'bumble sink has {len(got_b)} bytes, sent {total2}')
    rl.coc_ledger(rg.boundary_log, 0, r, tag='/raw' + ('/len16' if big else ''))
    for where, e in rg.exceptions:
        r.bad('coc/exception-in-stack', f'{where}: {e}')
    r.sig(kind, enhanced, my_cid, my_mtu, my_mps, tuple(sorted(bspec.items())), initial_grant, grant_style, total, total2, early)
    r.sched.add(rg.schedule_signature)
    r.evals()
    r.sample = {'kind': kind, 'enhanced': enhanced, 'raw_cid': my_cid, 'raw_mtu': ep.my_mtu, 'raw_mps': ep.my_mps,
                'bumble_spec': bspec, 'initial_grant': initial_grant, 'grant_style': grant_style,
                'credits_right_after_response': early, 'bytes_b2r': total, 'bytes_r2b': total2, 'frames_from_bumble': ep.frames_in}


async def raw_multi(case, r: R):
    """Raw peer opens several channels whose CIDs are a permutation of the ones bumble will
    allocate (so every table keyed by the wrong end's CID hits a *different live channel*),
    some are closed by either side, then every survivor carries data both ways."""
    from bumble import l2cap
    from vlib import rig as vrig

    rng = random.Random(case['seed'])
    vrig.seed_entropy(case['seed'])
    rg = vrig.Rig(2, seed=case['seed'], max_delay=rng.choice([0, 1, 3]), le_acl_len=[251, 251])
    await rg.power_on()
    bc, rc = await rg.connect_le(0, 1)
    await rg.quiesce()
    raw = vrig.RawPeer(rg, 1)
    raw.take()
    psm = 0x83
    n = rng.choice([2, 2, 3, 4])
    cids = [0x40 + i for i in range(n)]
    perm = cids[:]
    while perm == cids:
        rng.shuffle(perm)
    bspec = dict(mtu=rng.choice([64, 512]), mps=rng.choice([23, 64, 251]), max_credits=rng.choice([1, 2, 4]))
    accepted = []
    rg.devices[0].create_l2cap_server(spec=l2cap.LeCreditBasedChannelSpec(psm=psm, **bspec), handler=accepted.append)
    eps = []
    ident = [0x20]

    def nid():
        ident[0] = ident[0] % 255 + 1
        return ident[0]

    # enhanced variant: ONE Credit Based Connection Request carrying all CIDs, in an order that is neither
    # ascending nor (often) the iteration order of a set of them; the response lists bumble's CIDs positionally
    batch = rng.random() < 0.4
    if batch:
        if rng.random() < 0.6:
            perm = rng.sample(range(0x40, 0x80), n)
        for my_cid in perm:
            eps.append(RawCoc(raw, rc.handle, my_cid, 256, 64))
        raw.send(rc.handle, rl.LE_SIG, rl.sig(rl.CODE_ECOC_REQ, nid(),
                                              struct.pack('<HHHH', psm, 256, 64, 0) + b''.join(struct.pack('<H', c) for c in perm)))
        rsp = await raw.wait_for(lambda h, cid, p: cid == rl.LE_SIG and p[0] == rl.CODE_ECOC_RSP)
        r.ev('oracle_evals')
        if rsp is None:
            r.bad('coc/raw/no-connection-response/enhanced', 'no response to a credit based connection request')
            return
        body = rsp[2][4:]
        mtu, mps, cr, result = struct.unpack_from('<HHHH', body, 0)
        dcids = [struct.unpack_from('<H', body, 8 + 2 * i)[0] for i in range((len(body) - 8) // 2)]
        if result != 0 or len(dcids) != n or 0 in dcids or len(set(dcids)) != n:
            r.bad('coc/raw/refused/enhanced/multi', f'request for cids {perm} answered result {result} dcids {dcids}')
            return
        for ep, dcid in zip(eps, dcids):
            ep.peer_cid, ep.peer_mtu, ep.peer_mps, ep.tx_credits = dcid, mtu, mps, cr
        r.ev('raw_multi_batch_cases')
        if list(set(perm)) != perm:
            r.ev('raw_multi_batch_list_order_differs_from_set_order')
    for my_cid in ([] if batch else perm):
        ep = RawCoc(raw, rc.handle, my_cid, 256, 64)
        raw.send(rc.handle, rl.LE_SIG, rl.sig(rl.CODE_LE_COC_REQ, nid(), struct.pack('<HHHHH', psm, my_cid, 256, 64, 0)))
        rsp = await raw.wait_for(lambda h, cid, p: cid == rl.LE_SIG and p[0] == rl.CODE_LE_COC_RSP)
        if rsp is None:
            r.bad('coc/raw/no-connection-response/le', 'no response to a connection request')
            return
        dcid, mtu, mps, cr, result = struct.unpack_from('<HHHHH', rsp[2][4:], 0)
        if result != 0:
            r.bad('coc/raw/refused/le/multi', f'request with scid {my_cid:#x} refused: result {result}')
            return
        ep.peer_cid, ep.peer_mtu, ep.peer_mps, ep.tx_credits = dcid, mtu, mps, cr
        eps.append(ep)
    r.ev('raw_cases')
    r.ev('raw_multi_cases')
    by_cid = {ep.my_cid: ep for ep in eps}
    chans = {}
    for ch in accepted:
        chans[ch.destination_cid] = ch
        ch.sink = (lambda ch_: (lambda d: by_cid[ch_.destination_cid].__dict__.setdefault('got_b', bytearray()).extend(d)))(ch)
    crossed = sum(1 for ep in eps if ep.my_cid != ep.peer_cid)
    disc_pending = {}

    def handler(h, cid, p):
        if cid in by_cid and cid >= 0x40:
            by_cid[cid].on_frame(p)
        elif cid == rl.LE_SIG:
            code, idt = p[0], p[1]
            if code == rl.CODE_LE_CREDIT:
                c, k = struct.unpack_from('<HH', p, 4)
                for ep in eps:
                    if ep.peer_cid == c:
                        ep.tx_credits += k
            elif code == rl.CODE_DISC_REQ:
                dcid, scid = struct.unpack_from('<HH', p, 4)
                raw.send(rc.handle, rl.LE_SIG, rl.sig(rl.CODE_DISC_RSP, idt, struct.pack('<HH', dcid, scid)))
                if dcid in by_cid:
                    by_cid[dcid].closed = True
            elif code == rl.CODE_DISC_RSP:
                dcid, scid = struct.unpack_from('<HH', p, 4)
                if scid in by_cid:
                    by_cid[scid].closed = True

    raw.handlers.append(handler)
    # close a strict subset
    to_close = rng.sample(eps, rng.randint(1, n - 1))
    for ep in to_close:
        how = rng.choice(['raw', 'bumble'])
        if how == 'raw':
            raw.send(rc.handle, rl.LE_SIG, rl.sig(rl.CODE_DISC_REQ, nid(), struct.pack('<HH', ep.peer_cid, ep.my_cid)))
        else:
            try:
                await vloop.vwait(chans[ep.my_cid].disconnect(), 60)
            except vloop.Hang:
                r.bad('coc/raw/disconnect-hang/multi', 'disconnect() pending although the peer answered')
        await rg.quiesce()
    survivors = [ep for ep in eps if ep not in to_close]
    for ep in survivors:
        ch = chans[ep.my_cid]
        total = rng.choice([50, 300, 1200])
        data = make_data(ep.my_cid, 0, total)
        ch.write(data)
        turns = 0
        while len(ep.rx) < total and turns < 5000:
            await rg.quiesce(extra_turns=5)
            turns += 1
            if len(ep.rx) >= total:
                break
            if ep.granted <= 0:
                ep.grant(rng.choice([1, 2, 5]))
                r.ev('raw_grants')
            else:
                break
        r.ev('stream_checks')
        r.ev('oracle_evals')
        if bytes(ep.rx) != data:
            if len(ep.rx) < total:
                r.bad('coc/progress/stalled/raw-peer-cid/le/acceptor/after-sibling-close',
                      f'after closing sibling channels, bumble sent {len(ep.rx)}/{total} bytes on the channel to cid '
                      f'{ep.my_cid:#x} (its own {ep.peer_cid:#x}) although it holds {ep.granted} credits; cids raw={perm}')
            else:
                r.bad('coc/stream/corrupt/raw/le/multi', f'{len(ep.rx)} bytes reassembled, {total} written')
        # raw -> bumble
        data2 = make_data(ep.my_cid + 1, 0, rng.choice([30, 400]))
        frames = []
        off = 0
        while off < len(data2):
            k = min(ep.peer_mtu, 200)
            frames += ep.send_sdu(data2[off:off + k])
            off += k
        fi, idle = 0, 0
        while fi < len(frames) and idle < 3:
            if ep.tx_credits > 0:
                raw.send(rc.handle, ep.peer_cid, frames[fi])
                ep.tx_credits -= 1
                fi += 1
                idle = 0
            else:
                await rg.quiesce(extra_turns=5)
                if ep.tx_credits <= 0:
                    idle += 1
        await rg.quiesce()
        r.ev('stream_checks')
        r.ev('oracle_evals')
        got = bytes(getattr(ep, 'got_b', b''))
        if fi < len(frames):
            r.bad('coc/progress/no-credits-returned/le/multi', f'bumble stopped returning credits after {fi}/{len(frames)} frames')
        elif got != data2:
            r.bad('coc/stream/corrupt/raw-to-bumble/le/multi', f'bumble sink of the channel to cid {ep.my_cid:#x} has {len(got)} bytes, '
                                                               f'sent {len(data2)} (delivered to a sibling channel?)')
    rl.coc_ledger(rg.boundary_log, 0, r, tag='/raw')
    for where, e in rg.exceptions:
        r.bad('coc/exception-in-stack', f'{where}: {e}')
    r.sig('rawmulti', tuple(perm), tuple(ep.my_cid for ep in to_close), tuple(sorted(bspec.items())))
    r.sched.add(rg.schedule_signature)
    r.evals()
    r.sample = {'kind': 'rawmulti', 'raw_cids': perm, 'closed': [ep.my_cid for ep in to_close], 'bumble_spec': bspec}


async def link_loss(case, r: R):
    """A transfer that saturates the controller buffers is interrupted by the loss of the link (either side
    terminates it, at a seeded moment, packets in flight); the devices reconnect, a NEW channel is opened and a
    new transfer must complete, exactly - whatever the lost link left behind. Repeated 1-3 times."""
    from bumble import l2cap
    from vlib import rig as vrig

    rng = random.Random(case['seed'])
    vrig.seed_entropy(case['seed'])
    nums = [rng.choice([1, 2, 4, 8, 64]) for _ in range(2)]
    lens = [rng.choice([27, 64, 251]) for _ in range(2)]
    delay = rng.choice([0, 1, 3, 7])
    mode = rng.choice(['le', 'le', 'enh1'])
    spec_c = dict(mtu=rng.choice([64, 512, 2046]), mps=rng.choice([23, 64, 251, 1024]), max_credits=rng.choice([2, 8, 64, 256]))
    spec_s = dict(mtu=rng.choice([64, 512, 2046]), mps=rng.choice([23, 64, 251, 1024]), max_credits=rng.choice([2, 8, 64, 256]))
    rg = vrig.Rig(2, seed=case['seed'], max_delay=delay, le_acl_len=lens, le_acl_num=nums)
    await rg.power_on()
    psm = 0x87
    server_channels = []
    rg.devices[1].create_l2cap_server(spec=l2cap.LeCreditBasedChannelSpec(psm=psm, **spec_s), handler=server_channels.append)
    cspec = l2cap.LeCreditBasedChannelSpec(psm=psm, **spec_c)
    rounds = rng.choice([1, 2, 2, 3])
    hist = []
    seg_start = 0
    for rnd in range(rounds + 1):
        after = '/after-link-loss' if rnd else ''
        try:
            cc, pc = await rg.connect_le(0, 1)
        except vloop.Hang:
            r.bad(f'coc/progress/stalled{after}/reconnect', f'LE connection pending at T_v; history={hist}')
            return
        n0 = len(server_channels)
        try:
            if mode == 'le':
                ch = await vloop.vwait(cc.create_l2cap_channel(spec=cspec))
            else:
                ch = (await vloop.vwait(
                    rg.devices[0].l2cap_channel_manager.create_enhanced_credit_based_channels(cc, cspec, 1)))[0]
        except vloop.Hang:
            r.bad(f'coc/progress/stalled{after}/open/{mode}',
                  f'channel creation on a fresh connection pending at T_v; history={hist} le_acl_num={nums} delay={delay}')
            return
        await rg.quiesce()
        r.ev('oracle_evals')
        if len(server_channels) != n0 + 1:
            r.bad(f'coc/connect-mismatch/{mode}{after}', f'{len(server_channels) - n0} server ends for one client channel')
            return
        sv = server_channels[-1]
        got_s, got_c = bytearray(), bytearray()
        sv.sink = got_s.extend
        ch.sink = got_c.extend
        # 1) a transfer that must complete (both directions)
        sent_c = make_data(rnd * 4, 0, rng.choice([1, 300, 2500, 6000]))
        sent_s = make_data(rnd * 4 + 1, 0, rng.choice([0, 300, 2500]))
        ch.write(sent_c)
        if sent_s:
            sv.write(sent_s)

        async def all_received():
            while len(got_s) < len(sent_c) or len(got_c) < len(sent_s):
                await asyncio.sleep(0.01)
        try:
            await vloop.vwait(all_received())
        except vloop.Hang:
            r.bad(f'coc/progress/stalled{after}/transfer/{mode}',
                  f'c2s {len(got_s)}/{len(sent_c)} s2c {len(got_c)}/{len(sent_s)} bytes at T_v on a new channel; '
                  f'history={hist} le_acl_num={nums} delay={delay} client={spec_c} server={spec_s}')
            return
        await rg.quiesce()
        r.ev('stream_checks', 2)
        r.ev('oracle_evals', 2)
        if rnd:
            r.ev('linkloss_retransfers')
        if bytes(got_s) != sent_c or bytes(got_c) != sent_s:
            r.bad(f'coc/stream/corrupt/{mode}{after}', f'c2s {len(got_s)}/{len(sent_c)} s2c {len(got_c)}/{len(sent_s)}; history={hist}')
            return
        if rnd == rounds:
            break
        # 2) a saturating transfer, interrupted by the loss of the link
        dirs = rng.choice([('c2s',), ('s2c',), ('c2s', 's2c')])
        big_c = make_data(rnd * 4 + 2, 0, rng.choice([8000, 20000, 40000])) if 'c2s' in dirs else b''
        big_s = make_data(rnd * 4 + 3, 0, rng.choice([8000, 20000, 40000])) if 's2c' in dirs else b''
        del got_s[:], got_c[:]
        for off in range(0, max(len(big_c), len(big_s)), 2000):
            if big_c[off:off + 2000]:
                ch.write(big_c[off:off + 2000])
            if big_s[off:off + 2000]:
                sv.write(big_s[off:off + 2000])
        for _ in range(rng.choice([0, 1, 3, 10, 30, 100, 300])):
            await asyncio.sleep(0)
        who = rng.choice(['central', 'peripheral'])
        inflight = rg.in_flight
        try:
            await vloop.vwait((cc if who == 'central' else pc).disconnect())
        except vloop.Hang:
            r.bad('coc/progress/stalled/link-disconnect', f'Connection.disconnect() pending at T_v; history={hist}')
            return
        except Exception as e:      # the link went away under the call: fine
            r.ev('linkloss_disconnect_raised')
        await rg.quiesce()
        hist.append((dirs, who, len(got_s), len(got_c)))
        r.ev('linkloss_cuts')
        if len(got_s) < len(big_c) or len(got_c) < len(big_s):
            r.ev('linkloss_cuts_mid_transfer')
        if inflight:
            r.ev('linkloss_cuts_with_messages_in_flight')
        # what arrived before the loss is a prefix of what was written
        r.ev('oracle_evals', 2)
        if bytes(got_s) != big_c[:len(got_s)] or bytes(got_c) != big_s[:len(got_c)]:
            r.bad(f'coc/stream/corrupt/{mode}/interrupted-prefix', f'bytes delivered before the link loss are no prefix of the '
                                                                    f'bytes written; history={hist}')
        rl.coc_ledger(rg.boundary_log[seg_start:], 0, r, tag='/link-loss')
        rl.coc_ledger(rg.boundary_log[seg_start:], 1, r, tag='/link-loss')
        seg_start = len(rg.boundary_log)
    rl.coc_ledger(rg.boundary_log[seg_start:], 0, r, tag='/link-loss')
    rl.coc_ledger(rg.boundary_log[seg_start:], 1, r, tag='/link-loss')
    for where, e in rg.exceptions:
        r.bad('coc/exception-in-stack', f'{where}: {e}')
    r.ev('linkloss_cases')
    r.sig('linkloss', mode, tuple(nums), tuple(lens), delay, tuple(hist))
    r.sched.add(rg.schedule_signature)
    r.evals()
    r.sample = {'kind': 'linkloss', 'mode': mode, 'client': spec_c, 'server': spec_s, 'le_acl_num': nums, 'le_acl_len': lens,
                'delay': delay, 'history': [list(map(str, h)) for h in hist]}


async def max_credits(case, r: R):
    """A receiver that grants the protocol maximum of 65535 credits, and a sender that uses
    more than 65535 frames: the credit counters cross every boundary up to the maximum."""
    from bumble import l2cap
    from vlib import rig as vrig
    rng = random.Random(case['seed'])
    vrig.seed_entropy(case['seed'])
    rg = vrig.Rig(2, seed=case['seed'], max_delay=0, le_acl_len=[251, 251], le_acl_num=[64, 64])
    await rg.power_on()
    cc, pc = await rg.connect_le(0, 1)
    acc = []
    rg.devices[1].create_l2cap_server(spec=l2cap.LeCreditBasedChannelSpec(psm=0x85, mtu=64, mps=64, max_credits=65535),
                                      handler=acc.append)
    ch = await vloop.vwait(cc.create_l2cap_channel(spec=l2cap.LeCreditBasedChannelSpec(psm=0x85, mtu=64, mps=64, max_credits=8)))
    await rg.quiesce()
    got = bytearray()
    acc[0].sink = got.extend
    total_frames = 65535 + rng.randint(40, 400)
    idle_at = {32767, 32768, 65534, 65535}
    sent = bytearray()
    for i in range(total_frames):
        d = bytes([i & 0xFF])
        ch.write(d)
        sent += d
        if i in idle_at or i % 4096 == 0:
            # let the sender go idle exactly around the points where the receiver replenishes
            await rg.quiesce(extra_turns=3)

    async def done():
        while len(got) < len(sent):
            await asyncio.sleep(0.05)
    try:
        await vloop.vwait(done())
    except vloop.Hang:
        r.bad('coc/progress/stalled/le/max-credits',
              f'{len(got)}/{len(sent)} bytes after T_v with a receiver granting 65535 credits; sender credits={ch.credits} '
              f'receiver view={acc[0].peer_credits}')
    r.ev('stream_checks')
    r.ev('oracle_evals')
    if bytes(got) != bytes(sent)[:len(got)]:
        r.bad('coc/stream/corrupt/le/max-credits', 'received prefix differs')
    rl.coc_ledger(rg.boundary_log, 0, r, tag='/max-credits')
    r.ev('max_credit_cases')
    r.sig('maxcredits', total_frames)
    r.evals()
    r.sample = {'kind': 'maxcredits', 'frames': total_frames}


async def run_case(case, r: R):
    if case['kind'] == 'b2b':
        await b2b(case, r)
    elif case['kind'] == 'rawmulti':
        await raw_multi(case, r)
    elif case['kind'] == 'maxcredits':
        await max_credits(case, r)
    elif case['kind'] == 'linkloss':
        await link_loss(case, r)
    else:
        await raw_case(case, r)


LEVEL_TEXT = ('Credit ledger, MPS/MTU bounds and stream equality checked on every execution of ~180 (quick) / '
              '~3600 (thorough) generated transfers over real bumble devices on the virtual link, including a '
              'hand-driven raw peer that uses CIDs, zero initial credits and grant patterns bumble itself never '
              'produces (including credits sent in the same burst as the connection response), sizes on both sides of '
              '32768 in every 16-bit length field, and transfers cut by a link loss followed by reconnection and a new '
              'transfer; progress is bounded in virtual time. Sampling of the parameter space, not proof.')
LEVEL_NOTE = ('Trusted: vlib/ref_l2cap.py (signalling parser + ledger, ~200 lines), vlib/rig.py taps and '
              'independent ACL reassembler, the virtual-time loop. No frame loss is modelled.')
TECHNIQUE = 'runtime monitoring: offline credit-ledger checker over tapped HCI log + stream equality + bounded progress'
