"""C01 — HCI packets survive serialise/parse unchanged, for every packet class.

Monitors (all run the real bumble.hci codec; expected bytes and values come from
vlib/ref_hci.py, an independent encoder/decoder for the declared field layouts):

  classes      every class found at run time in the command / event / LE-meta /
               other extended-event (vendor) registries x N generated instances:
               (A) build -> bytes -> HCI_Packet.from_bytes -> same class, field-wise
                   equal, re-serialises to the same bytes
               (B) a *fresh* object rebuilt from the parsed attributes serialises to
                   the same bytes (the parsed object only replays cached parameters)
               (C) bumble's bytes == reference bytes (header and every field at the
                   declared offset / width / byte order / sign)
               (D) reference bytes of fresh values -> from_bytes -> same class, equal
                   fields, identical re-serialisation, identical rebuild
               plus the same with short fixed arrays (documented zero padding)
  generic  (E) unregistered op codes / event codes / LE sub-event codes, unclaimed
               vendor events and unknown packet types come back as generic packets
               with byte-identical parameters
  cmdcomplete (F) per sync command: Command Complete with generated return
               parameters parses into the command's return-parameter class with equal
               fields; non-zero status gives a status-only object; built events match
               the reference bytes
  rp-spec  (H) per sync command: the class registered for its Command Complete return
               parameters is the class the command itself declares
               (HCI_SyncCommand[...]); return parameters shaped as the Core specification
               says (vlib/ref_hci_rp.py: a table of layouts per op code written from the
               specification, not from bumble) parse into that class with one attribute per
               spec parameter holding the octets at the spec offset, re-serialise
               unchanged, and the object built from those attributes serialises to the
               same spec-length octets
  layout   (L) per command / event / LE sub-event class stated in vlib/ref_hci_layout.py (a table
               of parameter order, width, signedness and kind per op code / event code / sub-event
               code written from the specification, not from bumble): (a) specification-shaped
               parameter octets (profiles: all octets distinct, all ones / -1, top bit / most
               negative, small values, random boundary values; address type octets 0/1 kept apart
               from neighbouring SIDs and handles) -> from_bytes -> every field the class exposes
               holds the reference value (integers incl. sign, addresses incl. the type taken from
               the preceding parameter), re-serialises unchanged; (b) the object built from the
               field values serialises to the reference octets, compared width by width.
               Classes not covered are listed in coverage.layout_spec_uncovered with the reason
  data     (G) ACL / SCO / ISO headers: all flag combinations x boundary handles x
               boundary lengths, ISO with/without time stamp and SDU header,
               packet status 0..3, both directions
"""
from __future__ import annotations

import dataclasses
import random

from vlib import ref_hci as ref
from vlib import ref_hci_rp as rp_spec
from vlib import ref_hci_layout as lay
from vlib.result import R

ID = 'C01'
LEVEL = 'exploration'
RULE = ('registries are enumerated at run time (commands incl. vendor, events, LE sub-events, other '
        'extended-event registries); per class N instances are generated from the declared field '
        'metadata with boundary-biased values (0, 1, 0x7F/0x80, 2^k-1/2^k, max, sign bit, all-distinct '
        'octets; lengths 0/1/31/32/127/128/254/255/fill-the-packet; group counts 0/1/2/3/as-many-as-fit). '
        'An instance is non-trivial when its class has at least one wire field (classes without fields '
        'count once); distinct = distinct (class, direction, shape) where shape is the tuple of '
        'boundary classes of the integer fields, lengths of the variable fields and group counts. '
        'Generic/unknown-code, Command Complete and data-packet cases: distinct = distinct '
        '(kind, code or flag combination, length). Clause H: every sync command found at run time x N '
        'spec-shaped return-parameter blocks (status 0, random octets in every spec field, array counts '
        '0/1/2/3/as-many-as-fit); distinct = (command, array counts / rest length). Clause L: every registered '
        'class with an entry in vlib/ref_hci_layout.py x 4 fixed value profiles + N random boundary instances, both '
        'directions; distinct = (class, profile or lengths of the first parameters).')
ASSUMPTIONS = [
    'the declared field metadata (spec, list_begin/list_end, parser names, the size/byteorder captured by '
    'SpecableEnum/SpecableFlag.type_spec) is taken as the intended layout; a class whose declaration is '
    'wrong in both directions consistently is not detectable here',
    'address type is compared only where it is on the wire (preceding octet) or fixed by the declared '
    'parser (parse_address = public, parse_random_address = random)',
    'fixed byte arrays shorter than declared are zero-padded on the right (documented in serialize_field); '
    'over-long arrays are not generated',
    'HCI_Bluetooth_Quality_Report_Event is generated with quality_report_id in {1,2,3,4,7,8,9} (the ids the '
    'Android factory claims); HCI_Vendor_Event data never starts with a claimed vendor sub-event code; '
    'HCI_Command_Complete_Event as a plain event class is generated with unregistered op codes only '
    '(registered ones are covered by clause F)',
    'return-parameter layouts per op code (clause H) are the ones written down in vlib/ref_hci_rp.py from Core '
    'Vol 4 Part E 7.x, the Android HCI requirements and Zephyr hci_vs.h: widths and order only (signedness and '
    'value ranges are not judged); a sync command found at run time without an entry in that table is listed in '
    'coverage.return_parameter_spec_layout_missing and only gets the declared-vs-registered class comparison',
    'command / event / sub-event parameter layouts (clause L) are the ones written down in vlib/ref_hci_layout.py from '
    'Core Vol 4 Part E 7.1-7.8 (order, width, signedness, kind; arrays interleaved per 5.2); parameter NAMES are the '
    'attribute names of the classes; a class whose names differ from the table, or that the table does not state, is '
    'listed in coverage.layout_spec_uncovered and gets clauses A-D only; address type is judged only for an address '
    'whose type is the preceding parameter; PHY masks counting per-PHY items use bits 0..2 only',
    'parameter blocks are kept <= 255 octets; ISO layout per Core Vol 4 Part E 5.4.5 '
    '(ISO_SDU_Length bits 0-11, Packet_Status_Flag bits 14-15)',
]
MIN_EVENTS = {
    'quick': {'build_roundtrips': 20000, 'frombytes_roundtrips': 20000, 'layout_checks': 20000,
              'rebuilds': 40000, 'generic_checks': 3000, 'cmdcomplete_checks': 3000,
              'data_checks': 3000, 'classes_populated': 270, 'pad_roundtrips': 2000,
              'iso_status_checks': 100, 'synthetic_all_paths_roundtrips': 1000,
              'cmdcomplete_error_status_checks': 2000, 'sweep_instances': 4000,
              'rp_declared_class_checks': 2000, 'rp_spec_layout_checks': 5000, 'rp_spec_rebuilds': 4500,
              'rp_spec_field_checks': 4500, 'layout_spec_classes_covered': 270, 'layout_spec_parse_checks': 15000,
              'layout_spec_build_checks': 15000, 'layout_spec_field_compares': 60000,
              'layout_spec_width_compares': 60000},
    'thorough': {'build_roundtrips': 2500000, 'frombytes_roundtrips': 2500000, 'layout_checks': 2500000,
                 'rebuilds': 5000000, 'generic_checks': 30000, 'cmdcomplete_checks': 30000,
                 'data_checks': 30000, 'classes_populated': 270, 'pad_roundtrips': 60000,
                 'iso_status_checks': 1000, 'synthetic_all_paths_roundtrips': 20000,
                 'cmdcomplete_error_status_checks': 20000, 'sweep_instances': 65536,
                 'rp_declared_class_checks': 10000, 'rp_spec_layout_checks': 100000, 'rp_spec_rebuilds': 90000,
                 'rp_spec_field_checks': 90000, 'layout_spec_classes_covered': 270, 'layout_spec_parse_checks': 500000,
                 'layout_spec_build_checks': 500000, 'layout_spec_field_compares': 2000000,
                 'layout_spec_width_compares': 2000000},
}
CASE_TIMEOUT = 900
EXHAUSTIVE_NOTE = ('enumerated completely in every run: all registered classes of every registry; all unregistered '
                   'event codes and LE sub-event codes and all first octets of unclaimed vendor events x 9 boundary '
                   'lengths; ACL pb x bc x handle{0,1,0xEFF,0xFFF} x length{0,1,255,256,65535}; SCO status x handle x '
                   'length{0,1,60,254,255}; ISO pb x time-stamp x packet-status 0..3 x handle x fragment{0,1,255,256}; '
                   'thorough only: all 65536 16-bit patterns (hence all 8-bit values) through every integer path of the '
                   'field language on the synthetic all-paths object (quick: one residue class mod 16, chosen by the seed)')

QUALITY_REPORT_IDS = [1, 2, 3, 4, 7, 8, 9]


def plan(tier, seed):
    cases = [{'kind': 'census', 'seed': seed}]
    if tier == 'quick':
        ncls, per = 64, 4
        ngen, ncc, ndata = 8, 16, 8
        cc_per, data_rand = 3, 300
    else:
        ncls, per = 1200, 14
        ngen, ncc, ndata = 32, 96, 32
        cc_per, data_rand = 10, 3000
    for i in range(ncls):
        cases.append({'kind': 'classes', 'seed': seed * 1000003 + i, 'per': per})
    for i in range(ngen):
        cases.append({'kind': 'generic', 'seed': seed * 1000003 + i, 'heavy': tier != 'quick'})
    for i in range(ncc):
        cases.append({'kind': 'cmdcomplete', 'seed': seed * 1000003 + i, 'per': cc_per})
    for i in range(ndata):
        cases.append({'kind': 'data', 'seed': seed * 1000003 + i, 'random': data_rand})
    for i in range(16 if tier == 'quick' else 96):
        cases.append({'kind': 'layout', 'seed': seed * 1000003 + i, 'per': 2 if tier == 'quick' else 24})
    step = 16 if tier == 'quick' else 1
    for i in range(16):
        # quick: a different residue class per seed, so that seeds together cover all values
        cases.append({'kind': 'sweep', 'seed': seed * 1000003 + i, 'lo': i * 4096 + (seed % step), 'hi': (i + 1) * 4096, 'step': step})
    return cases


# =============================================================================
# registry enumeration
# =============================================================================
_REG = None


class Entry:
    __slots__ = ('kind', 'code', 'cls', 'descs', 'why', 'limit', 'event_code')

    def __init__(self, kind, code, cls):
        self.kind = kind
        self.code = code
        self.cls = cls
        self.descs = None
        self.why = None
        self.limit = 255
        self.event_code = None

    @property
    def name(self):
        return self.cls.__name__


def _all_subclasses(c):
    out = []
    todo = [c]
    while todo:
        x = todo.pop()
        out.append(x)
        todo.extend(x.__subclasses__())
    return out


def registries():
    """Everything registered, found at run time."""
    global _REG
    if _REG is not None:
        return _REG
    from bumble import hci
    # vendor modules register their commands / events in the same registries on import
    import bumble.vendor.android.hci  # noqa: F401
    import bumble.vendor.zephyr.hci  # noqa: F401

    entries = []
    for op, cls in sorted(hci.HCI_Command.command_classes.items()):
        entries.append(Entry('command', op, cls))
    for code, cls in sorted(hci.HCI_Event.event_classes.items()):
        entries.append(Entry('event', code, cls))
    for sub, cls in sorted(hci.HCI_LE_Meta_Event.subevent_classes.items()):
        e = Entry('le-meta', sub, cls)
        e.limit = 254
        e.event_code = 0x3E
        entries.append(e)
    seen = {id(hci.HCI_LE_Meta_Event.subevent_classes)}
    vendor_codes = set()
    for c in _all_subclasses(hci.HCI_Extended_Event):
        d = getattr(c, 'subevent_classes', None)
        if not isinstance(d, dict) or id(d) in seen:
            continue
        seen.add(id(d))
        for sub, cls in sorted(d.items()):
            ec = getattr(cls, 'event_code', None)
            e = Entry('vendor-event' if ec == 0xFF else 'ext-event', sub, cls)
            e.limit = 254
            e.event_code = ec
            entries.append(e)
            if ec == 0xFF:
                vendor_codes.add(sub)

    unregistered_ops = [op for op in list(range(0, 0x40)) + [0x0400, 0x0C7F, 0x2000 | 0x3FF, 0xFC00, 0xFFFF, 0xABCD]
                        if op not in hci.HCI_Command.command_classes]
    for e in entries:
        try:
            if dataclasses.is_dataclass(e.cls) and '__init__' in e.cls.__dict__ and \
                    ref.handwritten(e.name) is None and not _dataclass_init(e.cls):
                raise ref.Unsupported(f'{e.name}: dataclass with a hand-written __init__')
            hw = ref.handwritten(e.name)
            if hw is not None:
                e.descs = hw
            elif dataclasses.is_dataclass(e.cls):
                e.descs = ref.describe_class(e.cls)
            elif not e.cls.fields and not _has_own_init(e.cls, hci):
                e.descs = []
            else:
                raise ref.Unsupported(f'{e.name}: neither a dataclass nor a class with a hand-written reference layout')
            if e.event_code is None and e.kind in ('vendor-event', 'ext-event'):
                raise ref.Unsupported(f'{e.name}: extended event without event_code')
            if ref.min_size(e.descs) > e.limit:
                raise ref.Unsupported(f'{e.name}: minimum size {ref.min_size(e.descs)} exceeds the packet limit')
        except ref.Unsupported as ex:
            e.descs = None
            e.why = str(ex)
            continue
        # class-specific generation constraints (see ASSUMPTIONS)
        for d in e.descs:
            if e.name == 'HCI_Bluetooth_Quality_Report_Event' and d.name == 'quality_report_id':
                d.choices = QUALITY_REPORT_IDS
            if e.name == 'HCI_Command_Complete_Event' and d.name == 'command_opcode':
                d.choices = unregistered_ops
    for cls in synthetic_classes(hci):
        e = Entry('codec', 0, cls)
        e.limit = 1500
        try:
            e.descs = ref.describe_class(cls)
        except ref.Unsupported as ex:
            e.why = str(ex)
        entries.append(e)
    _REG = {'entries': entries, 'vendor_codes': vendor_codes, 'hci': hci,
            'unregistered_ops': unregistered_ops}
    return _REG


def synthetic_classes(hci):
    """Objects declared with bumble's own public declaration API that put every path of
    the field language (also the ones no registered class currently uses: signed 16,
    big-endian 16/32, multi-octet enums, 256-octet arrays) at top level, inside a
    counted group and inside nested objects.  They go through the same generic codec
    (HCI_Object.dict_to_bytes / dict_and_offset_from_bytes)."""
    from dataclasses import field
    md = hci.metadata

    class C01Enum(hci.SpecableEnum):
        A = 0x0102
        B = 0xFFFE

    class C01Flag(hci.SpecableFlag):
        X = 0x0001
        Y = 0x8000

    @dataclasses.dataclass
    class C01_Item(hci.HCI_Dataclass_Object):
        i_s16: int = field(metadata=md(-2))
        i_v: bytes = field(metadata=md('v'))
        i_be16: int = field(metadata=md('>2'))

    @dataclasses.dataclass
    class C01_AllPaths(hci.HCI_Dataclass_Object):
        u8: int = field(metadata=md(1))
        s8: int = field(metadata=md(-1))
        u16: int = field(metadata=md(2))
        s16: int = field(metadata=md(-2))
        be16: int = field(metadata=md('>2'))
        u24: int = field(metadata=md(3))
        u32: int = field(metadata=md(4))
        be32: int = field(metadata=md('>4'))
        arr5: bytes = field(metadata=md(5))
        arr16: bytes = field(metadata=md(16))
        arr256: bytes = field(metadata=md(256))
        sized: int = field(metadata=md({'size': 3}))
        e_be2: int = field(metadata=C01Enum.type_metadata(2, byteorder='big'))
        e_le3: int = field(metadata=C01Enum.type_metadata(3))
        e_le4: int = field(metadata=C01Enum.type_metadata(4))
        f_le2: int = field(metadata=C01Flag.type_metadata(2))
        f_be4: int = field(metadata=C01Flag.type_metadata(4, byteorder='big'))
        addr: hci.Address = field(metadata=md(hci.Address.parse_address))
        raddr: hci.Address = field(metadata=md(hci.Address.parse_random_address))
        atype: int = field(metadata=md(1))
        taddr: hci.Address = field(metadata=md(hci.Address.parse_address_preceded_by_type))
        coding: hci.CodingFormat = field(metadata=md(hci.CodingFormat.parse_from_bytes))
        var: bytes = field(metadata=md('v'))
        g_s16: list = field(metadata=md(-2, list_begin=True))
        g_be32: list = field(metadata=md('>4'))
        g_u24: list = field(metadata=md(3))
        g_s8: list = field(metadata=md(-1))
        g_v: list = field(metadata=md('v'))
        g_arr: list = field(metadata=md(6))
        g_enum: list = field(metadata=C01Enum.type_metadata(2, list_end=True))
        items: list = field(metadata=md(C01_Item.parse_from_bytes, list_begin=True, list_end=True))
        one: C01_Item = field(metadata=md(C01_Item.parse_from_bytes))
        rest: bytes = field(metadata=md('*'))

    return [C01_AllPaths]


def _dataclass_init(cls):
    # the dataclass decorator writes __init__ into the class dict itself; a hand-written
    # one has a different code name / file
    init = cls.__dict__.get('__init__')
    code = getattr(init, '__code__', None)
    return code is not None and code.co_filename.startswith('<string>')


def _has_own_init(cls, hci):
    for k in cls.__mro__:
        if k in (hci.HCI_Command, hci.HCI_Event, hci.HCI_Extended_Event, hci.HCI_Packet, object):
            break
        if '__init__' in k.__dict__:
            return True
    return False


def header(e: Entry, params: bytes) -> bytes:
    if e.kind == 'codec':
        return bytes(params)
    if e.kind == 'command':
        return ref.command_packet(e.code, params)
    if e.kind == 'event':
        return ref.event_packet(e.code, params)
    return ref.event_packet(e.event_code, bytes([e.code]) + params)


def header_len(e: Entry) -> int:
    return 0 if e.kind == 'codec' else 4 if e.kind == 'command' else 3 if e.kind == 'event' else 4


def parse_packet(hci, e: Entry, b: bytes):
    if e.kind == 'codec':
        end, obj = e.cls.parse_from_bytes(b, 0)
        if end != len(b):
            raise ValueError(f'parse_from_bytes consumed {end} of {len(b)} octets')
        return obj
    return hci.HCI_Packet.from_bytes(b)


# =============================================================================
# plain values <-> bumble objects
# =============================================================================
class Mismatch(Exception):
    def __init__(self, path, desc, msg):
        super().__init__(f'{path}: {msg}')
        self.path = path
        self.desc = desc


def to_bumble_field(hci, rng, d, v):
    k = d.kind
    if k == 'uint':
        if d.enum is not None and rng.random() < 0.5:
            try:
                return d.enum(v)
            except Exception:
                return v
        return v
    if k in ('sint', 'bytes', 'v', 'rest', 'lpv'):
        return v
    if k == 'addr':
        if d.addr == 'preceded':
            t = v[1]
        elif d.addr == 'random':
            t = 1
        elif d.addr == 'public':
            t = 0 if rng.random() < 0.7 else 1
        else:
            t = rng.choice([0, 1])
        return hci.Address(v[0], hci.AddressType(t))
    if k == 'coding':
        return hci.CodingFormat(hci.CodecID(v[0]), v[1], v[2])
    if k == 'object':
        return d.cls(**to_bumble(hci, rng, d.sub, v))
    raise ref.Unsupported(f'cannot build {d!r}')


def to_bumble(hci, rng, descs, values):
    out = {}
    for d in descs:
        if d.kind in ('group', 'maskgroup'):
            for s in d.sub:
                out[s.name] = [to_bumble_field(hci, rng, s, x) for x in values[s.name]]
        else:
            out[d.name] = to_bumble_field(hci, rng, d, values[d.name])
    return out


def plain_field(d, v, path):
    k = d.kind
    if k in ('uint', 'sint'):
        if isinstance(v, bool) or not isinstance(v, int):
            raise Mismatch(path, d, f'expected an integer, got {type(v).__name__} {v!r}')
        return int(v)
    if k in ('bytes', 'v', 'lpv'):
        if not isinstance(v, (bytes, bytearray)):
            raise Mismatch(path, d, f'expected bytes, got {type(v).__name__} {v!r}')
        return bytes(v)
    if k == 'rest':
        if isinstance(v, (bytes, bytearray)) or hasattr(v, '__bytes__'):
            return bytes(v)
        raise Mismatch(path, d, f'expected bytes, got {type(v).__name__} {v!r}')
    if k == 'addr':
        if not hasattr(v, 'address_bytes'):
            raise Mismatch(path, d, f'expected an Address, got {type(v).__name__} {v!r}')
        return (bytes(v.address_bytes), int(v.address_type))
    if k == 'coding':
        return (int(v.codec_id), int(v.company_id), int(v.vendor_specific_codec_id))
    if k == 'object':
        return plain_obj(d.sub, v, path + '.')
    raise ref.Unsupported(f'cannot read {d!r}')


_MISSING = object()


def plain_obj(descs, obj, prefix=''):
    out = {}
    for d in descs:
        subs = d.sub if d.kind in ('group', 'maskgroup') else None
        if subs is not None:
            for s in subs:
                lst = getattr(obj, s.name, _MISSING)
                if lst is _MISSING or not isinstance(lst, (list, tuple)):
                    raise Mismatch(prefix + s.name, s, f'expected a list, got {lst!r}' if lst is not _MISSING else 'attribute missing')
                out[s.name] = [plain_field(s, x, f'{prefix}{s.name}[{i}]') for i, x in enumerate(lst)]
        else:
            v = getattr(obj, d.name, _MISSING)
            if v is _MISSING:
                raise Mismatch(prefix + d.name, d, 'attribute missing')
            out[d.name] = plain_field(d, v, prefix + d.name)
    return out


def _cmp_field(d, exp, got, path):
    k = d.kind
    if k == 'addr':
        if exp[0] != got[0]:
            raise Mismatch(path, d, f'address octets {got[0].hex()} != {exp[0].hex()}')
        want = exp[1] if d.addr == 'preceded' else 0 if d.addr == 'public' else 1 if d.addr == 'random' else None
        if want is not None and got[1] != want:
            m = Mismatch(path, d, f'address type {got[1]} != {want} ({d.addr})')
            m.addr_type = True
            raise m
        return
    if k == 'object':
        compare(d.sub, exp, got, path + '.')
        return
    if exp != got:
        def show(x):
            return x.hex() if isinstance(x, bytes) else repr(x)
        raise Mismatch(path, d, f'{show(got)} != expected {show(exp)}')


def compare(descs, exp, got, prefix=''):
    """Raise Mismatch at the first field whose parsed value differs."""
    for d in descs:
        if d.kind in ('group', 'maskgroup'):
            n = len(exp[d.sub[0].name])
            for s in d.sub:
                if len(got[s.name]) != n:
                    raise Mismatch(prefix + s.name, d, f'{len(got[s.name])} items != expected {n}')
            for i in range(n):
                for s in d.sub:
                    _cmp_field(s, exp[s.name][i], got[s.name][i], f'{prefix}{s.name}[{i}]')
        else:
            _cmp_field(d, exp[d.name], got[d.name], prefix + d.name)


def field_names(descs):
    out = []
    for d in descs:
        if d.kind in ('group', 'maskgroup'):
            out += [s.name for s in d.sub]
        else:
            out.append(d.name)
    return out


def tags_of(descs, acc=None):
    acc = set() if acc is None else acc
    for d in descs:
        acc.add(d.tag)
        if d.sub:
            tags_of(d.sub, acc)
    return acc


def shape_of(descs, values):
    out = []
    for d in descs[:6]:
        k = d.kind
        if k in ('group', 'maskgroup'):
            out.append(('n', len(values[d.sub[0].name])))
            continue
        v = values[d.name]
        if k == 'uint':
            top = (1 << (8 * d.size)) - 1
            out.append(0 if v == 0 else 1 if v == top else 2 if v >> (8 * d.size - 1) else 3 if v < 256 else 4)
        elif k == 'sint':
            out.append(0 if v == 0 else 1 if v < 0 else 2)
        elif k in ('v', 'rest', 'lpv', 'bytes'):
            out.append(('l', len(v)))
    return tuple(out)


# =============================================================================
# violation aggregation: name the class only when the defect is class-specific
# =============================================================================
class Agg:
    def __init__(self):
        self.fail = {}    # generic key -> (tag, force_class, {class name: detail})
        self.by_tag = {}  # tag -> set of class names evaluated in this case
        self.all = set()

    def saw(self, e: Entry):
        self.all.add(e.name)
        for t in tags_of(e.descs):
            self.by_tag.setdefault(t, set()).add(e.name)

    def add(self, key, e: Entry, detail, desc=None):
        tag = desc.tag if desc is not None else None
        force = bool(desc is not None and (desc.custom or desc.kind in ('object', 'maskgroup')))
        if ref.handwritten(e.name) is not None:
            force = True
        if tag is not None:
            key = f'{key}/{tag}'
        slot = self.fail.setdefault(key, [tag, force, {}])
        slot[1] = slot[1] or force
        if e.name not in slot[2] or len(slot[2]) < 1:
            slot[2].setdefault(e.name, detail)

    def flush(self, r: R):
        for key, (tag, force, classes) in sorted(self.fail.items()):
            den = len(self.by_tag.get(tag, ())) if tag is not None else len(self.all)
            generic = (not force) and len(classes) >= max(3, 0.25 * den)
            if generic:
                names = sorted(classes)
                r.bad(key, f'{len(names)} of {den} classes using this path, e.g. '
                           f'{names[0]}: {classes[names[0]]}')
            else:
                for name in sorted(classes):
                    r.bad(f'{key}/{name}', classes[name])


# =============================================================================
# classes: clauses A, B, C, D (+ short arrays)
# =============================================================================
def gen_instance(reg, e: Entry, rng, short=False):
    budget = ref.Budget(e.limit - ref.min_size(e.descs))
    v = ref.gen_values(rng, e.descs, budget, short_arrays=short)
    if e.name == 'HCI_Vendor_Event':
        data = v.get('data', b'')
        if data and data[0] in reg['vendor_codes']:
            free = next(c for c in range(256) if c not in reg['vendor_codes'])
            v['data'] = bytes([free]) + data[1:]
    return v


def rebuild(e: Entry, parsed):
    kwargs = {n: getattr(parsed, n) for n in field_names(e.descs)}
    return bytes(e.cls(**kwargs))


def describe_values(descs, values, limit=300):
    def show(x):
        if isinstance(x, bytes):
            return x.hex() if len(x) <= 24 else f'{x[:12].hex()}..({len(x)})'
        if isinstance(x, tuple):
            return '(' + ','.join(show(y) for y in x) + ')'
        if isinstance(x, list):
            return '[' + ','.join(show(y) for y in x[:6]) + (',..' if len(x) > 6 else '') + ']'
        if isinstance(x, dict):
            return '{' + ','.join(f'{k}={show(y)}' for k, y in x.items()) + '}'
        return repr(x)
    s = ', '.join(f'{k}={show(v)}' for k, v in values.items())
    return s if len(s) <= limit else s[:limit] + '...'


def one_instance(reg, e: Entry, rng, r: R, agg: Agg, short: bool, values=None, from_bytes_too=True):
    hci = reg['hci']
    pre = ('pad' if short else 'roundtrip') + '/' + e.kind
    descs = e.descs

    # ---------------- build direction: A, B, C --------------------------------
    if values is None:
        values = gen_instance(reg, e, rng, short)
    params_ref, layout = ref.encode(descs, values)
    b_ref = header(e, params_ref)
    expect = ref.canonical(descs, values)
    ctx = lambda: f'{e.name}({describe_values(descs, values)})'
    r.evals()
    r.ev('pad_roundtrips' if short else 'build_roundtrips')
    if e.kind == 'codec':
        r.ev('synthetic_all_paths_roundtrips')
    if descs:
        r.sig(e.kind, e.name, 'b', short, shape_of(descs, values))
    else:
        r.sig(e.kind, e.name, 'empty')
    b1 = None
    try:
        obj = e.cls(**to_bumble(hci, rng, descs, values))
        b1 = bytes(obj)
    except Exception as ex:
        agg.add(f'{pre}/build-raises', e, f'{ctx()} raised {type(ex).__name__}: {ex}')
    if b1 is not None:
        r.ev('layout_checks')
        r.ev('oracle_evals')
        if b1 != b_ref:
            hl = header_len(e)
            if b1[:hl] != b_ref[:hl]:
                agg.add(f'{pre}/layout/header', e, f'{ctx()}: header {b1[:hl].hex()} != reference {b_ref[:hl].hex()}')
            else:
                path, d, pos = ref.locate(layout, params_ref, b1[hl:])
                agg.add(f'{pre}/layout', e,
                        f'{ctx()}: bytes depart from the declared layout in field {path} at parameter offset {pos}: '
                        f'bumble {b1[hl:][max(0, pos - 2):pos + 8].hex()} reference {params_ref[max(0, pos - 2):pos + 8].hex()} '
                        f'(lengths {len(b1) - hl}/{len(params_ref)})', d)
        # A: parse bumble's own bytes
        parsed = None
        try:
            parsed = parse_packet(hci, e, b1)
        except Exception as ex:
            agg.add(f'{pre}/parse-raises', e, f'{ctx()} -> {b1.hex()[:120]} : from_bytes raised {type(ex).__name__}: {ex}')
        if parsed is not None:
            r.ev('oracle_evals')
            if type(parsed) is not e.cls:
                agg.add(f'{pre}/wrong-class', e, f'{ctx()} -> {b1.hex()[:80]} parsed as {type(parsed).__name__}')
            else:
                r.ev('field_compares')
                fields_ok = True
                try:
                    got = plain_obj(descs, parsed)
                    compare(descs, expect, got)
                except Mismatch as m:
                    fields_ok = False
                    clause = 'addr-type' if getattr(m, 'addr_type', False) else 'field'
                    agg.add(f'{pre}/{clause}', e, f'{ctx()} -> {b1.hex()[:80]} -> {m}', m.desc)
                r.ev('oracle_evals')
                try:
                    b2 = bytes(parsed)
                    if b2 != b1:
                        agg.add(f'{pre}/reserialise', e, f'{ctx()}: bytes(parsed)={b2.hex()[:120]} != {b1.hex()[:120]}')
                except Exception as ex:
                    agg.add(f'{pre}/reserialise', e, f'{ctx()}: bytes(parsed) raised {type(ex).__name__}: {ex}')
                # B: fresh object from the parsed attributes (a wrong parsed field has been
                # reported already; its echo in the rebuilt bytes is not a second finding)
                r.ev('rebuilds')
                r.ev('oracle_evals')
                try:
                    b3 = rebuild(e, parsed)
                    if b3 != b1 and fields_ok:
                        path, d, pos = ref.locate(layout, b1[header_len(e):], b3[header_len(e):])
                        agg.add(f'{pre}/rebuild', e,
                                f'{ctx()}: object rebuilt from parsed fields gives {b3.hex()[:120]} != {b1.hex()[:120]} (field {path})', d)
                except Exception as ex:
                    agg.add(f'{pre}/rebuild-raises', e, f'{ctx()}: rebuilding from parsed fields raised {type(ex).__name__}: {ex}')

    # ---------------- from-bytes direction: D ----------------------------------
    if short or not from_bytes_too:
        return values, b_ref
    values = gen_instance(reg, e, rng, False)
    params_ref, layout = ref.encode(descs, values)
    b_ref = header(e, params_ref)
    expect = ref.canonical(descs, values)
    # self-check of the reference: its decoder must invert its encoder
    back, end = ref.decode_from(descs, params_ref, 0)
    if end != len(params_ref) or _strip_types(descs, back) != _strip_types(descs, expect):
        raise AssertionError(f'reference codec does not invert itself for {e.name}: {values} -> {params_ref.hex()} -> {back}')
    r.evals()
    r.ev('frombytes_roundtrips')
    if descs:
        r.sig(e.kind, e.name, 'f', shape_of(descs, values))
    parsed = None
    try:
        parsed = parse_packet(hci, e, b_ref)
    except Exception as ex:
        agg.add(f'{pre}/frombytes-raises', e, f'{e.name}: well-formed {b_ref.hex()[:160]} ({describe_values(descs, values)}): from_bytes raised {type(ex).__name__}: {ex}')
    if parsed is not None:
        r.ev('oracle_evals')
        if type(parsed) is not e.cls:
            agg.add(f'{pre}/frombytes-class', e, f'{b_ref.hex()[:80]} parsed as {type(parsed).__name__}, registered class is {e.name}')
        else:
            r.ev('field_compares')
            fields_ok = True
            try:
                got = plain_obj(descs, parsed)
                compare(descs, expect, got)
            except Mismatch as m:
                fields_ok = False
                clause = 'frombytes-addr-type' if getattr(m, 'addr_type', False) else 'frombytes-field'
                agg.add(f'{pre}/{clause}', e, f'{e.name}: {b_ref.hex()[:120]} ({describe_values(descs, values)}) -> {m}', m.desc)
            r.ev('oracle_evals')
            try:
                b2 = bytes(parsed)
                if b2 != b_ref:
                    agg.add(f'{pre}/frombytes-reserialise', e, f'{e.name}: {b_ref.hex()[:120]} re-serialises to {b2.hex()[:120]}')
            except Exception as ex:
                agg.add(f'{pre}/frombytes-reserialise', e, f'{e.name}: bytes(parsed) raised {type(ex).__name__}: {ex}')
            r.ev('rebuilds')
            r.ev('oracle_evals')
            try:
                b3 = rebuild(e, parsed)
                if b3 != b_ref and fields_ok:
                    path, d, pos = ref.locate(layout, params_ref, b3[header_len(e):])
                    agg.add(f'{pre}/frombytes-rebuild', e,
                            f'{e.name}: {b_ref.hex()[:120]} parsed, rebuilt from its fields gives {b3.hex()[:120]} (field {path})', d)
            except Exception as ex:
                agg.add(f'{pre}/frombytes-rebuild-raises', e, f'{e.name}: rebuilding from parsed fields of {b_ref.hex()[:100]} raised {type(ex).__name__}: {ex}')
    return values, b_ref


def _strip_types(descs, values):
    """Address type is only recoverable from the wire for 'preceded' addresses."""
    out = {}
    for d in descs:
        if d.kind in ('group', 'maskgroup'):
            for s in d.sub:
                out[s.name] = [_strip_types([s], {s.name: x})[s.name] for x in values[s.name]]
        elif d.kind == 'addr':
            v = values[d.name]
            out[d.name] = (v[0], v[1] if d.addr == 'preceded' else None)
        elif d.kind == 'object':
            out[d.name] = _strip_types(d.sub, values[d.name])
        else:
            out[d.name] = values[d.name]
    return out


def check_structure(reg, e: Entry, r: R, agg: Agg):
    """bumble's derived `fields` list must have the structure the declaration gives."""
    if ref.handwritten(e.name) is not None or not dataclasses.is_dataclass(e.cls) or e.kind == 'codec':
        return
    r.ev('fields_structure_checks')
    r.ev('oracle_evals')
    mine = ref.structure(e.descs)
    theirs = ref.structure_of_fields(e.cls.fields)
    if mine != theirs:
        agg.add('roundtrip/' + e.kind + '/fields-structure', e, f'{e.name}.fields = {theirs}, declaration gives {mine}')


def classes_case(case, r: R):
    reg = registries()
    rng = random.Random(case['seed'])
    agg = Agg()
    sample = None
    for e in reg['entries']:
        if e.descs is None:
            r.ev('class_visits_unpopulated')
            r.add_extra_list('classes_unpopulated', f'{e.kind}:{e.name}: {e.why}')
            continue
        agg.saw(e)
        check_structure(reg, e, r, agg)
        n = case['per'] if e.descs else 1
        if e.kind == 'codec':
            n *= 10
        for i in range(n):
            v, b = one_instance(reg, e, rng, r, agg, short=False)
            if sample is None and e.descs and rng.random() < 0.01:
                sample = {'kind': 'classes', 'class': e.name, 'values': describe_values(e.descs, v, 200), 'bytes': b.hex()[:160]}
        if e.descs and any(d.kind == 'bytes' for d in _flat(e.descs)):
            for i in range(max(1, n // 2)):
                one_instance(reg, e, rng, r, agg, short=True)
    agg.flush(r)
    r.sample = sample or {'kind': 'classes', 'classes': len(reg['entries'])}


def sweep_case(case, r: R):
    """Every 8-bit value and every (quick: every 16th) 16-bit value through every integer
    path of the field language, on the synthetic all-paths object."""
    reg = registries()
    rng = random.Random(case['seed'] ^ 0x5)
    agg = Agg()
    for e in reg['entries']:
        if e.kind != 'codec' or e.descs is None:
            continue
        agg.saw(e)
        base = gen_instance(reg, e, rng)
        for v in range(case['lo'], case['hi'], case['step']):
            values = dict(base)
            for d in e.descs:
                subs = d.sub if d.kind == 'group' else [d]
                for sd in subs:
                    if sd.kind == 'uint':
                        bits = 8 * sd.size
                        x = v & ((1 << bits) - 1) if bits <= 16 else ((v << (bits - 16)) | (v >> (32 - bits))) & ((1 << bits) - 1)
                    elif sd.kind == 'sint':
                        bits = 8 * sd.size
                        x = (v & ((1 << bits) - 1)) - (1 << (bits - 1))
                    else:
                        continue
                    if d.kind == 'group':
                        values[sd.name] = [x for _ in values[sd.name]]
                    else:
                        values[sd.name] = x
            ref._fix_addr_types(rng, e.descs, values)
            r.ev('sweep_instances')
            one_instance(reg, e, rng, r, agg, False, values=values, from_bytes_too=False)
    agg.flush(r)
    r.sample = {'kind': 'sweep', 'range': [case['lo'], case['hi'], case['step']]}


def _flat(descs):
    for d in descs:
        yield d
        if d.sub:
            yield from _flat(d.sub)


def census_case(case, r: R):
    reg = registries()
    kinds = {}
    tags = {}
    syn = {}
    for e in reg['entries']:
        if e.kind == 'codec':
            r.ev('synthetic_classes')
            for d in _flat(e.descs or []):
                syn[d.tag] = syn.get(d.tag, 0) + 1
            continue
        r.ev('classes_registered')
        kinds[e.kind] = kinds.get(e.kind, 0) + 1
        if e.descs is None:
            r.ev('classes_unpopulated')
            r.add_extra_list('classes_unpopulated', f'{e.kind}:{e.name}: {e.why}')
        else:
            r.ev('classes_populated')
            for d in _flat(e.descs):
                tags[d.tag] = tags.get(d.tag, 0) + 1
    hci = reg['hci']
    sync = [e for e in reg['entries'] if e.kind == 'command' and issubclass(e.cls, hci.HCI_SyncCommand)]
    r.ev('sync_commands_registered', len(sync))
    r.extra['classes_by_registry'] = [f'{k}={v}' for k, v in sorted(kinds.items())]
    r.extra['field_paths_declared'] = [f'{k}={v}' for k, v in sorted(tags.items())]
    r.extra['field_paths_synthetic_object'] = [f'{k}={v}' for k, v in sorted(syn.items())]
    rp = {}
    for e in sync:
        rpc = getattr(e.cls, 'return_parameters_class', None)
        try:
            for d in _flat(ref.describe_class(rpc)):
                rp[d.tag] = rp.get(d.tag, 0) + 1
        except ref.Unsupported as ex:
            r.add_extra_list('return_parameter_classes_unpopulated', f'{e.name}: {ex}')
    r.extra['field_paths_return_parameters'] = [f'{k}={v}' for k, v in sorted(rp.items())]
    r.extra.setdefault('return_parameter_classes_unpopulated', [])
    r.extra.setdefault('return_parameter_spec_layout_missing', [])
    r.extra.setdefault('return_parameter_classes_undeclared', [])
    r.extra.setdefault('classes_unpopulated', [])
    covered, uncovered = layout_table(reg)
    r.ev('layout_spec_classes_covered', len(covered))
    r.ev('layout_spec_classes_uncovered', len(uncovered))
    r.extra['layout_spec_uncovered'] = list(uncovered)
    r.evals()
    r.sample = {'kind': 'census', 'registries': kinds, 'field_paths': tags}


# =============================================================================
# generic: clause E
# =============================================================================
_LENS = (0, 1, 2, 3, 16, 127, 128, 254, 255)


def generic_case(case, r: R):
    reg = registries()
    hci = reg['hci']
    rng = random.Random(case['seed'] ^ 0xE)
    heavy = case.get('heavy')

    def chk(cond, key, detail):
        r.ev('generic_checks')
        r.check(cond, key, detail)

    def lens():
        return list(_LENS) + [rng.randint(0, 255) for _ in range(4 if heavy else 1)]

    # ---- commands -------------------------------------------------------------
    ops = set(op for op in hci.HCI_Command.command_names if op not in hci.HCI_Command.command_classes)
    ops |= set(reg['unregistered_ops'])
    while len(ops) < (600 if heavy else 200):
        op = rng.getrandbits(16)
        if op not in hci.HCI_Command.command_classes:
            ops.add(op)
    for op in sorted(ops):
        for n in (lens() if heavy else [rng.choice(_LENS), rng.randint(0, 255)]):
            params = ref.gen_bytes(rng, n)
            b = ref.command_packet(op, params)
            r.evals()
            r.sig('generic', 'command', op, n)
            try:
                p = hci.HCI_Packet.from_bytes(b)
            except Exception as ex:
                chk(False, 'generic/command/raises', f'unregistered op code {op:#06x}, {n} parameter octets: {type(ex).__name__}: {ex}')
                continue
            chk(type(p) is hci.HCI_Command, 'generic/command/not-generic', f'op code {op:#06x} parsed as {type(p).__name__}')
            chk(getattr(p, 'op_code', None) == op, 'generic/command/op-code', f'op code {op:#06x} came back as {getattr(p, "op_code", None)}')
            chk(bytes(getattr(p, 'parameters', b'')) == params, 'generic/command/parameters-changed',
                f'op code {op:#06x}: parameters {params.hex()[:60]} -> {bytes(getattr(p, "parameters", b"")).hex()[:60]}')
            chk(bytes(p) == b, 'generic/command/bytes-changed', f'{b.hex()[:80]} -> {bytes(p).hex()[:80]}')
            try:
                q = hci.HCI_Command(parameters=p.parameters, op_code=p.op_code)
                chk(bytes(q) == b, 'generic/command/rebuild', f'{b.hex()[:80]} rebuilt as {bytes(q).hex()[:80]}')
            except Exception as ex:
                chk(False, 'generic/command/rebuild', f'{b.hex()[:80]}: {type(ex).__name__}: {ex}')

    # ---- events ---------------------------------------------------------------
    for code in range(256):
        if code in hci.HCI_Event.event_classes or code in (0x3E, 0xFF):
            continue
        for n in lens():
            params = ref.gen_bytes(rng, n)
            b = ref.event_packet(code, params)
            r.evals()
            r.sig('generic', 'event', code, n)
            try:
                p = hci.HCI_Packet.from_bytes(b)
            except Exception as ex:
                chk(False, 'generic/event/raises', f'unregistered event code {code:#04x}, {n} parameter octets: {type(ex).__name__}: {ex}')
                continue
            chk(type(p) is hci.HCI_Event, 'generic/event/not-generic', f'event code {code:#04x} parsed as {type(p).__name__}')
            chk(getattr(p, 'event_code', None) == code, 'generic/event/event-code', f'{code:#04x} came back as {getattr(p, "event_code", None)}')
            chk(bytes(p.parameters) == params, 'generic/event/parameters-changed', f'event {code:#04x}: {params.hex()[:60]} -> {bytes(p.parameters).hex()[:60]}')
            chk(bytes(p) == b, 'generic/event/bytes-changed', f'{b.hex()[:80]} -> {bytes(p).hex()[:80]}')
            try:
                q = hci.HCI_Event(parameters=p.parameters, event_code=p.event_code)
                chk(bytes(q) == b, 'generic/event/rebuild', f'{b.hex()[:80]} rebuilt as {bytes(q).hex()[:80]}')
            except Exception as ex:
                chk(False, 'generic/event/rebuild', f'{b.hex()[:80]}: {type(ex).__name__}: {ex}')

    # ---- LE meta sub-events -------------------------------------------------------
    for sub in range(256):
        if sub in hci.HCI_LE_Meta_Event.subevent_classes:
            continue
        for n in lens():
            n = min(n, 254)
            params = bytes([sub]) + ref.gen_bytes(rng, n)
            b = ref.event_packet(0x3E, params)
            r.evals()
            r.sig('generic', 'le-meta', sub, n)
            try:
                p = hci.HCI_Packet.from_bytes(b)
            except Exception as ex:
                chk(False, 'generic/le-meta/raises', f'unregistered sub-event {sub:#04x}, {n} octets: {type(ex).__name__}: {ex}')
                continue
            chk(type(p) is hci.HCI_LE_Meta_Event, 'generic/le-meta/not-generic', f'sub-event {sub:#04x} parsed as {type(p).__name__}')
            chk(getattr(p, 'subevent_code', None) == sub and p.event_code == 0x3E, 'generic/le-meta/subevent-code',
                f'{sub:#04x} came back as {getattr(p, "subevent_code", None)}')
            chk(bytes(p.parameters) == params, 'generic/le-meta/parameters-changed', f'{params.hex()[:60]} -> {bytes(p.parameters).hex()[:60]}')
            chk(bytes(p) == b, 'generic/le-meta/bytes-changed', f'{b.hex()[:80]} -> {bytes(p).hex()[:80]}')

    # ---- vendor events --------------------------------------------------------------
    def vendor(params, key_suffix=''):
        b = ref.event_packet(0xFF, params)
        r.evals()
        r.sig('generic', 'vendor', params[:1].hex(), len(params))
        try:
            p = hci.HCI_Packet.from_bytes(b)
        except Exception as ex:
            chk(False, 'generic/vendor-event/raises' + key_suffix, f'vendor event {b.hex()[:60]}: {type(ex).__name__}: {ex}')
            return
        chk(type(p) is hci.HCI_Vendor_Event, 'generic/vendor-event/not-generic' + key_suffix, f'{b.hex()[:60]} parsed as {type(p).__name__}')
        chk(bytes(getattr(p, 'data', b'')) == params, 'generic/vendor-event/parameters-changed' + key_suffix,
            f'{params.hex()[:60]} -> {bytes(getattr(p, "data", b"")).hex()[:60]}')
        chk(bytes(p) == b, 'generic/vendor-event/bytes-changed' + key_suffix, f'{b.hex()[:80]} -> {bytes(p).hex()[:80]}')

    for first in range(256):
        if first in reg['vendor_codes']:
            continue
        for n in lens():
            n = min(n, 254)
            vendor(bytes([first]) + ref.gen_bytes(rng, n))
    # nothing a vendor factory can claim: no parameters at all / only a claimed code octet
    vendor(b'', '/empty')
    for c in sorted(reg['vendor_codes']):
        vendor(bytes([c]), '/code-octet-only')
    # a claimed sub-event code whose second octet selects a layout the factory does not have: Android's
    # Bluetooth Quality Report (0x58) defines the link-quality layout for report ids 1-4 and 7-9 only (5 is
    # Root Inflammation, 6 Energy Monitoring, with layouts of their own; everything else is unassigned), so
    # all other report ids are events Bumble does not know, of any length
    if 0x58 in reg['vendor_codes']:
        for rid in range(256):
            if rid in (1, 2, 3, 4, 7, 8, 9):
                continue
            for n in (2, 4, 6, rng.randint(7, 83), 84, 85, rng.randint(86, 255)):
                vendor(bytes([0x58, rid]) + ref.gen_bytes(rng, n - 2), '/bqr-report-id-without-layout')
                r.ev('vendor_bqr_unknown_report_ids')
    # a factory that declines everything must not change the outcome
    declined = []

    def decliner(parameters):
        declined.append(len(parameters))
        return None

    hci.HCI_Event.add_vendor_factory(decliner)
    try:
        for n in (1, 2, 40, 255):
            first = next(c for c in range(rng.randint(0, 200), 256) if c not in reg['vendor_codes'])
            vendor(bytes([first]) + ref.gen_bytes(rng, n - 1), '/declining-factory')
    finally:
        hci.HCI_Event.remove_vendor_factory(decliner)
    chk(len(declined) >= 4 and decliner not in hci.HCI_Event.vendor_factories, 'generic/vendor-event/factory-not-consulted',
        f'declining factory consulted {len(declined)} times')

    # ---- unknown packet types ---------------------------------------------------------
    for t in [0, 6, 7, 8, 9, 0x10, 0x7F, 0x80, 0xFE, 0xFF]:
        for n in (0, 1, 5, 300):
            b = bytes([t]) + ref.gen_bytes(rng, n)
            r.evals()
            r.sig('generic', 'type', t, n)
            try:
                p = hci.HCI_Packet.from_bytes(b)
            except Exception as ex:
                chk(False, 'generic/packet-type/raises', f'{b.hex()[:40]}: {type(ex).__name__}: {ex}')
                continue
            chk(type(p) is hci.HCI_CustomPacket and p.hci_packet_type == t, 'generic/packet-type/not-generic', f'{b.hex()[:40]} parsed as {type(p).__name__}')
            chk(bytes(p) == b, 'generic/packet-type/bytes-changed', f'{b.hex()[:40]} -> {bytes(p).hex()[:40]}')
    r.sample = {'kind': 'generic', 'unregistered_op_codes_tried': len(ops),
                'event_codes_tried': 256 - len(hci.HCI_Event.event_classes) - 1,
                'le_subevent_codes_tried': 256 - len(hci.HCI_LE_Meta_Event.subevent_classes)}


# =============================================================================
# cmdcomplete: clause F
# =============================================================================
class RpEntry:
    """Looks like an Entry for Agg."""

    def __init__(self, cmd: Entry, descs):
        self.cmd = cmd
        self.descs = descs
        self.name = cmd.name
        self.kind = 'cmdcomplete'


def declared_rp_class(hci, cmd_cls):
    """The return-parameters class a sync command names in its own bases
    (`class X(HCI_SyncCommand[RP])`), found without looking at what was registered."""
    import typing
    for k in cmd_cls.__mro__:
        for b in k.__dict__.get('__orig_bases__', ()):
            origin = typing.get_origin(b)
            if isinstance(origin, type) and issubclass(origin, hci.HCI_SyncCommand):
                args = typing.get_args(b)
                if args and isinstance(args[0], type):
                    return args[0]
    return None


def _rp_attr_matches(v, chunk):
    """An attribute parsed from `chunk` (little-endian integer, BD_ADDR or octet array)."""
    n = len(chunk)
    if hasattr(v, 'address_bytes'):
        return bytes(v.address_bytes) == chunk
    if isinstance(v, (bytes, bytearray)):
        return bytes(v) == chunk
    if isinstance(v, int):
        return int(v) & ((1 << (8 * n)) - 1) == int.from_bytes(chunk, 'little')
    if hasattr(v, '__bytes__'):
        return bytes(v) == chunk
    return False


def rp_spec_checks(reg, e: Entry, pe, declared, rng, r: R, agg: Agg, n, cc_bytes):
    """Clause H: return parameters shaped as the Core specification (vlib/ref_hci_rp.py, written
    down per op code, not derived from bumble) come back as the class the command declares, with one
    attribute per spec parameter holding the octets at the spec offset, re-serialise unchanged, and a
    fresh object built from the parsed attributes serialises to the same (spec-length) octets."""
    hci = reg['hci']
    CC = hci.HCI_Command_Complete_Event
    op = e.code
    layout = rp_spec.RETURN_PARAMETERS.get(op)
    if layout is None:
        r.ev('rp_spec_table_missing')
        r.add_extra_list('return_parameter_spec_layout_missing', f'{op:#06x} {e.name}')
        return
    names = [f.name for f in dataclasses.fields(declared)] if dataclasses.is_dataclass(declared) else []
    positional = len(names) == rp_spec.field_count(layout)
    for _ in range(n):
        rp_bytes, parts = rp_spec.generate(rng, layout, ref.gen_bytes)
        num = rng.choice([0, 1, 1, 2, 255])
        b = cc_bytes(num, op, rp_bytes)
        what = f'{e.name}: spec-shaped return parameters {rp_bytes.hex()[:80]} ({len(rp_bytes)} octets, layout {layout})'
        r.evals()
        r.ev('rp_spec_layout_checks')
        r.ev('cmdcomplete_checks')
        r.ev('oracle_evals')
        r.sig('cc', e.name, 'spec', tuple(p[2] for p in parts if p[0] != 'f'))
        try:
            p = hci.HCI_Packet.from_bytes(b)
            rp = p.return_parameters
        except Exception as ex:
            agg.add('cmdcomplete/spec-layout/parse-raises', pe, f'{what}: {type(ex).__name__}: {ex}')
            continue
        if type(p) is not CC or type(rp) is not declared:
            agg.add('cmdcomplete/spec-layout/rp-class', pe, f'{what}: parsed as {type(p).__name__} with {type(rp).__name__}, '
                                                            f'command declares {declared.__name__}')
            continue
        try:
            if bytes(p) != b:
                agg.add('cmdcomplete/spec-layout/reserialise', pe, f'{what} -> {bytes(p).hex()[:100]}')
        except Exception as ex:
            agg.add('cmdcomplete/spec-layout/reserialise', pe, f'{what}: bytes(parsed) raised {type(ex).__name__}: {ex}')
        # one attribute per spec parameter, holding the octets found at the spec offset
        if positional:
            r.ev('rp_spec_field_checks')
            r.ev('oracle_evals')
            i = 0
            for part in parts:
                if part[0] == 'n':
                    _k, off, count, sizes = part
                    pos = off + 1
                    lists = [getattr(rp, names[i + j], None) for j in range(len(sizes))]
                    if any(not isinstance(x, (list, tuple)) or len(x) != count for x in lists):
                        agg.add('cmdcomplete/spec-layout/array-count', pe, f'{what}: {count} items at offset {off}, parsed '
                                f'{[len(x) if isinstance(x, (list, tuple)) else x for x in lists]}')
                    else:
                        for it in range(count):
                            for j, sz in enumerate(sizes):
                                if not _rp_attr_matches(lists[j][it], rp_bytes[pos:pos + sz]):
                                    agg.add('cmdcomplete/spec-layout/field', pe, f'{what}: {names[i + j]}[{it}]={lists[j][it]!r} but the '
                                            f'spec puts {rp_bytes[pos:pos + sz].hex()} there (offset {pos}, {sz} octets)')
                                pos += sz
                    i += len(sizes)
                else:
                    _k, off, sz = part
                    v = getattr(rp, names[i], _MISSING)
                    if v is _MISSING or not _rp_attr_matches(v, rp_bytes[off:off + sz]):
                        agg.add('cmdcomplete/spec-layout/field', pe, f'{what}: {names[i]}={v if v is not _MISSING else "missing"!r} but the spec '
                                f'puts {rp_bytes[off:off + sz].hex()[:40]} there (offset {off}, {sz} octets)')
                    i += 1
        # a fresh object built from the parsed attributes (what a controller does)
        r.ev('rp_spec_rebuilds')
        r.ev('oracle_evals')
        try:
            fresh = declared(**{nm: getattr(rp, nm) for nm in names})
            q = CC(num_hci_command_packets=num, command_opcode=op, return_parameters=fresh)
            got = bytes(q)[6:]
            if len(got) != len(rp_bytes):
                agg.add('cmdcomplete/spec-layout/built-length', pe,
                        f'{what}: {declared.__name__} built from the parsed fields serialises to {len(got)} octets {got.hex()[:80]}')
            elif got != rp_bytes:
                agg.add('cmdcomplete/spec-layout/built-bytes', pe, f'{what}: built from the parsed fields {got.hex()[:80]}')
        except Exception as ex:
            agg.add('cmdcomplete/spec-layout/built-raises', pe, f'{what}: {type(ex).__name__}: {ex}')


def cmdcomplete_case(case, r: R):
    reg = registries()
    hci = reg['hci']
    rng = random.Random(case['seed'] ^ 0xF)
    agg = Agg()
    CC = hci.HCI_Command_Complete_Event
    sample = None

    def cc_bytes(num, op, rp_bytes):
        return ref.event_packet(0x0E, bytes([num, op & 0xFF, op >> 8]) + rp_bytes)

    for e in reg['entries']:
        if e.kind != 'command':
            continue
        op = e.code
        if not issubclass(e.cls, hci.HCI_SyncCommand):
            # Command Complete for a command without return-parameter class: generic, data kept
            for n in (0, 1, rng.randint(0, 252)):
                data = ref.gen_bytes(rng, n)
                b = cc_bytes(1, op, data)
                r.evals()
                r.ev('cmdcomplete_checks')
                r.ev('oracle_evals')
                r.sig('cc', e.name, 'async', n)
                try:
                    p = hci.HCI_Packet.from_bytes(b)
                    rp = p.return_parameters
                    ok = type(p) is CC and type(rp) is hci.HCI_GenericReturnParameters and bytes(rp.data) == data and bytes(p) == b \
                        and p.command_opcode == op
                    if not ok:
                        r.bad('cmdcomplete/no-rp-class/not-preserved', f'{e.name}: {b.hex()[:80]} -> {type(rp).__name__} {getattr(rp, "data", None)!r}')
                except Exception as ex:
                    r.bad('cmdcomplete/no-rp-class/raises', f'{e.name}: {b.hex()[:80]}: {type(ex).__name__}: {ex}')
            continue
        registered = getattr(e.cls, 'return_parameters_class', None)
        # the class the command itself names (HCI_SyncCommand[...]) is the statement of intent;
        # what the decorator registered is what from_parameters / the controller side really use
        rpc = declared_rp_class(hci, e.cls)
        r.ev('rp_declared_class_checks')
        r.ev('oracle_evals')
        if rpc is None:
            r.ev('rp_declared_class_unknown')
            r.add_extra_list('return_parameter_classes_undeclared', e.name)
            rpc = registered
        try:
            descs = ref.describe_class(rpc)
        except ref.Unsupported as ex:
            r.ev('rp_class_visits_unpopulated')
            r.add_extra_list('return_parameter_classes_unpopulated', f'{e.name}: {ex}')
            continue
        pe = RpEntry(e, descs)
        agg.saw(pe)
        if registered is not rpc:
            agg.add('cmdcomplete/rp-class-registration', pe,
                    f'{e.name} is declared as HCI_SyncCommand[{rpc.__name__}] but registered with '
                    f'return_parameters_class={getattr(registered, "__name__", registered)}: a Command Complete for op code '
                    f'{op:#06x} is parsed as / serialised from the other class')
        rp_spec_checks(reg, e, pe, rpc, rng, r, agg, case['per'], cc_bytes)
        has_status = issubclass(rpc, hci.HCI_StatusReturnParameters) and descs and descs[0].name == 'status'
        r.ev('oracle_evals')
        mine, theirs = ref.structure(descs), ref.structure_of_fields(rpc.fields)
        if mine != theirs:
            agg.add('cmdcomplete/fields-structure', pe, f'{rpc.__name__}.fields = {theirs}, declaration gives {mine}')
        for i in range(case['per']):
            # ---------- success: full return parameters --------------------------
            budget = ref.Budget(252 - ref.min_size(descs))
            values = ref.gen_values(rng, descs, budget)
            if has_status:
                values['status'] = 0
            num = rng.choice([0, 1, 1, 2, 255])
            rp_ref, layout = ref.encode(descs, values)
            b = cc_bytes(num, op, rp_ref)
            expect = ref.canonical(descs, values)
            ctx = f'{e.name} complete, {rpc.__name__}({describe_values(descs, values)})'
            r.evals()
            r.ev('cmdcomplete_checks')
            r.sig('cc', e.name, 'ok', shape_of(descs, values))
            if sample is None and rng.random() < 0.02:
                sample = {'kind': 'cmdcomplete', 'command': e.name, 'return_parameters': describe_values(descs, values, 200), 'bytes': b.hex()[:160]}
            p = None
            try:
                p = hci.HCI_Packet.from_bytes(b)
            except Exception as ex:
                agg.add('cmdcomplete/parse-raises', pe, f'{ctx}: {b.hex()[:120]}: {type(ex).__name__}: {ex}')
            if p is not None:
                r.ev('oracle_evals', 3)
                if type(p) is not CC or p.command_opcode != op or p.num_hci_command_packets != num:
                    agg.add('cmdcomplete/event-fields', pe, f'{ctx}: parsed as {type(p).__name__} opcode={getattr(p, "command_opcode", None)} num={getattr(p, "num_hci_command_packets", None)}')
                elif type(p.return_parameters) is not rpc:
                    agg.add('cmdcomplete/rp-class', pe, f'{ctx}: return parameters parsed as {type(p.return_parameters).__name__}, command declares {rpc.__name__}')
                else:
                    try:
                        compare(descs, expect, plain_obj(descs, p.return_parameters))
                    except Mismatch as m:
                        agg.add('cmdcomplete/rp-field', pe, f'{ctx}: {b.hex()[:100]} -> {m}', m.desc)
                    try:
                        if bytes(p) != b:
                            agg.add('cmdcomplete/reserialise', pe, f'{ctx}: {b.hex()[:100]} -> {bytes(p).hex()[:100]}')
                        # B: rebuild event from the parsed objects
                        q = CC(num_hci_command_packets=p.num_hci_command_packets, command_opcode=p.command_opcode,
                               return_parameters=p.return_parameters)
                        if bytes(q) != b:
                            path, d, pos = ref.locate(layout, rp_ref, bytes(q)[6:])
                            agg.add('cmdcomplete/rebuild', pe, f'{ctx}: rebuilt event {bytes(q).hex()[:100]} != {b.hex()[:100]} (field {path})', d)
                    except Exception as ex:
                        agg.add('cmdcomplete/rebuild-raises', pe, f'{ctx}: {type(ex).__name__}: {ex}')
            # ---------- build direction (what a controller does) -------------------
            r.ev('cmdcomplete_checks')
            r.ev('oracle_evals')
            try:
                rp_obj = rpc(**to_bumble(hci, rng, descs, values))
                ev = CC(num_hci_command_packets=num, command_opcode=op, return_parameters=rp_obj)
                b1 = bytes(ev)
                if b1 != b:
                    path, d, pos = ref.locate(layout, rp_ref, b1[6:])
                    agg.add('cmdcomplete/build-layout', pe, f'{ctx}: built {b1.hex()[:100]} reference {b.hex()[:100]} (field {path})', d)
            except Exception as ex:
                agg.add('cmdcomplete/build-raises', pe, f'{ctx}: {type(ex).__name__}: {ex}')
            # ---------- class-specific parser documented to accept older, shorter layouts ----
            if 'parse_return_parameters' in e.cls.__dict__ and not any(d.kind in ('group', 'rest', 'v', 'object') for d in descs):
                cuts = [start for _p, start, _l, _d in layout][1:]
                for cut in cuts:
                    bt = cc_bytes(num, op, rp_ref[:cut])
                    r.evals()
                    r.ev('cmdcomplete_checks')
                    r.ev('cmdcomplete_truncated_layout_checks')
                    r.ev('oracle_evals')
                    r.sig('cc', e.name, 'cut', cut)
                    try:
                        p = hci.HCI_Packet.from_bytes(bt)
                        got = plain_obj(descs, p.return_parameters)
                        kept = [d for (_p, start, _l, d) in layout if start < cut]
                        compare(kept, expect, got)
                        if bytes(p) != bt:
                            agg.add('cmdcomplete/shorter-layout/bytes-changed', pe, f'{e.name}: {bt.hex()[:80]} -> {bytes(p).hex()[:80]}')
                    except Mismatch as m:
                        agg.add('cmdcomplete/shorter-layout/field', pe, f'{e.name}: return parameters cut after {cut} octets {bt.hex()[:80]} -> {m}', m.desc)
                    except Exception as ex:
                        agg.add('cmdcomplete/shorter-layout/raises', pe, f'{e.name}: return parameters cut after {cut} octets {bt.hex()[:80]}: {type(ex).__name__}: {ex}')
            # ---------- failure: non-zero status ---------------------------------------
            if has_status:
                st = rng.choice([0x01, 0x02, 0x0C, 0x11, 0x12, 0x1F, 0x3A, 0x7F, 0x80, 0xFF])
                v2 = dict(values)
                v2['status'] = st
                full, _ = ref.encode(descs, v2)
                for form, rp_bytes in (('status-only', bytes([st])), ('full-length', full)):
                    b = cc_bytes(num, op, rp_bytes)
                    r.evals()
                    r.ev('cmdcomplete_checks')
                    r.ev('cmdcomplete_error_status_checks')
                    r.ev('oracle_evals')
                    r.sig('cc', e.name, form, st)
                    try:
                        p = hci.HCI_Packet.from_bytes(b)
                    except Exception as ex:
                        agg.add(f'cmdcomplete/error-status/{form}/raises', pe, f'{e.name} complete with status {st:#04x} ({form}) {b.hex()[:80]}: {type(ex).__name__}: {ex}')
                        continue
                    rp = getattr(p, 'return_parameters', None)
                    if type(p) is not CC or not isinstance(rp, hci.HCI_StatusReturnParameters):
                        agg.add(f'cmdcomplete/error-status/{form}/not-status', pe, f'{e.name} status {st:#04x}: return parameters {type(rp).__name__}')
                    elif int(rp.status) != st:
                        agg.add(f'cmdcomplete/error-status/{form}/status-changed', pe, f'{e.name}: status {st:#04x} came back as {int(rp.status):#04x}')
                    elif bytes(p) != b:
                        agg.add(f'cmdcomplete/error-status/{form}/bytes-changed', pe, f'{e.name}: {b.hex()[:80]} -> {bytes(p).hex()[:80]}')
    # Command Complete for op codes nothing is registered for (incl. the NOP op code 0)
    for op in reg['unregistered_ops']:
        for n in (0, 1, 4, 252):
            data = ref.gen_bytes(rng, n)
            b = cc_bytes(1, op, data)
            r.evals()
            r.ev('cmdcomplete_checks')
            r.ev('oracle_evals')
            r.sig('cc', 'unregistered', op, n)
            try:
                p = hci.HCI_Packet.from_bytes(b)
                rp = p.return_parameters
                if not (type(p) is CC and type(rp) is hci.HCI_GenericReturnParameters and bytes(rp.data) == data and bytes(p) == b):
                    r.bad('cmdcomplete/unregistered-opcode/not-preserved', f'op {op:#06x}: {b.hex()[:80]} -> {type(rp).__name__}')
            except Exception as ex:
                r.bad('cmdcomplete/unregistered-opcode/raises', f'op {op:#06x}: {b.hex()[:80]}: {type(ex).__name__}: {ex}')
    agg.flush(r)
    r.sample = sample or {'kind': 'cmdcomplete'}


# =============================================================================
# layout: clause L -- command / event / sub-event parameters vs the specification's layout
# =============================================================================
_LAYOUT = None


def _name_shape(struct):
    return (frozenset(x for x in struct if not isinstance(x, list)),
            frozenset(frozenset(x) for x in struct if isinstance(x, list)))


def layout_table(reg):
    """[(entry, tokens)] for every registered class the specification table states and whose
    attribute names are the table's; everything else goes to `uncovered` with the reason."""
    global _LAYOUT
    if _LAYOUT is not None:
        return _LAYOUT
    covered, uncovered = [], []
    for e in reg['entries']:
        if e.kind == 'codec':
            continue
        text = lay.layout_text(e.kind, e.code)
        if text is None:
            why = lay.NOT_STATED.get((e.kind, e.code), 'no entry in vlib/ref_hci_layout.py')
            uncovered.append(f'{e.kind}:{e.code:#06x} {e.name}: {why}')
            continue
        toks = lay.parse(text)
        hw = ref.handwritten(e.name)
        if hw is not None:
            # classes outside the field language: the attribute / keyword names only
            theirs = [[x.name for x in d.sub] if d.kind in ('group', 'maskgroup') else d.name for d in hw]
        else:
            theirs = ref.structure_of_fields(getattr(e.cls, 'fields', None) or [])
        mine = lay.names(toks)
        ok = _name_shape(mine) == _name_shape(theirs)
        for t in toks:
            if ok and t.kind == 'group' and t.obj:
                item = getattr(e.cls, 'Report', None)
                got = [f.name for f in dataclasses.fields(item)] if dataclasses.is_dataclass(item) else None
                if got is None or set(got) != {s.name for s in t.sub}:
                    ok = False
                    theirs = got
                    mine = [s.name for s in t.sub]
        if not ok:
            uncovered.append(f'{e.kind}:{e.code:#06x} {e.name}: parameter names differ, class exposes {theirs}, '
                             f'specification has {mine}')
            continue
        covered.append((e, toks))
    _LAYOUT = (covered, uncovered)
    return _LAYOUT


def _lay_cmp(hci, t, want, got, path):
    """None when `got` (an attribute of the parsed object) is what the specification puts there,
    else (path, message)."""
    k = t.kind

    def show(x):
        return x.hex() if isinstance(x, (bytes, bytearray)) else repr(x)

    if got is _MISSING:
        return path, 'attribute missing'
    if k in ('u', 's', 'x'):
        if isinstance(got, bool) or not isinstance(got, int):
            return path, f'expected an integer, got {type(got).__name__} {got!r}'
        if k == 'x':
            if (int(got) - want) % (1 << (8 * t.size)):
                return path, f'{int(got)} != {want} (mod 2^{8 * t.size})'
        elif int(got) != want:
            return path, f'{int(got)} != specification value {want} ({"signed" if k == "s" else "unsigned"} {t.size} octets)'
        return None
    if k in ('addr', 'taddr'):
        if not hasattr(got, 'address_bytes'):
            return path, f'expected an Address, got {type(got).__name__}'
        if bytes(got.address_bytes) != want[0]:
            return path, f'address octets {bytes(got.address_bytes).hex()} != {want[0].hex()}'
        if k == 'taddr' and int(got.address_type) != want[1]:
            return path + '.type', f'address type {int(got.address_type)} != {want[1]} (the octet before the address)'
        return None
    if k in ('bytes', 'v', 'rest', 'lpv'):
        try:
            gb = bytes(got)
        except Exception:
            return path, f'expected bytes, got {type(got).__name__}'
        if isinstance(got, int) or gb != want:
            return path, f'{show(gb)[:60]} != {show(want)[:60]}'
        return None
    if k == 'codec':
        try:
            g3 = (int(got.codec_id), int(got.company_id), int(got.vendor_specific_codec_id))
        except Exception:
            return path, f'expected a coding format, got {got!r}'
        return None if g3 == want else (path, f'{g3} != {want}')
    raise ValueError(k)


def _lay_compare(hci, toks, values, obj, prefix=''):
    for t in toks:
        if t.kind in ('group', 'maskgroup'):
            items = values[t.name]
            if t.obj:
                lst = getattr(obj, t.obj, _MISSING)
                if not isinstance(lst, (list, tuple)) or len(lst) != len(items):
                    return prefix + t.obj + '#count', f'{len(lst) if isinstance(lst, (list, tuple)) else lst!r} items, specification octets hold {len(items)}'
                for i, item in enumerate(items):
                    m = _lay_compare(hci, t.sub, item, lst[i], f'{prefix}{t.obj}.')
                    if m:
                        return m
                continue
            for s in t.sub:
                lst = getattr(obj, s.name, _MISSING)
                if not isinstance(lst, (list, tuple)) or len(lst) != len(items):
                    return prefix + s.name + '#count', f'{len(lst) if isinstance(lst, (list, tuple)) else lst!r} items, specification octets hold {len(items)}'
            for i, item in enumerate(items):
                for s in t.sub:
                    m = _lay_cmp(hci, s, item[s.name], getattr(obj, s.name)[i], prefix + s.name)
                    if m:
                        return m
            continue
        m = _lay_cmp(hci, t, values[t.name], getattr(obj, t.name, _MISSING), prefix + t.name)
        if m:
            return m
    return None


def _lay_to_bumble(hci, e, toks, values):
    def one(t, v):
        if t.kind == 'addr':
            return hci.Address(v[0], hci.AddressType(0))
        if t.kind == 'taddr':
            return hci.Address(v[0], hci.AddressType(v[1]))
        if t.kind == 'codec':
            return hci.CodingFormat(hci.CodecID(v[0]), v[1], v[2])
        return v
    out = {}
    for t in toks:
        if t.kind in ('group', 'maskgroup'):
            items = values[t.name]
            if t.obj:
                out[t.obj] = [e.cls.Report(**_lay_to_bumble(hci, e, t.sub, it)) for it in items]
            else:
                for s in t.sub:
                    out[s.name] = [one(s, it[s.name]) for it in items]
        else:
            out[t.name] = one(t, values[t.name])
    return out


def _lay_culprit(hci, e, toks, values):
    """Name of the integer parameter whose value the class refuses (found by setting one
    integer at a time to 0), or 'unknown'."""
    def variants(toks, values):
        for t in toks:
            if t.kind in ('u', 's', 'x') and values[t.name] != 0:
                v = dict(values)
                v[t.name] = 0
                yield t.name, v
            elif t.kind in ('group', 'maskgroup') and t.kind == 'group':
                for s in t.sub:
                    if s.kind in ('u', 's', 'x'):
                        v = dict(values)
                        v[t.name] = [dict(it, **{s.name: 0}) for it in values[t.name]]
                        yield s.name, v
    for name, v in variants(toks, values):
        try:
            bytes(e.cls(**_lay_to_bumble(hci, e, toks, v)))
            return name
        except Exception:
            continue
    return 'unknown'


def _lay_show(values, limit=260):
    def show(x):
        if isinstance(x, (bytes, bytearray)):
            return x.hex() if len(x) <= 16 else f'{x[:8].hex()}..({len(x)})'
        if isinstance(x, tuple):
            return '(' + ','.join(show(y) for y in x) + ')'
        if isinstance(x, list):
            return '[' + ','.join(show(y) for y in x[:3]) + (',..' if len(x) > 3 else '') + ']'
        if isinstance(x, dict):
            return '{' + ','.join(f'{k}={show(y)}' for k, y in x.items()) + '}'
        return repr(x)
    s = ', '.join(f'{k}={show(v)}' for k, v in values.items())
    return s if len(s) <= limit else s[:limit] + '...'


def layout_case(case, r: R):
    reg = registries()
    hci = reg['hci']
    rng = random.Random(case['seed'] ^ 0x1A)
    covered, uncovered = layout_table(reg)
    r.extra.setdefault('layout_spec_uncovered', [])
    for u in uncovered:
        l = r.extra['layout_spec_uncovered']
        if u not in l:
            l.append(u)
    seen = {}

    def bad(key, detail):
        # one parse finding and one build finding per class and case: the first profile (all octets
        # distinct) names the parameter precisely, later profiles would only echo it in its neighbours
        slot = tuple(key.split('/')[2:4])
        if slot not in seen:
            seen[slot] = 1
            r.bad(key, detail)

    sample = None
    for e, toks in covered:
        r.ev('layout_spec_class_visits')
        base = f'layout/spec/{e.name}'
        profiles = list(lay.PROFILES) + ['random'] * case['per']
        for prof in profiles:
            if not toks and prof != 'distinct':
                continue
            values, params, parts = lay.generate(rng, toks, prof, e.limit)
            b = header(e, params)
            what = f'{e.name} {prof}: specification-shaped parameters {params.hex()[:120]} ({_lay_show(values)})'
            r.evals()
            r.sig('layout', e.name, prof if prof != 'random' else tuple(len(p) for p in parts[:4]) + (len(params),))
            if sample is None and toks and rng.random() < 0.01:
                sample = {'kind': 'layout', 'class': e.name, 'profile': prof, 'bytes': b.hex()[:160], 'values': _lay_show(values, 200)}
            # ---- (a) specification octets -> object: every exposed field is the reference value ----
            r.ev('layout_spec_parse_checks')
            r.ev('oracle_evals')
            p = None
            try:
                p = hci.HCI_Packet.from_bytes(b)
            except Exception as ex:
                bad(f'{base}/parse/raises', f'{what}: from_bytes raised {type(ex).__name__}: {ex}')
            if p is not None:
                if type(p) is not e.cls:
                    bad(f'{base}/parse/class', f'{what}: parsed as {type(p).__name__}')
                else:
                    r.ev('layout_spec_field_compares', len(parts))
                    m = _lay_compare(hci, toks, values, p)
                    if m:
                        bad(f'{base}/parse/{m[0]}', f'{what}: field {m[0]}: {m[1]}')
                    try:
                        if bytes(p) != b:
                            bad(f'{base}/parse/reserialise', f'{what}: re-serialises to {bytes(p).hex()[:120]}')
                    except Exception as ex:
                        bad(f'{base}/parse/reserialise', f'{what}: bytes(parsed) raised {type(ex).__name__}: {ex}')
            # ---- (b) object built from the field values -> octets, width by width ------------------------
            r.ev('layout_spec_build_checks')
            r.ev('oracle_evals')
            try:
                b1 = bytes(e.cls(**_lay_to_bumble(hci, e, toks, values)))
            except Exception as ex:
                bad(f'{base}/build/raises/{_lay_culprit(hci, e, toks, values)}',
                    f'{what}: building from the field values raised {type(ex).__name__}: {ex}')
                continue
            hl = header_len(e)
            if b1[:hl] != b[:hl] and len(b1) - hl == len(params):
                bad(f'{base}/build/header', f'{what}: header {b1[:hl].hex()} != {b[:hl].hex()}')
                continue
            got = b1[hl:]
            r.ev('layout_spec_width_compares', len(parts))
            for path, off, n, t in parts:
                if got[off:off + n] != params[off:off + n]:
                    bad(f'{base}/build/{path.split("].")[-1].split("#")[0] if "]." in path else path}',
                        f'{what}: built octets {got[off:off + n].hex()[:40]} at offset {off} where the specification puts '
                        f'{path} = {params[off:off + n].hex()[:40]} ({n} octets); built parameters {got.hex()[:120]}')
                    break
            else:
                if len(got) != len(params) or b1[:hl] != b[:hl]:
                    bad(f'{base}/build/length', f'{what}: built {len(got)} parameter octets {got.hex()[:120]}, header {b1[:hl].hex()}')
    r.sample = sample or {'kind': 'layout', 'classes_covered': len(covered), 'classes_uncovered': len(uncovered)}



# =============================================================================
# data packets: clause G
# =============================================================================
HANDLES = (0, 1, 0x0EFF, 0x0FFF)


def data_case(case, r: R):
    reg = registries()
    hci = reg['hci']
    rng = random.Random(case['seed'] ^ 0x6)

    def chk(cond, key, detail):
        r.ev('data_checks')
        return r.check(cond, key, detail)

    # ---------------- ACL -------------------------------------------------------
    def acl(handle, pb, bc, n):
        data = ref.gen_bytes(rng, n)
        b = ref.acl_packet(handle, pb, bc, data)
        r.evals()
        r.sig('acl', handle in HANDLES and handle, pb, bc, n if n in (0, 1, 255, 256, 65535) else -1)
        try:
            o = hci.HCI_AclDataPacket(connection_handle=handle, pb_flag=pb, bc_flag=bc, data_total_length=n, data=data)
            b1 = bytes(o)
            chk(b1 == b, 'data/acl/layout', f'handle={handle:#x} pb={pb} bc={bc} len={n}: {b1[:8].hex()} != reference {b[:8].hex()}')
        except Exception as ex:
            chk(False, 'data/acl/build-raises', f'handle={handle:#x} pb={pb} bc={bc} len={n}: {type(ex).__name__}: {ex}')
        try:
            p = hci.HCI_Packet.from_bytes(b)
        except Exception as ex:
            chk(False, 'data/acl/parse-raises', f'{b[:8].hex()} len={n}: {type(ex).__name__}: {ex}')
            return
        chk(type(p) is hci.HCI_AclDataPacket, 'data/acl/wrong-class', type(p).__name__)
        got = (p.connection_handle, p.pb_flag, p.bc_flag, p.data_total_length, bytes(p.data))
        chk(got == (handle, pb, bc, n, data), 'data/acl/field', f'{b[:8].hex()}: parsed {got[:4]} expected {(handle, pb, bc, n)}')
        chk(bytes(p) == b, 'data/acl/reserialise', f'{b[:8].hex()} -> {bytes(p)[:8].hex()}')
        q = hci.HCI_AclDataPacket(p.connection_handle, p.pb_flag, p.bc_flag, p.data_total_length, p.data)
        chk(bytes(q) == b, 'data/acl/rebuild', f'{b[:8].hex()} -> {bytes(q)[:8].hex()}')

    for handle in HANDLES:
        for pb in range(4):
            for bc in range(4):
                for n in (0, 1, 255, 256, 65535):
                    acl(handle, pb, bc, n)
    for _ in range(case['random']):
        acl(ref.gen_uint(rng, 12), rng.randrange(4), rng.randrange(4), rng.choice([0, 1, 2, 27, 251, 255, 256, 1021, rng.randint(0, 2048)]))

    # ---------------- SCO -------------------------------------------------------
    def sco(handle, st, n):
        data = ref.gen_bytes(rng, n)
        b = ref.sco_packet(handle, st, data)
        r.evals()
        r.sig('sco', handle in HANDLES and handle, st, n if n in (0, 1, 255) else -1)
        try:
            o = hci.HCI_SynchronousDataPacket(connection_handle=handle,
                                              packet_status=hci.HCI_SynchronousDataPacket.Status(st) if rng.random() < 0.5 else st,
                                              data_total_length=n, data=data)
            b1 = bytes(o)
            chk(b1 == b, 'data/sco/layout', f'handle={handle:#x} status={st} len={n}: {b1[:6].hex()} != reference {b[:6].hex()}')
        except Exception as ex:
            chk(False, 'data/sco/build-raises', f'handle={handle:#x} status={st} len={n}: {type(ex).__name__}: {ex}')
        try:
            p = hci.HCI_Packet.from_bytes(b)
        except Exception as ex:
            chk(False, 'data/sco/parse-raises', f'{b[:6].hex()} len={n}: {type(ex).__name__}: {ex}')
            return
        chk(type(p) is hci.HCI_SynchronousDataPacket, 'data/sco/wrong-class', type(p).__name__)
        got = (p.connection_handle, int(p.packet_status), p.data_total_length, bytes(p.data))
        chk(got == (handle, st, n, data), 'data/sco/field', f'{b[:6].hex()}: parsed {got[:3]} expected {(handle, st, n)}')
        chk(bytes(p) == b, 'data/sco/reserialise', f'{b[:6].hex()} -> {bytes(p)[:6].hex()}')
        q = hci.HCI_SynchronousDataPacket(p.connection_handle, p.packet_status, p.data_total_length, p.data)
        chk(bytes(q) == b, 'data/sco/rebuild', f'{b[:6].hex()} -> {bytes(q)[:6].hex()}')

    for handle in HANDLES:
        for st in range(4):
            for n in (0, 1, 60, 254, 255):
                sco(handle, st, n)
    for _ in range(case['random'] // 2):
        sco(ref.gen_uint(rng, 12), rng.randrange(4), rng.randint(0, 255))

    # ---------------- ISO -------------------------------------------------------
    def iso(handle, pb, ts, seq, sdu_len, st, n):
        frag = ref.gen_bytes(rng, n)
        has_sdu = pb in (0, 2)
        b = ref.iso_packet(handle, pb, ts, seq if has_sdu else None, sdu_len, st, frag)
        total = len(b) - 5
        r.evals()
        r.sig('iso', handle in HANDLES and handle, pb, ts is not None, st if has_sdu else -1, n if n in (0, 1, 255, 256) else -1)
        what = (f'handle={handle:#x} pb={pb} time_stamp={ts} seq={seq if has_sdu else None} '
                f'sdu_len={sdu_len if has_sdu else None} packet_status={st if has_sdu else None} fragment={n}')
        sfx = ('/packet-status>=2' if st >= 2 else '/packet-status=1') if has_sdu and st else ''
        if has_sdu:
            r.ev('iso_status_checks')
        # offsets of the parts, for naming the part that departs
        parts = [('header', 0, 5)]
        off = 5
        if ts is not None:
            parts.append(('time-stamp', off, 4))
            off += 4
        if has_sdu:
            parts.append(('sequence-number', off, 2))
            parts.append(('sdu-info', off + 2, 2))
            off += 4
        parts.append(('fragment', off, n + 1))

        def part_at(x, y):
            m = min(len(x), len(y))
            pos = next((i for i in range(m) if x[i] != y[i]), m)
            return next((nm for nm, s, l in parts if s <= pos < s + l), 'length')

        try:
            o = hci.HCI_IsoDataPacket(connection_handle=handle, data_total_length=total, iso_sdu_fragment=frag, pb_flag=pb,
                                      time_stamp=ts, packet_sequence_number=seq if has_sdu else None,
                                      iso_sdu_length=sdu_len if has_sdu else None, packet_status_flag=st if has_sdu else None)
            b1 = bytes(o)
            if b1 != b:
                part = part_at(b1, b)
                chk(False, f'data/iso/layout/{part}' + (sfx if part == 'sdu-info' else ''),
                    f'{what}: built {b1[:14].hex()} reference {b[:14].hex()}')
            else:
                chk(True, 'data/iso/layout', '')
        except Exception as ex:
            chk(False, 'data/iso/build-raises' + sfx, f'{what}: {type(ex).__name__}: {ex}')
        try:
            p = hci.HCI_Packet.from_bytes(b)
        except Exception as ex:
            chk(False, 'data/iso/parse-raises' + sfx, f'{what} {b[:14].hex()}: {type(ex).__name__}: {ex}')
            return
        chk(type(p) is hci.HCI_IsoDataPacket, 'data/iso/wrong-class', type(p).__name__)
        exp = {'connection_handle': handle, 'pb_flag': pb, 'ts_flag': 1 if ts is not None else 0,
               'data_total_length': total, 'time_stamp': ts,
               'packet_sequence_number': seq if has_sdu else None,
               'iso_sdu_length': sdu_len if has_sdu else None,
               'packet_status_flag': st if has_sdu else None, 'iso_sdu_fragment': frag}
        for name, want in exp.items():
            got = getattr(p, name, _MISSING)
            if name == 'ts_flag' and got is not _MISSING:
                got = int(got)
            chk(got == want, f'data/iso/field/{name}',
                f'{what} {b[:14].hex()}: parsed {name}={got if not isinstance(got, bytes) else got[:8].hex()} expected {want if not isinstance(want, bytes) else want[:8].hex()}')
        try:
            b2 = bytes(p)
            if b2 != b:
                part = part_at(b2, b)
                chk(False, f'data/iso/reserialise/{part}' + (sfx if part == 'sdu-info' else ''), f'{what}: {b[:14].hex()} -> {b2[:14].hex()}')
            else:
                chk(True, 'data/iso/reserialise', '')
        except Exception as ex:
            chk(False, 'data/iso/reserialise-raises' + sfx, f'{what}: {type(ex).__name__}: {ex}')

    for handle in HANDLES:
        for pb in range(4):
            for with_ts in ((False, True) if pb in (0, 2) else (False,)):
                for st in (range(4) if pb in (0, 2) else (0,)):
                    for n in (0, 1, 255, 256):
                        ts = rng.choice([0, 1, 0x80000000, 0xFFFFFFFF, 0x11223344]) if with_ts else None
                        iso(handle, pb, ts, rng.choice([0, 1, 0x8000, 0xFFFF, 0x1234]),
                            rng.choice([0, 1, 0x7FF, 0x800, 0xFFF, n]), st, n)
    for _ in range(case['random'] // 2):
        pb = rng.randrange(4)
        ts = ref.gen_uint(rng, 32) if pb in (0, 2) and rng.random() < 0.5 else None
        iso(ref.gen_uint(rng, 12), pb, ts, ref.gen_uint(rng, 16), ref.gen_uint(rng, 12), rng.randrange(4),
            rng.choice([0, 1, 2, 100, 251, 255, 256, 1000, rng.randint(0, 4000)]))
    r.sample = {'kind': 'data', 'handles': list(HANDLES), 'acl_lengths': [0, 1, 255, 256, 65535],
                'iso': 'pb 0..3 x time stamp x packet status 0..3 x fragment 0/1/255/256'}


def run_case(case, r: R):
    k = case['kind']
    if k == 'classes':
        classes_case(case, r)
    elif k == 'census':
        census_case(case, r)
    elif k == 'generic':
        generic_case(case, r)
    elif k == 'cmdcomplete':
        cmdcomplete_case(case, r)
    elif k == 'data':
        data_case(case, r)
    elif k == 'sweep':
        sweep_case(case, r)
    elif k == 'layout':
        layout_case(case, r)
    else:
        raise ValueError(k)


LEVEL_TEXT = ('Every class found at run time in the command (incl. vendor), event, LE sub-event and other '
              'extended-event registries is instantiated ~100 (quick) / ~3000 (thorough) times with '
              'boundary-biased values derived from its own field metadata and checked in both directions '
              'against an independent reference encoder/decoder (bytes equal to the declared layout; parsed '
              'class and fields equal; re-serialisation and a rebuilt fresh object byte-identical). All '
              'unregistered event and LE sub-event codes, a sample of unregistered op codes, unclaimed vendor '
              'events and unknown packet types are checked to come back generic and byte-identical; every sync '
              'command gets Command Complete events with generated return parameters (success, error status '
              'only, error status full length), and return parameters laid out as the specification says (a '
              'per-op-code table independent of bumble) which must come back as the class the command declares, '
              'field by field, and rebuild to the same octets; every command / event / LE sub-event class stated in a per-code '
              'table of the specification\'s parameter layout (order, width, signedness; independent of bumble) is parsed from '
              'specification-shaped octets and built from field values under 4 fixed boundary profiles plus random ones, '
              'every exposed field and every width compared (classes outside the table: coverage.layout_spec_uncovered); ACL/SCO/ISO headers are enumerated over all flag combinations '
              'x boundary handles x boundary lengths. Classes the generator cannot populate are listed in '
              'coverage.classes_unpopulated. Held = no refuting instance among those generated; sampling, not proof.')
LEVEL_NOTE = ('Trusted: vlib/ref_hci_layout.py (parameter order / width / signedness per op code, event code and LE sub-event code, from the specification); vlib/ref_hci_rp.py (return-parameter widths per op code, from the specification); vlib/ref_hci.py (the meaning of the field-spec language and the Core-spec header '
              'layouts, ~450 lines, self-checked encoder<->decoder on every instance), the declared field '
              'metadata of each class as the statement of its intended layout, CPython dataclasses. A class '
              'whose declaration is wrong but self-consistent is outside this check.')
TECHNIQUE = 'runtime monitoring: generated instances of every registered class vs an independent reference codec (layout + differential round trip)'
