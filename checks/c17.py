"""C17 — hostile peer or controller input cannot wedge or derail the stack.

Victim: a real bumble device (device 0 of the rig) with the relevant servers up.
Attacker: a RawPeer (device 1) speaking L2CAP by hand on any CID — signalling, ATT, SMP,
credit-based and classic dynamic channels opened by hand, and on those SDP, RFCOMM (mux,
DLC, the HFP AT stream in both roles), AVDTP and AVCTP/AVRCP — or the harness handing raw
H4 packets to host 0 as if they came from its controller.

Monitors
  work     sys.monitoring PY_START / JUMP counts between injecting a frame and quiescence
           (budget 10^6 calls per frame; the meter aborts a busy loop inside bumble code),
           Hang raised by rig.quiesce()/the virtual loop's livelock detector
  fatal    RecursionError / MemoryError / non-Exception escapes from Host.on_packet or from
           tasks and callbacks (loop exception handler)
  alive    after every sequence of 1-10 hostile frames: the connection object is still in
           Device.connections (unless the harness injected a valid Disconnection Complete)
  answer   a reference request written down from the specification is answered with the
           bytes the specification prescribes (ATT Read of a known value, L2CAP Echo, credit-
           based channel open + SDU echo, SMP Pairing Request -> Pairing Response, SDP
           ServiceSearch, RFCOMM echo on the DLC, AT+CMEE=1 -> OK, HF command/OK and +CIEV,
           AVDTP Discover, AVRCP GetCapabilities)
  flow     (hci-flow) the harness plays a controller that uses command flow control as Core Vol 4 Part E 4.4
           allows: responses with Num_HCI_Command_Packets = 0, the window re-opened by an opcode-0 Command
           Complete / Command Status in the same delivery burst, a few loop turns or some virtual time later,
           preceded by opcode-0 events that still say 0, repeated, interleaved with unrelated events; every
           host command of the history and a reference Read_BD_ADDR must complete within 300 virtual s
  dialogue (br-config) Configure Requests with every unknown / hint / unimplemented option type during the
           configuration of a fresh channel (opened by the peer or by the victim, the victim's own request
           answered before, after, or first refused with a counter-proposal), then the well-formed retry:
           it must be answered SUCCESS, the channel must open and carry data in both directions
  nesting  structure-aware deep nesting (pure, 1-3 siblings before/after the nested list at every level,
           SEQUENCE / ALTERNATIVE alternating, depths 30..2000) in SDP requests (sdp) and in the responses
           parsed by the victim's sdp.Client (sdp-client, whole or over continuation responses), and nested
           parentheses with siblings in AT lines: RAISE monitor for RecursionError / MemoryError + work meter
  state    (ertm-state, rfcomm-open, avdtp-state) stateful attacks: ONE hostile-but-parseable frame whose state fields are set
           relative to the true protocol state, then a RUN of well-formed traffic sized to exceed every window, each answer
           with an expectation of its own:
           ertm-state   a hand-written ERTM peer that keeps the true sequence variables (rf.ErtmSeqModel); S-/I-frames with
                        ReqSeq 0..63 ahead of the victim's NextTxSeq (incl. exactly one TxWindow), TxSeq 0..63 off, RR / RNR /
                        REJ / SREJ, P / F / reserved bits, with 0..W+2 frames of the victim left unacknowledged; then poll
                        (RR P=1 -> F=1 owed, its ReqSeq must be the true one), 72 I-frames each way (> the sequence space)
                        in bursts of exactly the negotiated TxWindow with no acknowledgment inside a burst, segmented SDUs
                        among them, every echo compared, final poll must acknowledge all of it
           rfcomm-open  the victim as RFCOMM INITIATOR against a hand-written responder: every step of open_dlc() answered
                        in every way (PN accepted / smaller frame / no credits / for another DLCI / for DLCI 0 / twice / DM /
                        nothing / other frames first; SABM answered UA / DM / DISC / nothing / DM or UA for another DLCI first /
                        twice / DM on DLCI 0 / wrong C/R; MSC command / response only / before the UA / other DLCI / break /
                        flow off+on / RLS+RPN / none), unsolicited frames while idle; then the responder behaves: the
                        outstanding open_dlc() must terminate, and five fresh open / data both ways / close cycles on the
                        same and on other channels (two DLCs open at once) must work
           avdtp-state  three local end-points walked into idle / configured / open (with, without transport channel) /
                        streaming, then every signal addressed to ONE boundary SEID (0, 1, last, last+1, 0x3E, 0x3F; RFA bits,
                        INT SEID 0 / 0x3F, Start/Suspend lists mixing it with a valid one): a SEID that does not exist is
                        never accepted; then on EVERY end-point Set_Configuration, Get_Configuration (same bytes back), Open,
                        transport channel, Start, a media packet reaching exactly that sink, Suspend, Reconfigure, Start,
                        Close, release, Set_Configuration, Abort, and Discover listing all three. The APPLICATION side
                        refuses too: in every state, a well-formed command the state machine lets through (and seeded ones it
                        does not) is met by an end-point callback that returns the signal's reject, a callback that raises,
                        or an event listener that raises: never accepted, the application's reject relayed as is, and the
                        SAME command, the application now willing, accepted right after (the refusal changed no state),
                        then the run on every end-point
Mechanism keys: wedge/<channel>/<what>, derail/<channel>/<what>; on the stateful surfaces <what> = <symptom>/after-<class of the
hostile frame or dialogue step>.
"""
from __future__ import annotations

import asyncio
import os
import random
import struct

from vlib import ref_fuzz as rf
from vlib import vloop
from vlib.result import R

ID = 'C17'
LEVEL = 'exploration'
RULE = ('per channel: (a) enumeration of every truncation length and every length-field setting '
        '(0 / one less / one more / max) of every hand-written valid PDU of that channel, (b) seeded random '
        'rounds of 1-10 frames drawn from {valid, truncated, extended, bit-flipped, byte-set, length-field '
        'mutations, spliced, random, empty, deep SDP nesting, malformed AT lines / framing}; after each round '
        'the reference request of that channel. A round is non-trivial when at least one frame differs from '
        'every valid corpus PDU and the reference request was evaluated; distinct = distinct (channel, frame '
        'bytes sequence) hash. hci-flow: enumeration of {closing response CC/CS} x {re-opening event CC/CS} x '
        '{same burst, +1 turn, +3 turns, later} x {0/1 still-closed events first} x {1/2 re-opening events} x '
        '{unrelated event none/before/between/after} x {0-2 commands waiting}, plus seeded histories of 1-10 such '
        'steps; br-config: every refusable option alone and after an MTU option as the first request of a fresh '
        'channel, plus seeded dialogues of 1-3 refusable requests; sdp / sdp-client: every (siblings before, siblings '
        'after) in {(1,0),(0,1),(1,1),(2,0),(0,2),(3,0),(0,3),(2,1),(3,3)} x {seq, alt, alternating} x 4 sibling '
        'types x depths {30,33,64,200,700,1000,2000} (quick: those below 6 KB, every third), random ones in the rounds; '
        'ertm-state: every ReqSeq offset 0..63 x {RR, RNR, REJ, SREJ, I-frame} x {plain, P / F / reserved-bit variant}, every TxSeq '
        'offset 1..63, each alone in a round with 0..W+2 unacknowledged frames outstanding (W in {1,2,3,8,32,63} by case), plus seeded '
        'rounds of 1-3 such frames and mutated corpus frames, each round followed by the 72-frame run; rfcomm-open: every (PN step, SABM '
        'step) pair and every MSC variant as one scripted open_dlc() dialogue per round (never thinned), every unsolicited corpus '
        'frame, seeded combinations; avdtp-state: every (boundary SEID, signal, variant) alone in a round after a seeded walk of 1-3 '
        'end-points into seeded states, seeded rounds of 1-4 commands on one boundary SEID, mutated corpus frames; every (state, '
        'command let through by the state machine, way the application refuses: reject / callback raises / listener raises) alone in '
        'a round (never thinned), seeded rounds of 1-3 refusals on different end-points')
ASSUMPTIONS = [
    'the virtual link loses nothing; hostile frames are whole L2CAP PDUs (fragmented by the attacker host as usual) '
    'or whole H4 packets',
    'frames that are themselves a valid close/throttle of the thing the reference uses (Disconnection Complete for the '
    'live handle, RFCOMM DISC/DM/SABM/FCoff/MSC-FC/PN on the live DLC) are recognised by the harness reference parser and '
    'are not followed by a demand for an answer on that thing',
    'the attacker is alive: it acknowledges what the victim sends where the protocol needs it (answers OK to AT commands '
    'from an HF victim, grants RFCOMM credits)',
    'work budget: 10^6 Python calls (PY_START) or 10^7 loop back-edges (JUMP) per injected frame',
    'hci-flow: the played controller never allows more commands than bumble\'s host can have outstanding (one): the window '
    'is only re-opened after the response that closed it, and a second identical re-opening event is only sent while no '
    'other command waits (whether extra credits are counted correctly is flow-control accounting, not this property)',
    'br-config: hostile Configure Requests carry no continuation flag; a request the victim accepts with SUCCESS ends the '
    'peer\'s side of the configuration (no retry owed); a victim that closes the channel instead (Disconnection Request) '
    'owes nothing more on it, the next channel must work',
    'ertm-state: an acknowledgment or TxSeq outside the valid range is met by closing the channel (8.6.5: the run then uses a fresh '
    'channel) or by ignoring it; a receiver may take or drop the data of an in-sequence I-frame whose ReqSeq it refuses (the peer '
    'resynchronises from the ReqSeq of the poll answer, by at most the number of such frames); hostile in-sequence I-frames with a '
    'SAR sequence error or more than MPS bytes retire the channel (what the receiver does with the SDU is not judged); the peer answers '
    'a poll of the victim (P=1, or bumble\'s RR with F=1 sent from its retransmission timer) with F=1; no virtual time passes while '
    'frames of the victim are unacknowledged',
    'rfcomm-open: a DM or a DISC for the DLCI being opened, at the PN or at the SABM stage, is a terminal answer (open_dlc() must '
    'terminate, with an ordinary exception or a DLC); a PN response naming another DLCI, a DM / UA for another DLCI or for DLCI 0 are '
    'no answer: what the victim does with the outstanding open_dlc() is only required to TERMINATE once the responder has answered '
    'properly; valid DISC / DM on DLCI 0 and flow-off frames are not sent (legitimate close / throttle)',
    'avdtp-state: a command addressed to an existing SEID changes the state as the AVDTP state machine says iff it was accepted (the '
    'model follows the response); Abort for a SEID that does not exist may be accepted or left unanswered (bumble accepts it; 8.15.2 '
    'says no response): not judged; the in-use bit of Discover is not judged; after mutated frames every end-point is aborted before '
    'the run; a command the application refuses by raising may stay unanswered (only "not accepted" and the state are judged), Abort '
    'has no reject: an application that fails on it is only required not to wedge the end-point',
    'sdp-client: a hostile response the client legitimately accepts (valid PDU, right transaction ID) may make the '
    'outstanding call return garbage or raise an ordinary exception; only its termination is judged, correctness is judged '
    'on the fresh query that follows',
]
MIN_EVENTS = {
    'quick': {'frames': 9000, 'references': 1500, 'oracle_evals': 6000, 'metered_frames': 9000,
              'victim_exceptions': 200},
    'thorough': {'frames': 900000, 'references': 100000, 'oracle_evals': 400000, 'metered_frames': 900000,
                 'victim_exceptions': 20000},
}
CASE_TIMEOUT = 600
SHARD_TIMEOUT = {'quick': 900, 'thorough': 7200}

CALL_BUDGET = 1_000_000
JUMP_BUDGET = 10_000_000

LE_CHANNELS = ['att', 'att-client', 'smp', 'le-sig', 'le-coc', 'hci-le', 'hci-flow']
BR_CHANNELS = ['br-sig', 'smp-br', 'br-dyn', 'br-ertm', 'sdp', 'rfcomm-mux', 'rfcomm-dlc', 'hfp-ag', 'hfp-hf',
               'avdtp', 'avctp', 'hci-br', 'br-config', 'sdp-client', 'ertm-state', 'rfcomm-open', 'avdtp-state']
CHANNELS = LE_CHANNELS + BR_CHANNELS

for _c in CHANNELS:
    MIN_EVENTS['quick'][f'references_{_c}'] = 60
    MIN_EVENTS['quick'][f'frames_{_c}'] = 250
    MIN_EVENTS['thorough'][f'references_{_c}'] = 3000
    MIN_EVENTS['thorough'][f'frames_{_c}'] = 15000

# (a configuration dialogue has 1-4 hostile requests per fresh channel: fewer frames per reference than elsewhere)
MIN_EVENTS['quick']['frames_br-config'] = 200
MIN_EVENTS['thorough']['frames_br-config'] = 12000

# deciding counters of the three dialogue / structure surfaces
MIN_EVENTS['quick'].update({
    'flow_zero_credit_responses': 300, 'flow_zero_credit_cc': 100, 'flow_zero_credit_cs': 40,
    'flow_nops_same_burst': 80, 'flow_nops_next_turns': 80, 'flow_nops_later': 40, 'flow_nops_cc': 100, 'flow_nops_cs': 100,
    'flow_commands_completed': 400, 'flow_reference_commands_ok': 60,
    'config_refusals_observed': 150, 'config_retries_answered': 100, 'config_channels_carry_data': 80,
    'config_victim_initiated_opened': 10,
    'class_deep-nesting-siblings': 150, 'sdpc_deep_responses_parsed': 40, 'sdpc_calls_completed': 150,
    'host_command_references': 800,
})
MIN_EVENTS['thorough'].update({
    'flow_zero_credit_responses': 20000, 'flow_zero_credit_cc': 8000, 'flow_zero_credit_cs': 3000,
    'flow_nops_same_burst': 5000, 'flow_nops_next_turns': 5000, 'flow_nops_later': 2500, 'flow_nops_cc': 8000, 'flow_nops_cs': 8000,
    'flow_commands_completed': 25000, 'flow_reference_commands_ok': 3000,
    'config_refusals_observed': 8000, 'config_retries_answered': 5000, 'config_channels_carry_data': 4000,
    'config_victim_initiated_opened': 500,
    'class_deep-nesting-siblings': 5000, 'sdpc_deep_responses_parsed': 2000, 'sdpc_calls_completed': 8000,
    'host_command_references': 15000,
})

# the stateful surfaces: few hostile frames per round (each followed by a long run), and the deciding counters of the runs
MIN_EVENTS['quick'].update({
    'frames_ertm-state': 150, 'frames_rfcomm-open': 100, 'frames_avdtp-state': 100,
    'rfcomm_acceptor_reopen_cycles': 50, 'rfcomm_acceptor_run_frames': 1200,
    'ertm_run_iframes_echoed': 10000, 'ertm_runs_completed': 150, 'ertm_polls_answered': 400,
    'ertm_rounds_with_outstanding_frames': 80,
    'rfo_scripted_opens': 70, 'rfo_outstanding_opens_terminated': 70, 'rfo_cycles_data_both_ways': 400,
    'rfo_reference_runs_completed': 80,
    'avs_hostile_commands': 90, 'avs_invalid_seid_commands_judged': 50, 'avs_reference_commands_accepted': 2000,
    'avs_endpoint_runs_completed': 200, 'avs_media_packets_delivered': 120,
    'avs_app_refusals_made': 50, 'avs_app_refusals_made_reject': 12, 'avs_app_refusals_made_raise': 12,
    'avs_app_refusals_made_listener': 12, 'avs_app_refusals_made_in_idle': 8, 'avs_app_refusals_made_in_configured': 8,
    'avs_app_refusals_made_in_open': 12, 'avs_app_refusals_made_in_streaming': 8, 'avs_app_refused_commands_retried_ok': 40,
})
MIN_EVENTS['thorough'].update({
    'frames_ertm-state': 6000, 'frames_rfcomm-open': 4000, 'frames_avdtp-state': 6000,
    'rfcomm_acceptor_reopen_cycles': 2500, 'rfcomm_acceptor_run_frames': 60000,
    'ertm_run_iframes_echoed': 300000, 'ertm_runs_completed': 4000, 'ertm_polls_answered': 10000,
    'ertm_rounds_with_outstanding_frames': 2000,
    'rfo_scripted_opens': 2500, 'rfo_outstanding_opens_terminated': 2500, 'rfo_cycles_data_both_ways': 15000,
    'rfo_reference_runs_completed': 4000,
    'avs_hostile_commands': 5000, 'avs_invalid_seid_commands_judged': 2500, 'avs_reference_commands_accepted': 100000,
    'avs_endpoint_runs_completed': 10000, 'avs_media_packets_delivered': 6000,
    'avs_app_refusals_made': 1500, 'avs_app_refusals_made_reject': 300, 'avs_app_refusals_made_raise': 300,
    'avs_app_refusals_made_listener': 300, 'avs_app_refusals_made_in_idle': 200, 'avs_app_refusals_made_in_configured': 200,
    'avs_app_refusals_made_in_open': 300, 'avs_app_refusals_made_in_streaming': 200, 'avs_app_refused_commands_retried_ok': 1200,
})

KNOWN_VALUE = b'C17-known-value'
ECHO_PSM_LE = 0x0081
ECHO_PSM_BR = 0x1001
ECHO_PSM_ERTM = 0x1003
PEER_PSM = 0x1005            # a PSM the hand-written peer serves (channels opened by the victim)
SDP_HANDLE = 0x00010001


# =============================================================================
# plan
# =============================================================================
def plan(tier, seed):
    cases = []
    quick = tier == 'quick'
    # (a) enumeration: every truncation / length setting, split in parts
    parts = {'att': 2, 'att-client': 1, 'smp': 2, 'le-sig': 3, 'le-coc': 1, 'hci-le': 10, 'br-sig': 4, 'smp-br': 2,
             'br-dyn': 1, 'br-ertm': 1, 'sdp': 6, 'rfcomm-mux': 3, 'rfcomm-dlc': 2, 'hfp-ag': 1, 'hfp-hf': 1,
             'avdtp': 2, 'avctp': 4, 'hci-br': 10, 'hci-flow': 4, 'br-config': 4, 'sdp-client': 4,
             'ertm-state': 8, 'rfcomm-open': 4, 'avdtp-state': 4}
    for chan in CHANNELS:
        n = parts[chan]
        for i in range(n):
            cases.append({'chan': chan, 'mode': 'enum', 'part': i, 'parts': n, 'seed': seed * 1000003 + i,
                          'stride': 3 if quick else 1, '_hang_key': f'wedge/{chan}/case-hang'})
    # (b) random rounds
    per_chan = 9 if quick else 210
    rounds = 10 if quick else 50
    for chan in CHANNELS:
        for i in range(per_chan):
            cases.append({'chan': chan, 'mode': 'rand', 'seed': seed * 1000003 + 7919 * i + 13, 'rounds': rounds,
                          '_hang_key': f'wedge/{chan}/case-hang'})
    only = os.environ.get('C17_ONLY')      # development aid: restrict to some channels (the run is then inconclusive)
    if only:
        cases = [c for c in cases if c['chan'] in only.split(',')]
    return cases


# =============================================================================
# victim-side instrumentation
# =============================================================================
class VictimProxy:
    """Stands between the controller->host pipe and Host.on_packet of the victim: records
    everything that escapes (BaseException included) with its type."""

    def __init__(self, host, env):
        self.host = host
        self.env = env

    def on_packet(self, packet):
        try:
            self.host.on_packet(packet)
        except BaseException as e:   # noqa: BLE001 — deciding what escapes is the point
            if type(e).__name__ in ('CaseTimeout', 'KeyboardInterrupt'):
                raise
            self.env.note_exception('on_packet', e)


def is_fatal(e: BaseException) -> bool:
    return isinstance(e, (RecursionError, MemoryError)) or not isinstance(e, Exception)


class Env:
    def __init__(self, case, r: R):
        self.case = case
        self.r = r
        self.chan = case['chan']
        self.meter = rf.Meter()
        self.exc_ordinary = 0
        self.fatal: list[str] = []
        self.last_exceptions: list[str] = []
        self.max_calls = 0
        self.max_jumps = 0
        self.legit_disconnect = False
        self.dead = False            # a wedge/derail was reported: stop the case
        self.rg = None
        self.raw = None
        self.victim = None
        self.vconn = None
        self.vh = 0
        self.ah = 0

    def note_exception(self, where, e: BaseException):
        name = type(e).__name__
        if isinstance(e, rf.WorkBudgetExceeded):
            return   # accounted through meter.tripped
        if isinstance(e, asyncio.CancelledError):
            return
        if is_fatal(e):
            self.fatal.append(f'{where}: {name}: {str(e)[:200]}')
        else:
            self.exc_ordinary += 1
            self.r.ev('victim_exceptions')
            self.r.add_extra_list('victim_exception_types', f'{self.chan}:{name}')
        self.last_exceptions.append(f'{name}: {str(e)[:80]}')
        del self.last_exceptions[:-6]

    def loop_exception_handler(self, loop, context):
        e = context.get('exception')
        if e is not None:
            self.note_exception('loop', e)

    def bad(self, key, detail):
        self.dead = True
        self.r.bad(key, detail)


def _bumble_code(code) -> bool:
    return '/bumble/' in code.co_filename


class BudgetMeter(rf.Meter):
    """Meter with separate call / jump budgets; only aborts inside bumble code so that the
    exception always lands in the victim's own frames (proxy, task or loop handler)."""

    def __init__(self):
        super().__init__()
        self.call_limit = None
        self.jump_limit = None
        self.on_fatal = None

    def _on_start(self, code, offset):
        self.calls += 1
        if self.call_limit is not None and self.calls > self.call_limit and _bumble_code(code):
            self.call_limit = self.jump_limit = None
            self.tripped += 1
            raise rf.WorkBudgetExceeded(f'call budget exceeded in {code.co_qualname}')

    def _on_jump(self, code, src, dst):
        self.jumps += 1
        if self.jump_limit is not None and self.jumps > self.jump_limit and _bumble_code(code):
            self.call_limit = self.jump_limit = None
            self.tripped += 1
            raise rf.WorkBudgetExceeded(f'loop budget exceeded in {code.co_qualname}')

    def _on_raise(self, code, offset, exc):
        # RecursionError / MemoryError count even when bumble itself catches them later
        if isinstance(exc, (RecursionError, MemoryError)) and self.on_fatal is not None:
            self.on_fatal(exc, code)

    def start(self):
        import sys
        super().start()
        mon = sys.monitoring
        mon.register_callback(self.TOOL, mon.events.RAISE, self._on_raise)
        mon.set_events(self.TOOL, mon.events.PY_START | mon.events.JUMP | mon.events.RAISE)

    def stop(self):
        import sys
        if self.active:
            sys.monitoring.register_callback(self.TOOL, sys.monitoring.events.RAISE, None)
        super().stop()

    def arm(self, n=1):
        self.call_limit = self.calls + CALL_BUDGET * n
        self.jump_limit = self.jumps + JUMP_BUDGET * n

    def disarm(self):
        self.call_limit = self.jump_limit = None


async def inject(env: Env, frames, tx, burst=False, phys=lambda data: 1):
    """Send hostile frames through `tx(bytes)`; meter the work until quiescence.
    frames: [(class, name, bytes)]. Returns False when a wedge was reported."""
    r = env.r
    groups = [frames] if burst else [[f] for f in frames]
    for g in groups:
        m = env.meter
        c0, j0, t0 = m.calls, m.jumps, m.tripped
        nphys = sum(max(1, phys(d)) for _k, _n, d in g)      # L2CAP frames actually sent
        m.arm(nphys)
        hang = None
        try:
            for klass, name, data in g:
                r.ev('frames')
                r.ev(f'frames_{env.chan}')
                r.ev(f'class_{klass.split("/")[0]}')
                tx(data)
            await env.rg.quiesce(extra_turns=8)
        except vloop.Hang as e:
            hang = str(e)
        except rf.WorkBudgetExceeded:
            pass
        finally:
            m.disarm()
        calls, jumps = m.calls - c0, m.jumps - j0
        r.ev('metered_frames', len(g))
        r.ev('oracle_evals', 2)
        if calls // nphys > env.max_calls:
            env.max_frame = (g[0][0], g[0][1], len(g[0][2]), len(g))
        env.max_calls = max(env.max_calls, calls // nphys)
        env.max_jumps = max(env.max_jumps, jumps // nphys)
        what = ', '.join(f'{k}<{n}>{d[:24].hex()}({len(d)}B)' for k, n, d in g[:10])
        if hang or asyncio.get_running_loop().livelock_jumps:
            env.bad(f'wedge/{env.chan}/livelock', f'no quiescence after {what}: {hang}; last exceptions {env.last_exceptions}')
            return False
        if m.tripped > t0 or calls > CALL_BUDGET * nphys or jumps > JUMP_BUDGET * nphys:
            env.bad(f'wedge/{env.chan}/step-budget-exceeded',
                    f'{calls} calls / {jumps} loop iterations for {nphys} frame(s): {what}')
            return False
        if env.fatal:
            kind = env.fatal[0].split(': ')[1]
            # (the shape class of a structure-aware nesting frame is part of the mechanism)
            shaped = sorted({k.split('-', 1)[1] if k.startswith(('solo-', 'single-')) else k for k, _n, _d in g})
            shaped = [k for k in shaped if k.startswith('deep-nesting-')]
            suffix = f'/{shaped[0]}' if shaped else ''
            env.bad(f'wedge/{env.chan}/fatal-{kind}{suffix}', f'{env.fatal[:3]} after {what}')
            env.fatal.clear()
            return False
    return True


# =============================================================================
# the attacker: a RawPeer with a small L2CAP / RFCOMM vocabulary spoken by hand
# =============================================================================
class Attacker:
    def __init__(self, env: Env, classic: bool):
        from vlib import rig as vrig
        self.env = env
        self.rg = env.rg
        self.raw = vrig.RawPeer(env.rg, 1)
        self.handle = env.ah
        self.classic = classic
        self.sig_cid = 1 if classic else 5
        self.ident = 0x30
        self.sigs: list[tuple[int, int, bytes]] = []      # signalling commands received
        self.data: dict[int, list[bytes]] = {}            # PDUs received per (my) CID
        self.next_cid = 0x0050
        self.auto = []                                    # fn(cid, payload) hooks
        self.raw.handlers.append(self._on_pdu)

    def _on_pdu(self, handle, cid, payload):
        if cid == self.sig_cid:
            off = 0
            while off + 4 <= len(payload):
                code, ident, ln = struct.unpack_from('<BBH', payload, off)
                self.sigs.append((code, ident, payload[off + 4: off + 4 + ln]))
                off += 4 + ln
        else:
            self.data.setdefault(cid, []).append(payload)
        for fn in self.auto:
            fn(cid, payload)

    def nid(self):
        self.ident = self.ident % 255 + 1
        return self.ident

    def new_cid(self):
        # a small window, so that CIDs of closed channels are reused soon (a victim that leaks them shows)
        self.next_cid += 1
        if self.next_cid > 0x5C:
            self.next_cid = 0x0051
        return self.next_cid

    def send(self, cid, payload):
        self.raw.send(self.handle, cid, payload)

    def send_sig(self, code, ident, data):
        self.send(self.sig_cid, rf.sig(code, ident, data))

    async def until(self, fn, t=3.0):
        """Quiesce, then poll fn() (virtual time may pass) until it returns non-None."""
        try:
            await self.rg.quiesce(extra_turns=8)
        except vloop.Hang:
            return None
        v = fn()
        waited = 0.0
        while v is None and waited < t:
            await asyncio.sleep(0.25)
            waited += 0.25
            try:
                await self.rg.quiesce(extra_turns=4)
            except vloop.Hang:
                return None
            v = fn()
        return v

    def take_sig(self, pred):
        for i, s in enumerate(self.sigs):
            if pred(*s):
                return self.sigs.pop(i)
        return None

    # -- classic dynamic channels opened by the victim, accepted by hand ------------
    def serve(self, psm, auto_config=True):
        """Accept Connection Requests of the victim for `psm`. auto_config: also run the configuration
        (own Configure Request with an MTU option, SUCCESS to every Configure Request of the victim)."""
        if not hasattr(self, 'serving'):
            self.serving = {}
            self.served = []           # (my cid, victim cid, psm) in order of acceptance
            self.autoconf = {}         # my cid -> victim cid
            self.auto.append(self._serve_hook)
        self.serving[psm] = auto_config

    def _serve_hook(self, cid, payload):
        if cid != self.sig_cid:
            return
        off = 0
        while off + 4 <= len(payload):
            code, ident, ln = struct.unpack_from('<BBH', payload, off)
            d = payload[off + 4: off + 4 + ln]
            off += 4 + ln
            if code == 0x02 and len(d) >= 4:
                psm, scid = struct.unpack_from('<HH', d, 0)
                if psm in self.serving:
                    my = self.new_cid()
                    self.send_sig(0x03, ident, rf.u16(my) + rf.u16(scid) + rf.u16(0) + rf.u16(0))
                    self.served.append((my, scid, psm))
                    if self.serving[psm]:
                        self.autoconf[my] = scid
                        self.send_sig(0x04, self.nid(), rf.u16(scid) + rf.u16(0) + rf.conf_opt(1, rf.u16(4096)))
            elif code == 0x04 and len(d) >= 4:
                dcid = struct.unpack_from('<H', d, 0)[0]
                if dcid in self.autoconf:
                    self.send_sig(0x05, ident, rf.u16(self.autoconf[dcid]) + rf.u16(0) + rf.u16(0) + d[4:])

    # -- classic dynamic channel by hand ----------------------------------------
    async def open_classic(self, psm, ertm=False, mtu=1024, window=8):
        """Returns (my_cid, victim_cid) or a string describing where it failed. `window`: the TxWindow this peer
        grants the victim in its Retransmission and Flow Control option (ERTM only)."""
        my = self.new_cid()
        ident = self.nid()
        self.sigs.clear()
        self.send_sig(0x02, ident, rf.u16(psm) + rf.u16(my))

        def conn_rsp():
            s = self.take_sig(lambda c, i, d: c == 0x03 and i == ident and len(d) >= 8 and
                              struct.unpack_from('<H', d, 4)[0] != 1)
            return s
        s = await self.until(conn_rsp)
        if s is None:
            return 'no Connection Response'
        dcid, scid, result, _st = struct.unpack_from('<HHHH', s[2], 0)
        if result != 0 or scid != my:
            return f'Connection Response result={result} scid={scid:#x}'
        # my Configuration Request
        cid_ident = self.nid()
        opts = rf.conf_opt(1, rf.u16(mtu))
        if ertm:
            opts += rf.conf_opt(4, bytes([3, window, 3]) + rf.u16(2000) + rf.u16(12000) + rf.u16(256))
        self.send_sig(0x04, cid_ident, rf.u16(dcid) + rf.u16(0) + opts)
        got_req = got_rsp = False
        self.victim_conf_options = b''
        for _ in range(6):
            def step():
                return self.take_sig(lambda c, i, d: (c == 0x04 and len(d) >= 4 and struct.unpack_from('<H', d, 0)[0] == my)
                                     or (c == 0x05 and i == cid_ident))
            s = await self.until(step)
            if s is None:
                break
            if s[0] == 0x04:
                self.send_sig(0x05, s[1], rf.u16(dcid) + rf.u16(0) + rf.u16(0) + s[2][4:])
                self.victim_conf_options = s[2][4:]
                got_req = True
            else:
                if len(s[2]) >= 6 and struct.unpack_from('<H', s[2], 4)[0] == 0:
                    got_rsp = True
                else:
                    return f'Configuration Response {s[2].hex()}'
            if got_req and got_rsp:
                break
        if not (got_req and got_rsp):
            return f'configuration incomplete (victim request seen={got_req}, response seen={got_rsp})'
        await self.rg.quiesce(extra_turns=8)
        self.data[my] = []
        return my, dcid

    # -- LE credit-based channel by hand ----------------------------------------
    async def open_le_coc(self, psm, mtu=512, mps=251, credits=20):
        for _attempt in range(24):
            my = self.new_cid()
            ident = self.nid()
            self.sigs.clear()
            self.send_sig(0x14, ident, rf.u16(psm) + rf.u16(my) + rf.u16(mtu) + rf.u16(mps) + rf.u16(credits))
            s = await self.until(lambda: self.take_sig(lambda c, i, d: c == 0x15 and i == ident))
            if s is None:
                return 'no LE Credit Based Connection Response'
            if len(s[2]) < 10:
                return f'short response {s[2].hex()}'
            dcid, vmtu, vmps, vcred, result = struct.unpack_from('<HHHHH', s[2], 0)
            if result == 0x000A:
                # 'source CID already allocated': correct when an earlier (valid) hostile request took
                # this CID; a real peer picks another one
                continue
            break
        if result != 0:
            return f'result={result:#x}'
        self.data[my] = []
        return my, dcid, vmtu, vmps, vcred

    async def coc_echo(self, my, dcid, payload: bytes):
        """One SDU through the victim's echo server on a credit-based channel."""
        self.data[my] = []
        self.send(dcid, rf.u16(len(payload)) + payload)

        def got():
            b = b''.join(self.data.get(my, []))
            if len(b) >= 2 and len(b) >= 2 + struct.unpack_from('<H', b, 0)[0]:
                return b
            return None
        b = await self.until(got)
        if b is None:
            return f'no echo (received {b"".join(self.data.get(my, [])).hex()})'
        if b != rf.u16(len(payload)) + payload:
            return f'echo differs: {b.hex()}'
        return None

    async def echo_request(self, payload=b'C17-echo'):
        ident = self.nid()
        self.sigs.clear()
        self.send_sig(0x08, ident, payload)
        s = await self.until(lambda: self.take_sig(lambda c, i, d: c == 0x09 and i == ident))
        if s is None:
            return 'no Echo Response'
        if s[2] != payload:
            return f'Echo Response data {s[2].hex()} != {payload.hex()}'
        return None


class RfSession:
    """RFCOMM initiator spoken by hand over a classic channel opened by the Attacker."""

    def __init__(self, atk: Attacker, my_cid, vcid, channel):
        self.atk = atk
        self.my = my_cid
        self.vcid = vcid
        self.dlci = channel << 1
        self.frames: list = []      # parsed RfFrame from the victim
        self.rx = bytearray()       # data bytes received on the DLC
        self.victim_credits = 0     # credits I still hold for sending data to the victim
        self.on_data = None
        atk.auto.append(self._on_pdu)

    def _on_pdu(self, cid, payload):
        if cid != self.my:
            return
        f = rf.rfcomm_parse(payload)
        if f is None:
            return
        self.frames.append(f)
        if f.ftype == rf.UIH and f.dlci == self.dlci:
            info = f.info
            if f.p_f and info:
                self.victim_credits += info[0]
                info = info[1:]
            if info:
                self.rx += info
                if self.on_data:
                    self.on_data(bytes(info))
        elif f.ftype == rf.UIH and f.dlci == 0:
            m = rf.rfcomm_mcc_parse(f.info)
            if m and m[0] == rf.MCC_MSC and m[1] == 1:
                self.tx(rf.rfcomm_frame(rf.UIH, 1, 0, 0, rf.rfcomm_mcc(rf.MCC_MSC, 0, m[2])))

    def tx(self, frame: bytes):
        self.atk.send(self.vcid, frame)

    def take(self, pred):
        for i, f in enumerate(self.frames):
            if pred(f):
                return self.frames.pop(i)
        return None

    async def open_mux(self):
        self.tx(rf.rfcomm_frame(rf.SABM, 1, 0, 1))
        f = await self.atk.until(lambda: self.take(lambda f: f.ftype == rf.UA and f.dlci == 0))
        return None if f else 'no UA for SABM on DLCI 0'

    async def open_dlc(self):
        self.tx(rf.rfcomm_frame(rf.UIH, 1, 0, 0, rf.rfcomm_mcc(rf.MCC_PN, 1, rf.rfcomm_pn(self.dlci, 127, 7))))

        def pn_rsp():
            f = self.take(lambda f: f.ftype == rf.UIH and f.dlci == 0 and (rf.rfcomm_mcc_parse(f.info) or (0, 1, b''))[0] == rf.MCC_PN)
            return f
        f = await self.atk.until(pn_rsp)
        if f is None:
            return 'no PN response'
        v = rf.rfcomm_mcc_parse(f.info)[2]
        self.victim_credits = v[7] & 7 if len(v) >= 8 else 0
        self.tx(rf.rfcomm_frame(rf.SABM, 1, self.dlci, 1))
        f = await self.atk.until(lambda: self.take(lambda f: f.ftype == rf.UA and f.dlci == self.dlci))
        if f is None:
            return 'no UA for SABM on the DLCI'
        self.tx(rf.rfcomm_frame(rf.UIH, 1, 0, 0, rf.rfcomm_mcc(rf.MCC_MSC, 1, rf.rfcomm_msc(self.dlci))))
        await self.atk.rg.quiesce(extra_turns=8)
        return None

    def send_data(self, data: bytes, credits: int | None = 20):
        """UIH on the DLC, granting the victim credits so that it can always answer."""
        if credits is None:
            self.tx(rf.rfcomm_frame(rf.UIH, 1, self.dlci, 0, data))
        else:
            self.tx(rf.rfcomm_frame(rf.UIH, 1, self.dlci, 1, data, credits=credits))

    async def echo(self, payload: bytes):
        self.rx.clear()
        self.send_data(payload)
        # (the victim's sink echoes everything it was given, in order: what it still owes for earlier hostile
        # frames that carried VALID data - held back for lack of credits - legitimately precedes this echo)
        got = None
        for _round in range(40):
            got = await self.atk.until(lambda: bytes(self.rx) if payload in bytes(self.rx) else None)
            if got is not None:
                break
            before = len(self.rx)
            # the backlog the victim owes may need more credits than one frame grants
            self.tx(rf.rfcomm_frame(rf.UIH, 1, self.dlci, 1, b'', credits=30))
            await self.atk.rg.quiesce(extra_turns=8)
            if len(self.rx) == before and _round >= 2:
                break       # more credits bring nothing more: really silent
        if got is None:
            return f'no echo on the DLC (received {bytes(self.rx)[-80:].hex()} after {len(self.rx)} octets)'
        if not got.endswith(payload):
            return f'echo followed by data nobody sent: {got[got.index(payload) + len(payload):][:40].hex()}'
        return None


# =============================================================================
# rigs
# =============================================================================
class HarnessError(Exception):
    pass


def _echo_handler(channel):
    channel.sink = lambda data, _c=channel: _c.write(bytes(data))


async def setup_le(env: Env, rng: random.Random, attacker_central: bool):
    from bumble import l2cap
    from bumble.core import UUID
    from bumble.gatt import Characteristic, CharacteristicValue, Service
    from vlib import rig as vrig

    seed = env.case['seed']
    vrig.seed_entropy(seed)
    rg = vrig.Rig(2, seed=seed, max_delay=rng.choice([0, 0, 1, 3]),
                  le_acl_len=[rng.choice([27, 64, 251]), rng.choice([27, 64, 251])])
    env.rg = rg
    victim = env.victim = rg.devices[0]
    rg.c2h[0].target = VictimProxy(rg.hosts[0], env)
    asyncio.get_running_loop().set_exception_handler(env.loop_exception_handler)
    ro = Characteristic(UUID('7A1C0001-0000-1000-8000-00805F9B34FB'), Characteristic.Properties.READ,
                        Characteristic.READABLE, CharacteristicValue(read=lambda _c: KNOWN_VALUE))
    # (a computed value: whether a Write Request may change a read-only attribute is C11's question, not this check's)
    rw = Characteristic(UUID('7A1C0002-0000-1000-8000-00805F9B34FB'),
                        Characteristic.Properties.READ | Characteristic.Properties.WRITE |
                        Characteristic.Properties.WRITE_WITHOUT_RESPONSE | Characteristic.Properties.NOTIFY,
                        Characteristic.READABLE | Characteristic.WRITEABLE, b'rw')
    victim.add_service(Service(UUID('7A1C0000-0000-1000-8000-00805F9B34FB'), [ro, rw]))
    victim.create_l2cap_server(spec=l2cap.LeCreditBasedChannelSpec(psm=ECHO_PSM_LE, mtu=512, mps=128, max_credits=64),
                               handler=_echo_handler)
    await rg.power_on()
    if attacker_central:
        ac, vc = await rg.connect_le(1, 0)
    else:
        vc, ac = await rg.connect_le(0, 1)
    await rg.quiesce()
    env.vconn, env.vh, env.ah = vc, vc.handle, ac.handle
    env.h_ro, env.h_rw = ro.handle, rw.handle
    env.atk = Attacker(env, classic=False)
    env.peer_addr = bytes(ac.self_address.address_bytes) if hasattr(ac.self_address, 'address_bytes') else bytes(ac.self_address)
    return env.atk


async def setup_br(env: Env, rng: random.Random, chan: str):
    from bumble import a2dp, avdtp, avrcp, hfp, l2cap, rfcomm, sdp
    from bumble.core import UUID
    from vlib import rig as vrig

    seed = env.case['seed']
    vrig.seed_entropy(seed)
    rg = vrig.Rig(2, seed=seed, max_delay=rng.choice([0, 0, 1, 3]), classic=True,
                  acl_len=[rng.choice([27, 339, 1021]), rng.choice([27, 339, 1021])])
    env.rg = rg
    victim = env.victim = rg.devices[0]
    rg.c2h[0].target = VictimProxy(rg.hosts[0], env)
    asyncio.get_running_loop().set_exception_handler(env.loop_exception_handler)
    mgr = victim.l2cap_channel_manager
    mgr.extended_features.update({l2cap.L2CAP_Information_Request.ExtendedFeatures.ENHANCED_RETRANSMISSION_MODE,
                                  l2cap.L2CAP_Information_Request.ExtendedFeatures.FCS_OPTION})
    victim.sdp_service_records = {
        SDP_HANDLE: [
            sdp.ServiceAttribute(sdp.SDP_SERVICE_RECORD_HANDLE_ATTRIBUTE_ID, sdp.DataElement.unsigned_integer_32(SDP_HANDLE)),
            sdp.ServiceAttribute(sdp.SDP_SERVICE_CLASS_ID_LIST_ATTRIBUTE_ID,
                                 sdp.DataElement.sequence([sdp.DataElement.uuid(UUID.from_16_bits(0x1101))])),
            sdp.ServiceAttribute(0x0100, sdp.DataElement.text_string(b'C17 serial port')),
        ]
    }
    victim.create_l2cap_server(spec=l2cap.ClassicChannelSpec(psm=ECHO_PSM_BR, mtu=2048), handler=_echo_handler)
    victim.create_l2cap_server(spec=l2cap.ClassicChannelSpec(
        psm=ECHO_PSM_ERTM, mtu=2048, mps=256, mode=l2cap.TransmissionMode.ENHANCED_RETRANSMISSION), handler=_echo_handler)
    # RFCOMM with a per-channel acceptor
    env.dlcs = []
    env.ag = env.hf = None

    def acceptor(dlc):
        env.dlcs.append(dlc)
        if chan == 'hfp-ag':
            env.ag = hfp.AgProtocol(dlc, hfp.AgConfiguration(
                supported_ag_features=[hfp.AgFeature.ENHANCED_CALL_STATUS, hfp.AgFeature.THREE_WAY_CALLING,
                                       hfp.AgFeature.HF_INDICATORS, hfp.AgFeature.CODEC_NEGOTIATION],
                supported_ag_indicators=[hfp.AgIndicatorState.call(), hfp.AgIndicatorState.callsetup(),
                                         hfp.AgIndicatorState.service(), hfp.AgIndicatorState.signal()],
                supported_hf_indicators=[hfp.HfIndicator.BATTERY_LEVEL],
                supported_ag_call_hold_operations=[hfp.CallHoldOperation.RELEASE_ALL_HELD_CALLS],
                supported_audio_codecs=[hfp.AudioCodec.CVSD, hfp.AudioCodec.MSBC]))
        elif chan == 'hfp-hf':
            env.hf = hfp.HfProtocol(dlc, hfp.HfConfiguration(
                supported_hf_features=[], supported_hf_indicators=[], supported_audio_codecs=[hfp.AudioCodec.CVSD]))
        else:
            dlc.sink = lambda data, _d=dlc: _d.write(bytes(data))

    env.rfcomm_channel = rfcomm.Server(victim).listen(acceptor)
    # AVDTP
    listener = avdtp.Listener.for_device(victim)
    env.avdtp_servers = []

    def on_avdtp(server):
        env.avdtp_servers.append(server)
        caps = avdtp.MediaCodecCapabilities(
            media_type=avdtp.MediaType.AUDIO, media_codec_type=a2dp.CodecType.SBC,
            media_codec_information=a2dp.SbcMediaCodecInformation(
                sampling_frequency=a2dp.SbcMediaCodecInformation.SamplingFrequency.SF_44100,
                channel_mode=a2dp.SbcMediaCodecInformation.ChannelMode.JOINT_STEREO,
                block_length=a2dp.SbcMediaCodecInformation.BlockLength.BL_16,
                subbands=a2dp.SbcMediaCodecInformation.Subbands.S_8,
                allocation_method=a2dp.SbcMediaCodecInformation.AllocationMethod.LOUDNESS,
                minimum_bitpool_value=2, maximum_bitpool_value=53))
        server.add_sink(caps)
        if chan == 'avdtp-state':
            # three local end-points (sink, source, sink): 'the last one' is not 'the first one'
            async def no_packets():
                return
                yield       # noqa — an empty asynchronous generator
            server.add_source(caps, avdtp.MediaPacketPump(no_packets()))
            server.add_sink(caps)

    listener.on(listener.EVENT_CONNECTION, on_avdtp)
    env.avdtp_listener = listener
    # AVRCP
    env.avrcp = avrcp.Protocol()
    env.avrcp.listen(victim)

    await rg.power_on()
    if rng.random() < 0.7:
        ac, vc = await rg.connect_classic(1, 0)
    else:
        vc, ac = await rg.connect_classic(0, 1)
    await rg.quiesce()
    env.vconn, env.vh, env.ah = vc, vc.handle, ac.handle
    env.atk = Attacker(env, classic=True)
    env.peer_addr = bytes(rg.devices[1].public_address.address_bytes) if hasattr(rg.devices[1].public_address, 'address_bytes') \
        else bytes(rg.devices[1].public_address)
    return env.atk


# =============================================================================
# channel drivers
# =============================================================================
class Driver:
    chan = ''
    max_len = 600

    next_group = None

    def __init__(self, env: Env, rng: random.Random):
        self.env = env
        self.rng = rng
        self.atk: Attacker = env.atk
        self.corpus: list = []

    async def setup(self):
        pass

    async def before_round(self):
        pass

    def tx(self, data: bytes):
        raise NotImplementedError

    def keep(self, data: bytes) -> bool:
        return True

    def phys(self, data: bytes) -> int:
        return 1

    def gen(self, n: int):
        out = []
        while len(out) < n:
            f = rf.mutate(self.rng, self.corpus, max_len=self.max_len)
            if self.keep(f[2]):
                out.append(f)
        return out

    def enum_frames(self):
        for f in rf.all_truncations(self.corpus):
            if self.keep(f[2]):
                yield f
        for f in rf.all_length_settings(self.corpus):
            if self.keep(f[2]):
                yield f

    async def reference(self) -> list:
        """Returns [(symptom, detail)] for every reference request not answered correctly."""
        raise NotImplementedError

    # shared references --------------------------------------------------------
    async def att_read(self):
        atk = self.atk
        atk.data[4] = []
        atk.send(4, rf.att_read_request(self.env.h_ro))
        want = b'\x0B' + KNOWN_VALUE
        got = await atk.until(lambda: next((p for p in atk.data.get(4, []) if p[:1] in (b'\x0B', b'\x01')), None))
        if got is None:
            return [('no-answer-after-garbage', f'ATT Read Request for the known value got no response; received {[p.hex() for p in atk.data.get(4, [])]}')]
        if got != want:
            return [('wrong-answer-after-garbage', f'ATT Read Response {got.hex()} != {want.hex()}')]
        return []

    async def l2cap_echo(self):
        e = await self.atk.echo_request()
        if e is None:
            return []
        return [('no-answer-after-garbage' if e.startswith('no ') else 'wrong-answer-after-garbage', f'L2CAP Echo Request: {e}')]


class AttDriver(Driver):
    def __init__(self, env, rng):
        super().__init__(env, rng)
        self.corpus = rf.att_corpus(env.h_ro, env.h_rw)
        self.max_len = 300

    def tx(self, data):
        self.atk.send(4, data)

    async def reference(self):
        return await self.att_read()


class AttClientDriver(AttDriver):
    """The victim also acts as a GATT client towards the hostile peer."""
    PEER_VALUE = b'peer-value'

    def __init__(self, env, rng):
        super().__init__(env, rng)
        # bias towards server->client PDUs
        self.corpus = [p for p in self.corpus if p.data and (p.data[0] & 1)] * 3 + self.corpus
        self.answering = False
        self.atk.auto.append(self._serve)

    def _serve(self, cid, payload):
        if cid == 4 and self.answering and payload[:1] == b'\x0A':
            self.atk.send(4, b'\x0B' + self.PEER_VALUE)

    async def reference(self):
        bad = await self.att_read()
        self.answering = True
        try:
            v = await vloop.vwait(self.env.vconn.gatt_client.read_value(0x0021, no_long_read=True), 120)
            if bytes(v) != self.PEER_VALUE:
                bad.append(('client-wrong-result-after-garbage', f'victim read_value returned {bytes(v).hex()}'))
        except vloop.Hang:
            bad.append(('client-request-never-completes', 'victim GATT client read_value still pending after 120 virtual s '
                        f'(pending_request={self.env.vconn.gatt_client.pending_request})'))
        except Exception as e:
            bad.append(('client-request-fails-after-garbage', f'victim read_value raised {type(e).__name__}: {e} although the '
                        'peer answered the Read Request'))
        finally:
            self.answering = False
        return bad


class SmpDriver(Driver):
    cid = 6

    def __init__(self, env, rng):
        super().__init__(env, rng)
        self.corpus = rf.smp_corpus()
        self.max_len = 200

    def tx(self, data):
        self.atk.send(self.cid, data)

    async def reference(self):
        atk = self.atk
        bad = await self.att_read()
        # a peer may always abort with Pairing Failed and start again
        atk.send(self.cid, rf.SMP_PAIRING_FAILED)
        try:
            await atk.rg.quiesce(extra_turns=8)
        except vloop.Hang:
            return bad + [('livelock', 'no quiescence after Pairing Failed')]
        atk.data[self.cid] = []
        atk.send(self.cid, rf.SMP_PAIRING_REQUEST)
        got = await atk.until(lambda: next(iter(atk.data.get(self.cid, [])), None))
        if got is None:
            bad.append(('no-answer-after-garbage', 'Pairing Failed + Pairing Request got no SMP answer'))
        elif not (len(got) == 7 and got[0] == 0x02 and 7 <= got[4] <= 16):
            bad.append(('wrong-answer-after-garbage', f'Pairing Request answered with {got.hex()} instead of a Pairing Response'))
        atk.send(self.cid, rf.SMP_PAIRING_FAILED)
        return bad


class SmpBrDriver(SmpDriver):
    cid = 7

    async def reference(self):
        return await self.l2cap_echo()


class LeSigDriver(Driver):
    def __init__(self, env, rng):
        super().__init__(env, rng)
        self.corpus = rf.le_sig_corpus(ECHO_PSM_LE)
        self.max_len = 200
        self.n = 0

    def tx(self, data):
        self.atk.send(5, data)

    async def coc_reference(self):
        atk = self.atk
        res = await atk.open_le_coc(ECHO_PSM_LE)
        if isinstance(res, str):
            return [('channel-open-refused-after-garbage' if 'result' in res else 'no-answer-after-garbage',
                     f'LE Credit Based Connection Request to the echo PSM: {res}')]
        my, dcid, vmtu, vmps, vcred = res
        if vcred < 1:
            return [('wrong-answer-after-garbage', 'echo server granted no initial credits')]
        self.n += 1
        payload = b'C17 coc echo %d' % self.n
        e = await atk.coc_echo(my, dcid, payload[:max(1, min(len(payload), vmps - 2))])
        bad = [] if e is None else [('no-echo-on-new-channel', f'credit-based channel {my:#x}->{dcid:#x}: {e}')]
        ident = atk.nid()
        atk.send_sig(0x06, ident, rf.u16(dcid) + rf.u16(my))
        s = await atk.until(lambda: atk.take_sig(lambda c, i, d: c == 0x07 and i == ident))
        if s is None:
            bad.append(('no-disconnection-response', f'Disconnection Request for {dcid:#x} not answered'))
        return bad

    async def reference(self):
        return (await self.coc_reference()) + (await self.att_read())


class LeCocDriver(LeSigDriver):
    """Hostile K-frames on an open credit-based channel."""

    def __init__(self, env, rng):
        super().__init__(env, rng)
        self.corpus = rf.kframe_corpus(512, 128)
        self.max_len = 700
        self.open = None
        self.atk.auto.append(self._watch)

    def _watch(self, cid, payload):
        # a live peer confirms a Disconnection Request of the victim
        if cid == 5 and len(payload) >= 8 and payload[0] == 0x06:
            dcid, scid = struct.unpack_from('<HH', payload, 4)
            self.atk.send_sig(0x07, payload[1], rf.u16(dcid) + rf.u16(scid))
            if self.open and dcid == self.open[0]:
                self.open = None

    def tx(self, data):
        if self.open:
            self.atk.send(self.open[1], data)
            self._model(data)

    # reference model of what a correct receiver has pending after the hostile K-frames
    # (a first frame announcing more than it carries legitimately leaves an SDU open)
    _pending = 0

    def _model(self, data):
        if self._pending == 0:
            if len(data) < 2:
                # the SDU length itself is incomplete: what follows is undefined, stop judging
                self._pending = -1
                return
            total = struct.unpack_from('<H', data, 0)[0]
            got = len(data) - 2
            if got > total:
                self._pending = 0      # overflow: the SDU is dropped (or the channel closed)
            else:
                self._pending = total - got
        elif self._pending > 0:
            if len(data) > self._pending:
                self._pending = 0      # overflow
            else:
                self._pending -= len(data)

    async def before_round(self):
        if self.open is None:
            res = await self.atk.open_le_coc(ECHO_PSM_LE, credits=200)
            if isinstance(res, str):
                raise HarnessError(f'cannot open the target channel: {res}')
            self.open = res
            self._pending = 0

    async def reference(self):
        bad = []
        if self.open and self._pending >= 0:
            my, dcid, vmtu, vmps, vcred = self.open
            # complete the SDU that the hostile frames legitimately left open, if any
            left = self._pending
            if left > 1500:
                # completing it would make the echo server send more than the credits this peer
                # granted: leave this channel alone and take a fresh one for the next round
                self.open = None
                self._pending = 0
                return await super().reference()
            while left > 0 and self.open:
                n = min(left, max(1, vmps))
                self.atk.send(dcid, bytes(n))
                left -= n
            self._pending = 0
            await self.env.rg.quiesce()
            if self.open:
                self.n += 1
                payload = b'C17 same channel %d' % self.n
                e = await self.atk.coc_echo(my, dcid, payload[:max(1, min(len(payload), vmps - 2))])
                if e is not None and self.open:
                    bad.append(('same-channel-dead-after-garbage',
                                f'credit-based channel {my:#x}->{dcid:#x} stays CONNECTED but a well-formed SDU sent after '
                                f'the hostile frames (and after completing any SDU they left open) is not echoed: {e}'))
                    # do not keep using a channel in an unknown state
                    self.open = None
        return bad + await super().reference()


class HciDriver(Driver):
    """Raw H4 packets handed to the victim host as if from its controller."""

    def __init__(self, env, rng, classic):
        super().__init__(env, rng)
        self.classic = classic
        self.corpus = (rf.hci_event_corpus(env.vh, env.peer_addr, classic) +
                       rf.hci_data_corpus(env.vh, rf.att_read_request(getattr(env, 'h_ro', 3))))
        self.max_len = 300
        self.proxy = env.rg.c2h[0].target

    def keep(self, data):
        return not rf.is_valid_disconnect_event(data, self.env.vh)

    def tx(self, data):
        self.proxy.on_packet(data)

    async def reference(self):
        from bumble import hci
        bad = await (self.l2cap_echo() if self.classic else self.att_read())
        # the command path of the host is still usable: a command the controller answers must complete
        host = self.env.rg.hosts[0]
        want = bytes.fromhex(self.env.rg.addresses[0].replace(':', ''))[::-1]
        try:
            res = await vloop.vwait(host.send_sync_command(hci.HCI_Read_BD_ADDR_Command()), 120)
            self.env.r.ev('host_command_references')
            if bytes(res.bd_addr) != want:
                bad.append(('host-command-wrong-result-after-garbage', f'Read_BD_ADDR returned {bytes(res.bd_addr).hex()} != {want.hex()}'))
        except vloop.Hang:
            bad.append(('wedge:host-command-never-completes', 'Read_BD_ADDR still pending after 120 virtual s although the controller '
                        f'answers; command_semaphore locked={host.command_semaphore.locked()} pending_command={host.pending_command}'))
        except Exception as e:      # noqa: BLE001
            bad.append(('host-command-fails-after-garbage', f'Read_BD_ADDR raised {type(e).__name__}: {e} although the controller answered it'))
        return bad


class BrSigDriver(Driver):
    def __init__(self, env, rng):
        super().__init__(env, rng)
        self.corpus = rf.br_sig_corpus(ECHO_PSM_BR)
        self.max_len = 300
        self.n = 0
        self.atk.auto.append(self._watch)
        self.closed_by_victim = set()

    def _watch(self, cid, payload):
        if cid == 1 and len(payload) >= 8 and payload[0] == 0x06:
            dcid, scid = struct.unpack_from('<HH', payload, 4)
            self.atk.send_sig(0x07, payload[1], rf.u16(dcid) + rf.u16(scid))
            self.closed_by_victim.add(dcid)

    def tx(self, data):
        self.atk.send(1, data)

    async def sdu_echo(self, my, vcid, payload):
        atk = self.atk
        atk.data[my] = []
        atk.send(vcid, payload)
        got = await atk.until(lambda: next(iter(atk.data.get(my, [])), None))
        if got is None:
            return 'no echo'
        if got != payload:
            return f'echo differs: {got.hex()}'
        return None

    async def new_channel_reference(self):
        atk = self.atk
        res = await atk.open_classic(ECHO_PSM_BR)
        if isinstance(res, str):
            return [('channel-open-fails-after-garbage', f'Connection Request to the echo PSM: {res}')]
        my, vcid = res
        self.n += 1
        e = await self.sdu_echo(my, vcid, b'C17 classic echo %d' % self.n)
        bad = [] if e is None else [('no-echo-on-new-channel', f'basic-mode channel {my:#x}->{vcid:#x}: {e}')]
        ident = atk.nid()
        atk.send_sig(0x06, ident, rf.u16(vcid) + rf.u16(my))
        s = await atk.until(lambda: atk.take_sig(lambda c, i, d: c == 0x07 and i == ident))
        if s is None:
            bad.append(('no-disconnection-response', f'Disconnection Request for {vcid:#x} not answered'))
        return bad

    async def reference(self):
        return (await self.l2cap_echo()) + (await self.new_channel_reference())


class BrDynDriver(BrSigDriver):
    """Arbitrary bytes on an open basic-mode channel (all of them are valid SDUs)."""

    def __init__(self, env, rng):
        super().__init__(env, rng)
        self.corpus = rf.ertm_corpus() + [rf.Pdu('dyn/sdu', b'some payload bytes'), rf.Pdu('dyn/big', bytes(500))]
        self.max_len = 1500
        self.ch = None

    async def before_round(self):
        if self.ch is None or self.ch[0] in self.closed_by_victim:
            res = await self.atk.open_classic(ECHO_PSM_BR)
            if isinstance(res, str):
                raise HarnessError(f'cannot open the target channel: {res}')
            self.ch = res

    def tx(self, data):
        self.atk.send(self.ch[1], data)

    async def reference(self):
        bad = await self.l2cap_echo()
        self.n += 1
        e = await self.sdu_echo(self.ch[0], self.ch[1], b'C17 same channel %d' % self.n)
        if e is not None:
            bad.append(('no-echo-on-same-channel', f'basic-mode channel after arbitrary SDUs: {e}'))
        return bad


class ChannelDriver(Driver):
    """Protocols that live on one classic channel opened by hand to `psm`."""
    psm = 0

    def __init__(self, env, rng):
        super().__init__(env, rng)
        self.ch = None
        self.closed = False
        self.atk.auto.append(self._watch)

    def _watch(self, cid, payload):
        if cid == 1 and len(payload) >= 8 and payload[0] == 0x06:
            dcid, scid = struct.unpack_from('<HH', payload, 4)
            self.atk.send_sig(0x07, payload[1], rf.u16(dcid) + rf.u16(scid))
            if self.ch and dcid == self.ch[0]:
                self.closed = True

    async def setup(self):
        res = await self.atk.open_classic(self.psm, mtu=4096)
        if isinstance(res, str):
            raise HarnessError(f'cannot open PSM {self.psm:#x}: {res}')
        self.ch = res

    def tx(self, data):
        self.atk.send(self.ch[1], data)

    def rx(self):
        return self.atk.data.setdefault(self.ch[0], [])

    def channel_closed_by_victim(self):
        if self.closed:
            return [('victim-closed-the-channel', f'the victim sent a Disconnection Request for the {self.chan} channel')]
        return []


class SdpDriver(ChannelDriver):
    psm = 1

    def __init__(self, env, rng):
        super().__init__(env, rng)
        self.corpus = rf.sdp_corpus(SDP_HANDLE)
        self.max_len = 700
        self.tid = 0x4000
        self.deep = None
        self.specs = None

    def gen(self, n):
        out = super().gen(n)
        k = self.rng.random()
        if k < 0.15:
            if self.deep is None:
                self.deep = rf.sdp_deep_frames(self.rng, 12000, siblings=False)
            out[self.rng.randrange(len(out))] = self.rng.choice(self.deep)
        elif k < 0.4:
            # nesting with siblings before / after the nested list at every level (one frame built on demand)
            if self.specs is None:
                self.specs = rf.sdp_shaped_specs()
            fr = rf.sdp_deep_sibling_frames(24000, [self.rng.choice(self.specs)])
            if fr:
                out[self.rng.randrange(len(out))] = fr[0]
        return out

    def enum_frames(self):
        yield from super().enum_frames()
        # (quick tier: the frames that need hundreds of ACL fragments are left to the thorough tier and the random rounds)
        quick = self.env.case.get('stride', 1) > 1
        yield from rf.sdp_deep_frames(self.rng, 12000, sibling_bytes=6000 if quick else 24000)

    async def reference(self):
        self.tid = (self.tid + 1) & 0xFFFF
        rx = self.rx()
        rx.clear()
        self.tx(rf.sdp_service_search(self.tid, [0x1101]))
        want = rf.sdp_pdu(0x03, self.tid, rf.be16(1) + rf.be16(1) + struct.pack('>I', SDP_HANDLE) + b'\x00')
        got = await self.atk.until(lambda: next((p for p in rx if len(p) >= 3 and p[1:3] == rf.be16(self.tid)), None))
        if got is None:
            return self.channel_closed_by_victim() or [('no-answer-after-garbage',
                                                        f'ServiceSearchRequest(0x1101) unanswered; received {[p.hex() for p in rx][:4]}')]
        if got != want:
            return [('wrong-answer-after-garbage', f'ServiceSearchResponse {got.hex()} != {want.hex()}')]
        return []


class RfcommDriver(ChannelDriver):
    psm = 3
    chan = 'rfcomm-mux'

    def __init__(self, env, rng):
        super().__init__(env, rng)
        self.max_len = 400
        self.n = 0

    async def setup(self):
        await super().setup()
        self.rfs = RfSession(self.atk, self.ch[0], self.ch[1], self.env.rfcomm_channel)
        self.corpus = rf.rfcomm_corpus(self.rfs.dlci)
        for step in (self.rfs.open_mux, self.rfs.open_dlc):
            e = await step()
            if e:
                raise HarnessError(f'RFCOMM set-up: {e}')
        if not self.env.dlcs:
            raise HarnessError('victim accepted no DLC')

    def keep(self, data):
        why = rf.rfcomm_is_legit_state_change(data, self.rfs.dlci)
        if why:
            self.env.r.ev('filtered_legit_state_change')
        return why is None

    async def reference(self):
        self.n += 1
        e = await self.rfs.echo(b'C17 rfcomm echo %d' % self.n)
        if e is None:
            if self.n % 2 == 0 and type(self).reopen_and_run is RfcommDriver.reopen_and_run:
                return await self.reopen_and_run()
            return []
        d = self.env.dlcs[-1]
        return self.channel_closed_by_victim() or [
            ('no-echo-after-garbage', f'{e}; victim DLC {d} mux state {d.multiplexer.state.name} '
                                      f'dlcs={ {k: v.state.name for k, v in d.multiplexer.dlcs.items()} }')]

    RUN = 24

    async def reopen_and_run(self):
        """A close / open cycle of the DLC on the acceptor side (DISC -> UA, PN, SABM -> UA, MSC), then more echo frames
        than either credit window holds, credits respected in both directions (the victim must keep granting them)."""
        rfs, atk, r = self.rfs, self.atk, self.env.r

        def diag():
            d = self.env.dlcs[-1]
            return f'victim DLC {d} mux state {d.multiplexer.state.name} dlcs={ {k: v.state.name for k, v in d.multiplexer.dlcs.items()} }'
        n_dlcs = len(self.env.dlcs)
        rfs.frames.clear()
        rfs.tx(rf.rfcomm_frame(rf.DISC, 1, rfs.dlci, 1))
        f = await atk.until(lambda: rfs.take(lambda f: f.ftype in (rf.UA, rf.DM) and f.dlci == rfs.dlci))
        if f is None:
            return self.channel_closed_by_victim() or [('no-ua-for-disc-after-garbage', f'DISC on the live DLC got neither UA nor DM; {diag()}')]
        e = await rfs.open_dlc()
        if e:
            return self.channel_closed_by_victim() or [('dlc-reopen-fails-after-garbage', f'closing and opening the DLC again: {e}; {diag()}')]
        if len(self.env.dlcs) != n_dlcs + 1:
            return [('dlc-reopen-not-delivered-after-garbage', f'the victim answered PN and SABM but its acceptor saw {len(self.env.dlcs) - n_dlcs} new DLC(s); {diag()}')]
        r.ev('rfcomm_acceptor_reopen_cycles')
        for i in range(self.RUN):
            if rfs.victim_credits <= 0:
                got = await atk.until(lambda: True if rfs.victim_credits > 0 else None)
                if got is None:
                    return [('no-credits-granted-on-fresh-dlc', f'frame {i} of the run: the peer used up its credits and the victim grants no more; {diag()}')]
            rfs.victim_credits -= 1
            payload = b'C17 dlc run %d/%d' % (self.n, i)
            rfs.rx.clear()
            rfs.send_data(payload, credits=None if i % 4 == 3 else 1)
            got = await atk.until(lambda: bytes(rfs.rx) if len(rfs.rx) >= len(payload) else None)
            if got != payload:
                return self.channel_closed_by_victim() or [
                    ('no-echo-on-reopened-dlc', f'frame {i} of the run on the re-opened DLC: received {bytes(rfs.rx)!r} != {payload!r}; {diag()}')]
            r.ev('rfcomm_acceptor_run_frames')
        # (the rounds that follow send data without regard to credits: leave the victim enough to echo all of it at once)
        rfs.send_data(b'', credits=60)
        await atk.rg.quiesce(extra_turns=4)
        return []


class RfcommDlcDriver(RfcommDriver):
    chan = 'rfcomm-dlc'

    def gen(self, n):
        out = []
        rfs = self.rfs
        for _ in range(n):
            k = self.rng.choice(['data', 'data-no-credit-flag', 'credits-only', 'credit-255', 'oversize', 'empty-uih',
                                 'pf-without-credit-byte', 'wrong-cr', 'bad-fcs', 'mutated'])
            payload = rf.rnd(self.rng, self.rng.choice([1, 2, 10, 100, 127]))
            if k == 'data':
                f = rf.rfcomm_frame(rf.UIH, 1, rfs.dlci, 1, payload, credits=self.rng.choice([0, 1, 5, 50]))
            elif k == 'data-no-credit-flag':
                f = rf.rfcomm_frame(rf.UIH, 1, rfs.dlci, 0, payload)
            elif k == 'credits-only':
                f = rf.rfcomm_frame(rf.UIH, 1, rfs.dlci, 1, b'', credits=self.rng.choice([0, 1, 7]))
            elif k == 'credit-255':
                f = rf.rfcomm_frame(rf.UIH, 1, rfs.dlci, 1, payload[:3], credits=255)
            elif k == 'oversize':
                f = rf.rfcomm_frame(rf.UIH, 1, rfs.dlci, 0, rf.rnd(self.rng, self.rng.choice([128, 300, 2000])))
            elif k == 'empty-uih':
                f = rf.rfcomm_frame(rf.UIH, 1, rfs.dlci, 0, b'')
            elif k == 'pf-without-credit-byte':
                f = rf.rfcomm_frame(rf.UIH, 1, rfs.dlci, 1, b'')
            elif k == 'wrong-cr':
                f = rf.rfcomm_frame(rf.UIH, 0, rfs.dlci, 0, payload)
            elif k == 'bad-fcs':
                f = rf.rfcomm_frame(rf.UIH, 1, rfs.dlci, 0, payload)
                f = f[:-1] + bytes([f[-1] ^ 0x5A])
            else:
                base = [p for p in self.corpus if 'uih' in p.name and 'mcc' not in p.name]
                _k, _n, f = rf.mutate(self.rng, base, max_len=300)
            if self.keep(f):
                out.append((f'dlc-{k}', 'rfcomm/uih', f))
        return out or [('dlc-data', 'rfcomm/uih', rf.rfcomm_frame(rf.UIH, 1, rfs.dlci, 0, b'x'))]

    def enum_frames(self):
        base = [p for p in self.corpus if 'uih' in p.name and 'mcc' not in p.name]
        for f in list(rf.all_truncations(base)) + list(rf.all_length_settings(base)):
            if self.keep(f[2]):
                yield f


class HfpAgDriver(RfcommDriver):
    """AT command lines fed to an AgProtocol through the DLC."""
    chan = 'hfp-ag'

    def gen(self, n):
        return rf.at_frames(self.rng, 'ag', n)

    def enum_frames(self):
        r2 = random.Random(1234)
        for base in rf.AG_COMMANDS:
            b = base.encode() + b'\r'
            for i in range(len(b)):
                yield ('trunc', base, b[:i])
        yield from rf.at_frames(r2, 'ag', 300)
        # every valid command two and three times in one chunk, each such chunk directly before a reference
        for base in rf.AG_COMMANDS:
            for k in (2, 3):
                yield ('solo-repeat', base, (base.encode() + b'\r') * k)

    def phys(self, data):
        return (len(data) + 119) // 120

    def tx(self, data):
        # as many UIH frames as the negotiated frame size needs
        for i in range(0, max(1, len(data)), 120):
            self.rfs.send_data(data[i:i + 120], credits=30)
        if data:
            self.sent_tail = data[-1:]

    async def at_reference(self, attempt):
        rfs = self.rfs
        if getattr(self, 'sent_tail', b'\r') != b'\r':
            rfs.send_data(b'\r', credits=30)      # terminate the line the garbage left open
            self.sent_tail = b'\r'
            try:
                await self.atk.rg.quiesce(extra_turns=8)
            except vloop.Hang:
                return [('livelock', 'no quiescence after the terminating <CR>')]
        rfs.rx.clear()
        rfs.send_data(b'AT+CMEE=1\r', credits=30)
        got = await self.atk.until(lambda: bytes(rfs.rx) if rfs.rx.endswith(b'\r\n') and len(rfs.rx) >= 6 else None)
        if got == b'\r\nOK\r\n':
            return []
        ag = self.env.ag
        stuck = bytes(ag.read_buffer[:60]) if ag is not None else b''
        unread = ag is not None and b'AT+CMEE=1\r' in ag.read_buffer
        if (got is None and not rfs.rx) or unread:
            # (when the reference line is still in the victim's buffer, whatever arrived is the late answer to
            # an earlier hostile line, not an answer to AT+CMEE=1)
            symptom = 'no-answer-after-garbage'
            if unread:
                # diagnosis only (names the key, does not decide): is the line at the head of the
                # victim's buffer one its own parser rejects, or a parseable one left unread?
                from bumble import hfp
                head = bytes(ag.read_buffer).split(b'\r')[0]
                try:
                    hfp.AtCommand.parse_from(bytearray(head))
                    symptom = 'lines-left-unread-after-handler-exception'
                except Exception:
                    symptom = 'unparseable-line-never-consumed'
            return self.channel_closed_by_victim() or [
                (symptom, f'AT+CMEE=1 got no final result code (received {bytes(rfs.rx)!r}); AG read_buffer starts with '
                          f'{stuck!r} ({len(ag.read_buffer) if ag else 0} bytes)')]
        if got is not None and got.endswith(b'\r\n\r\nOK\r\n') and got.startswith(b'\r\n'):
            # the victim consumed the reference line (it is no longer in its buffer) and the stream ends with its
            # OK: what precedes are late answers to earlier hostile lines, which this property does not forbid
            self.env.r.ev('late_answers_to_earlier_lines')
            return []
        return [('wrong-answer-after-garbage', f'AT+CMEE=1 answered {bytes(rfs.rx)!r}')]

    async def reference(self):
        return await self.at_reference(0)


class HfpHfDriver(RfcommDriver):
    """Result codes fed to an HfProtocol; the attacker is a live AG: it answers OK to every
    command line the HF sends."""
    chan = 'hfp-hf'

    async def setup(self):
        await super().setup()
        self.lines = []           # command lines received from the HF
        self.linebuf = bytearray()
        self.rfs.on_data = self._on_at
        self.events = []
        hf = self.env.hf
        if hf is None:
            raise HarnessError('no HfProtocol on the victim')
        hf.on(hf.EVENT_AG_INDICATOR, lambda st: self.events.append((st.indicator.value if hasattr(st.indicator, 'value') else str(st.indicator),
                                                                    st.current_status)))
        self.run_task = asyncio.ensure_future(hf.run())
        # SLC as a scripted AG
        ok = await self.atk.until(lambda: True if any(l.startswith(b'AT+CMER') for l in self.lines) else None, t=10)
        await self.atk.rg.quiesce(extra_turns=10)
        if not ok or len(hf.ag_indicators) != 3:
            raise HarnessError(f'SLC set-up failed: lines={self.lines} indicators={hf.ag_indicators}')

    def _on_at(self, data):
        self.linebuf += data
        while b'\r' in self.linebuf:
            i = self.linebuf.index(b'\r')
            line, self.linebuf = bytes(self.linebuf[:i]), self.linebuf[i + 1:]
            self.lines.append(line)
            if line.startswith(b'AT+BRSF='):
                self.say(b'+BRSF: 0')
            elif line == b'AT+CIND=?':
                self.say(b'+CIND: ("call",(0,1)),("callsetup",(0-3)),("service",(0-1))')
            elif line == b'AT+CIND?':
                self.say(b'+CIND: 0,0,1')
            self.say(b'OK')
            if line.startswith(b'AT+BCS=') and self.rng.random() < 0.6:
                # a hostile AG may send more than one final result code for one command
                self.say(self.rng.choice([b'ERROR', b'BLACKLISTED', b'+CME ERROR: 30', b'OK', b'NO CARRIER']))

    def say(self, text):
        self.rfs.send_data(b'\r\n' + text + b'\r\n', credits=30)

    def gen(self, n):
        out = rf.at_frames(self.rng, 'hf', n)
        if self.rng.random() < 0.2:
            # a valid unsolicited code that makes the HF issue a command of its own (AT+BCS=)
            out.insert(self.rng.randrange(len(out) + 1), ('provoke-command', '+BCS: 1', b'\r\n+BCS: 1\r\n'))
        return out

    def enum_frames(self):
        r2 = random.Random(4321)
        for base in rf.HF_RESULTS:
            b = b'\r\n' + base.encode() + b'\r\n'
            for i in range(len(b)):
                yield ('trunc', base, b[:i])
        yield from rf.at_frames(r2, 'hf', 300)
        # a result code whose parameters are not UTF-8, with a final result code in the same chunk,
        # each such chunk directly before a reference
        for base in rf.HF_RESULTS:
            for final in (b'ERROR', b'OK'):
                yield ('solo-non-utf8-then-final', base, b'\r\n' + base.encode() + b',\xa6\xa9\r\n\r\n' + final + b'\r\n')

    def phys(self, data):
        return (len(data) + 119) // 120

    def tx(self, data):
        for i in range(0, max(1, len(data)), 120):
            self.rfs.send_data(data[i:i + 120], credits=30)
        self.sent_tail = (getattr(self, 'sent_tail', b'') + data)[-2:]

    async def reference(self):
        hf = self.env.hf
        bad = []
        # a line the garbage left open is terminated the way an AG terminates a result code
        if getattr(self, 'sent_tail', b'\r\n') != b'\r\n':
            self.rfs.send_data(b'\r\n', credits=30)
            self.sent_tail = b'\r\n'
        try:
            await self.atk.rg.quiesce(extra_turns=8)
        except vloop.Hang:
            return [('livelock', 'no quiescence after terminating the open line')]
        self.n += 1
        # A: a command of the HF is answered OK by the (live) AG: execute_command must return
        stale = hf.response_queue.qsize()      # diagnosis only: result codes left over from an earlier command
        try:
            await vloop.vwait(hf.execute_command('AT+CMEE=1'), 60)
        except vloop.Hang:
            bad.append(('command-never-completes', 'execute_command(AT+CMEE=1) pending after 60 virtual s'))
        except Exception as e:
            bad.append(('stale-final-result-poisons-next-command' if stale else 'ok-not-seen-after-garbage',
                        f'execute_command(AT+CMEE=1) raised {type(e).__name__}: {e} although the AG answered OK; '
                        f'{stale} result code(s) were left in the response queue before the command; HF read_buffer={bytes(hf.read_buffer[:60])!r}'))
        # B: an unsolicited +CIEV is still processed
        want = self.n & 1
        self.events.clear()
        self.say(b'+CIEV: 3,%d' % want)
        got = await self.atk.until(lambda: self.events[-1] if self.events else None, t=2.0)
        if got is None:
            done = self.run_task.done()
            bad.append(('unsolicited-loop-dead' if done else 'unsolicited-not-processed',
                        f'+CIEV: 3,{want} produced no ag_indicator event; run() task done={done}; '
                        f'HF read_buffer={bytes(hf.read_buffer[:60])!r}'))
        elif got[1] != want:
            bad.append(('wrong-answer-after-garbage', f'+CIEV: 3,{want} reported as {got}'))
        if bad and hf.read_buffer:
            # diagnosis only (names the key): a complete <CR><LF>..<CR><LF> unit still in the buffer was
            # rejected by the parser and never consumed; otherwise the framing lost step with the stream
            buf = bytes(hf.read_buffer)
            h = buf.find(b'\r\n')
            t = buf.find(b'\r\n', h + 2) if h >= 0 else -1
            diag = 'unparseable-line-never-consumed' if (h >= 0 and t >= 0) else 'stray-delimiter-desynchronises-framing'
            bad = [(diag, ' / '.join(d for _s, d in bad))]
        return bad


class AvdtpDriver(ChannelDriver):
    psm = 0x19

    def __init__(self, env, rng):
        super().__init__(env, rng)
        self.corpus = rf.avdtp_corpus(1)
        self.max_len = 400
        self.label = 0

    async def reference(self):
        self.label = (self.label + 1) & 0xF
        rx = self.rx()
        rx.clear()
        self.tx(rf.avdtp_discover(self.label))
        got = await self.atk.until(lambda: next((p for p in rx if len(p) >= 2 and p[0] >> 4 == self.label and p[1] & 0x3F == 1), None))
        if got is None:
            return self.channel_closed_by_victim() or [('no-answer-after-garbage', f'AVDTP Discover unanswered; received {[p.hex() for p in rx][:4]}')]
        # accept, single packet; one endpoint: SEID 1, audio, sink (in-use bit free)
        ok = (got[0] & 0x0F) == 0x02 and len(got) == 4 and got[2] & 0xFD == (1 << 2) and got[3] == 0x08
        if not ok:
            return [('wrong-answer-after-garbage', f'Discover response {got.hex()}')]
        return []


class AvctpDriver(ChannelDriver):
    psm = 0x17

    def __init__(self, env, rng):
        super().__init__(env, rng)
        self.corpus = rf.avctp_corpus()
        self.max_len = 700
        self.label = 0

    async def reference(self):
        self.label = (self.label + 1) & 0xF
        rx = self.rx()
        rx.clear()
        stale = self.env.avrcp.receive_command_state
        self.tx(rf.avrcp_get_capabilities(self.label))
        got = await self.atk.until(lambda: next((p for p in rx if len(p) >= 3 and p[0] >> 4 == self.label and p[0] & 2), None))
        if got is None:
            p = self.env.avrcp
            return self.channel_closed_by_victim() or [
                ('command-dropped-after-unfinished-command' if stale is not None else 'no-answer-after-garbage',
                 f'AVRCP GetCapabilities(company) unanswered; received {[p.hex() for p in rx][:4]}; '
                 f'receive_command_state before the request={stale}')]
        body = got[3:]
        ok = (got[0] & 0x0F) == 0x02 and got[1:3] == rf.be16(rf.AVRCP_PID) and len(body) >= 13 and body[0] == 0x0C and \
            body[1] == 0x48 and body[2] == 0x00 and body[3:6] == rf.BT_SIG and body[6] == 0x10 and body[10] == 0x02 and \
            body[11] >= 1 and rf.BT_SIG in [body[12 + 3 * i: 15 + 3 * i] for i in range(body[11])]
        if not ok:
            return [('wrong-answer-after-garbage', f'GetCapabilities response {got.hex()}')]
        return []


# =============================================================================
# (a) command flow control: a controller that closes and re-opens the command window
# =============================================================================
FLOW_RESP = ('sync', 'async')           # the window is closed by a Command Complete / by a Command Status
FLOW_NOP = ('cc', 'cs')                 # ... and re-opened by an opcode-0 Command Complete / Command Status
FLOW_TIMING = ('burst', 'turn1', 'turn3', 'later')
FLOW_INTER = ('none', 'before', 'between', 'after')
FLOW_SYNC_CMDS = ('bd_addr', 'local_name', 'local_version', 'le_buffer_size', 'le_rand', 'unknown_sync')
FLOW_DELAYS = (0.01, 0.5, 2.0, 5.0)


def flow_script(resp, nop, timing, pre_zero, dup, inter, num, extra, cmd, delay, neutral):
    return bytes([FLOW_RESP.index(resp), FLOW_NOP.index(nop), FLOW_TIMING.index(timing), pre_zero, dup,
                  FLOW_INTER.index(inter), num, extra, cmd, delay, neutral])


def flow_class(plan) -> str:
    if plan is None:
        return 'after-unshaped-responses'
    t = {'burst': 'same-burst', 'turn1': 'next-turns', 'turn3': 'next-turns', 'later': 'later'}[plan['timing']]
    # (whether the window was closed by a Command Complete or a Command Status is in the detail: plan['resp'])
    return f"after-zero-credits+{plan['nop']}-nop-{t}"


class FlowShaper:
    """Stands between the controller->host pipe and the victim and plays a controller that uses command flow
    control the way Core Vol 4 Part E 4.4 allows: the response to a command carries Num_HCI_Command_Packets = 0
    and the window is re-opened by an event for opcode 0x0000 (Command Complete, 7.7.14, or Command Status with
    status 0, 7.7.15), in the same delivery burst as the response, a few loop turns later, or after some
    (virtual) time; preceded by opcode-0 events that still say 0, repeated, and interleaved with events that
    have nothing to do with flow control."""

    def __init__(self, drv, inner):
        self.drv = drv
        self.inner = inner
        self.plans: list[dict] = []

    def on_packet(self, packet):
        plan = None
        if len(packet) >= 6 and packet[0] == 0x04 and packet[1] in (0x0E, 0x0F):
            off = 4 if packet[1] == 0x0E else 5
            opcode = int.from_bytes(packet[off:off + 2], 'little')
            # (the host sends its commands one at a time in the order they were issued: the head of the list
            # belongs to this response)
            if self.plans and self.plans[0]['opcode'] == opcode:
                plan = self.plans.pop(0)
        if plan is None or not plan.get('shaped'):
            return self.inner.on_packet(packet)
        drv = self.drv
        r = drv.env.r
        plan['resp'] = 'cc' if packet[1] == 0x0E else 'cs'
        drv.last_shaped = plan
        r.ev('flow_zero_credit_responses')
        r.ev(f"flow_zero_credit_{plan['resp']}")
        nop = rf.hci_nop_command_complete if plan['nop'] == 'cc' else rf.hci_nop_command_status
        neutral = drv.neutral[plan['neutral'] % len(drv.neutral)]
        first = []
        if plan['inter'] == 'before':
            first.append(('neutral', neutral))
        first += [('nop-zero', nop(0))] * plan['pre_zero']
        if plan['inter'] == 'between':
            first.append(('neutral', neutral))

        def reopen():
            # (a second identical re-opening event only when no other command is waiting for the window:
            # bumble's host counts each of them as one more credit, which is a question of flow-control
            # accounting, not of this property)
            others = sum(1 for t, _p in drv.tasks if not t.done() and t is not plan.get('task'))
            evs = [('nop', nop(plan['num']))] * (plan['dup'] if others == 0 else 1)
            if plan['inter'] == 'after':
                evs.append(('neutral', neutral))
            self.deliver(evs, plan)

        self.inner.on_packet(rf.hci_set_num_command_packets(packet, 0))
        self.deliver(first, plan)
        loop = asyncio.get_running_loop()
        if plan['timing'] == 'burst':
            reopen()
        elif plan['timing'] == 'later':
            loop.call_later(FLOW_DELAYS[plan['delay'] % len(FLOW_DELAYS)], reopen)
        else:
            turns = 1 if plan['timing'] == 'turn1' else 3

            def step(n):
                if n <= 0:
                    reopen()
                else:
                    loop.call_soon(step, n - 1)
            loop.call_soon(step, turns - 1)

    def deliver(self, evs, plan):
        r = self.drv.env.r
        for what, data in evs:
            r.ev('flow_events_delivered')
            if what == 'nop':
                r.ev({'burst': 'flow_nops_same_burst', 'later': 'flow_nops_later'}.get(plan['timing'], 'flow_nops_next_turns'))
                r.ev(f"flow_nops_{plan['nop']}")
            elif what == 'nop-zero':
                r.ev('flow_nops_still_zero')
            else:
                r.ev('flow_neutral_events')
            self.inner.on_packet(data)


class FlowDriver(Driver):
    """Histories of host commands whose responses close the command window (see FlowShaper); afterwards every
    command - those of the history and a reference Read_BD_ADDR - must complete in bounded virtual time."""

    def __init__(self, env, rng):
        super().__init__(env, rng)
        self.host = env.rg.hosts[0]
        self.shaper = FlowShaper(self, env.rg.c2h[0].target)
        env.rg.c2h[0].target = self.shaper
        self.neutral = rf.hci_neutral_events(env.vh)
        self.tasks: list = []          # (task, plan | None)
        self.last_shaped = None
        self.address = bytes.fromhex(env.rg.addresses[0].replace(':', ''))[::-1]
        case = env.case
        if case['mode'] == 'enum':
            self.nops = (FLOW_NOP[case['part'] % 2],)
        else:
            self.nops = rng.choice([('cc',), ('cc',), ('cs',), ('cs',), ('cc', 'cs')])

    # -- scripts -----------------------------------------------------------------
    def name_of(self, sc):
        return (f'{FLOW_RESP[sc[0]]}-response-zero+{sc[3]}x{FLOW_NOP[sc[1]]}-nop(0)+{sc[4]}x{FLOW_NOP[sc[1]]}-nop({sc[6]})-'
                f'{FLOW_TIMING[sc[2]]}/neutral-{FLOW_INTER[sc[5]]}/+{sc[7]}-concurrent')

    def gen(self, n):
        rng = self.rng
        out = []
        for _ in range(n):
            sc = flow_script(rng.choice(FLOW_RESP), rng.choice(self.nops), rng.choice(FLOW_TIMING), rng.choice([0, 0, 1, 2]),
                             rng.choice([1, 1, 2, 3]), rng.choice(FLOW_INTER), rng.choice([1, 1, 2, 5, 255]),
                             rng.choice([0, 0, 0, 1, 2]), rng.randrange(len(FLOW_SYNC_CMDS)), rng.randrange(len(FLOW_DELAYS)),
                             rng.randrange(16))
            out.append((f'flow-{FLOW_NOP[sc[1]]}-nop-{FLOW_TIMING[sc[2]]}', self.name_of(sc), sc))
        return out

    def enum_frames(self):
        lists = {}
        for nop in FLOW_NOP:
            lst = lists[nop] = []
            i = 0
            for resp in FLOW_RESP:
                for timing in FLOW_TIMING:
                    for pre_zero in (0, 1):
                        for dup in (1, 2):
                            for inter in FLOW_INTER:
                                for extra in (0, 1, 2):
                                    i += 1
                                    sc = flow_script(resp, nop, timing, pre_zero, dup, inter, (1, 2, 255)[i % 3], extra,
                                                     i % len(FLOW_SYNC_CMDS), i % len(FLOW_DELAYS), i % 16)
                                    lst.append((f'flow-{nop}-nop-{timing}', self.name_of(sc), sc))
        # run_case slices [part::parts] with parts = 4: even parts get the Command Complete re-openings, odd parts
        # the Command Status ones (a finding about one kind must not hide the other)
        out = []
        for a, b in zip(lists['cc'], lists['cs']):
            out += [a, b]
        return out

    # -- execution ------------------------------------------------------------------
    def command(self, resp, which):
        from bumble import hci
        if resp == 'async':
            return hci.HCI_LE_Read_Remote_Features_Command(connection_handle=self.env.vh)
        name = FLOW_SYNC_CMDS[which % len(FLOW_SYNC_CMDS)]
        return {'bd_addr': hci.HCI_Read_BD_ADDR_Command, 'local_name': hci.HCI_Read_Local_Name_Command,
                'local_version': hci.HCI_Read_Local_Version_Information_Command,
                'le_buffer_size': hci.HCI_LE_Read_Buffer_Size_Command, 'le_rand': hci.HCI_LE_Rand_Command,
                'unknown_sync': lambda: hci.HCI_Read_RSSI_Command(handle=self.env.vh)}[name]()

    async def run_command(self, cmd, resp):
        try:
            if resp == 'async':
                return 'ok', await self.host.send_async_command(cmd, check_status=False)
            return 'ok', await self.host.send_sync_command(cmd)
        except asyncio.CancelledError:
            raise
        except BaseException as e:      # noqa: BLE001 — classified by the caller
            return 'exc', e

    def tx(self, sc):
        from bumble import hci
        plan = {'timing': FLOW_TIMING[sc[2]], 'nop': FLOW_NOP[sc[1]], 'pre_zero': sc[3], 'dup': sc[4], 'inter': FLOW_INTER[sc[5]],
                'num': sc[6], 'delay': sc[9], 'neutral': sc[10], 'script': self.name_of(sc), 'shaped': True}
        resp = FLOW_RESP[sc[0]]
        cmd = self.command(resp, sc[8])
        plan['opcode'] = cmd.op_code
        plan['cmd'] = cmd.name
        self.shaper.plans.append(plan)
        plan['task'] = asyncio.ensure_future(self.run_command(cmd, resp))
        self.tasks.append((plan['task'], plan))
        for _ in range(sc[7]):
            # further commands issued at the same moment: they wait for the window like a real caller would
            extra = hci.HCI_Read_BD_ADDR_Command()
            self.shaper.plans.append({'opcode': extra.op_code, 'shaped': False})
            self.tasks.append((asyncio.ensure_future(self.run_command(extra, 'sync')), None))

    def judge_result(self, res, cmd_name, bad):
        kind, v = res
        if kind == 'exc':
            if is_fatal(v):
                bad.append((f'wedge:fatal-{type(v).__name__}', f'{cmd_name} raised {type(v).__name__}: {v}'))
            else:
                self.env.r.ev('flow_commands_ordinary_exception')
                self.env.r.add_extra_list('flow_command_exception_types', f'{cmd_name}:{type(v).__name__}')
                if cmd_name == 'HCI_READ_BD_ADDR_COMMAND':
                    bad.append(('command-fails-after-flow-control', f'{cmd_name} raised {type(v).__name__}: {v} although the '
                                'controller answered it'))
        elif cmd_name == 'HCI_READ_BD_ADDR_COMMAND':
            got = bytes(getattr(v, 'bd_addr', b''))
            if got != self.address:
                bad.append(('command-wrong-result-after-flow-control', f'Read_BD_ADDR returned {got.hex()} != {self.address.hex()}'))

    async def reference(self):
        from bumble import hci
        r = self.env.r
        bad = []
        tasks = self.tasks
        pend = [t for t, _p in tasks if not t.done()]
        if pend:
            await asyncio.wait(pend, timeout=300)          # virtual seconds
        self.tasks = []
        stuck = next((i for i, (t, _p) in enumerate(tasks) if not t.done()), None)
        if stuck is not None:
            culprit = next((p for _t, p in reversed(tasks[:stuck]) if p is not None and 'resp' in p), None)
            n = sum(1 for t, _p in tasks if not t.done())
            for t, _p in tasks:
                if not t.done():
                    t.cancel()
            sem = self.host.command_semaphore
            return [(f'wedge:command-never-completes/{flow_class(culprit)}',
                     f'{n} of {len(tasks)} host commands of the history still pending 300 virtual s after the last window '
                     f're-opening was due; last shaped response ({culprit and culprit.get("resp")}) before the first stuck one: {culprit and culprit["script"]} '
                     f'({culprit and culprit["cmd"]}); command_semaphore locked={sem.locked()} pending_command={self.host.pending_command}')]
        for t, p in tasks:
            self.judge_result(t.result(), p['cmd'] if p else 'HCI_READ_BD_ADDR_COMMAND', bad)
        r.ev('flow_commands_completed', len(tasks))
        ref = hci.HCI_Read_BD_ADDR_Command()
        self.shaper.plans.append({'opcode': ref.op_code, 'shaped': False})
        task = asyncio.ensure_future(self.run_command(ref, 'sync'))
        self.tasks.append((task, None))          # (in the ledger of waiting commands, like every other one)
        try:
            res = await vloop.vwait(task, 300)
            self.tasks = []
        except vloop.Hang:
            self.tasks = []
            sem = self.host.command_semaphore
            return bad + [(f'wedge:command-never-completes/{flow_class(self.last_shaped)}',
                           f'reference Read_BD_ADDR still pending after 300 virtual s; last shaped response: '
                           f'{self.last_shaped and self.last_shaped["script"]}; command_semaphore locked={sem.locked()} '
                           f'pending_command={self.host.pending_command}')]
        n0 = len(bad)
        self.judge_result(res, 'HCI_READ_BD_ADDR_COMMAND', bad)
        if len(bad) == n0:
            r.ev('flow_reference_commands_ok')
        return bad + await self.att_read()


# =============================================================================
# (b) refusal dialogues during the configuration of a BR/EDR channel
# =============================================================================
CONF_RESULT = {0: 'success', 1: 'unacceptable-parameters', 2: 'rejected', 3: 'unknown-options', 4: 'pending', 5: 'flow-spec-rejected'}


class BrConfigDriver(BrSigDriver):
    """Every round configures a fresh basic-mode (sometimes ERTM) channel, opened by the peer or by the victim.
    The hostile frames are Configure Requests carrying options a responder refuses or skips (unknown, hint,
    unimplemented, FCS, wrong mode); then, as Core Vol 3 Part A 4.4/4.5 tells the requester, a well-formed
    Configure Request follows: it must be answered with SUCCESS, the channel must open and carry data."""

    def __init__(self, env, rng):
        super().__init__(env, rng)
        self.options = rf.conf_refusable_options()
        self.corpus = []
        self.cur = None
        self.atk.serve(PEER_PSM, auto_config=False)

    # -- frames: the option bytes of one Configure Request ---------------------------------
    def frame(self, klass, name, opt, rng, solo=False):
        mtu = rf.conf_opt(1, rf.u16(rng.choice([48, 672, 1024])))
        shape = rng.choice(['alone', 'after-mtu', 'before-mtu']) if not solo else 'alone'
        data = {'alone': opt, 'after-mtu': mtu + opt, 'before-mtu': opt + mtu}[shape]
        return (('solo-' if solo else '') + klass, f'{name}/{shape}', data)

    def gen(self, n):
        rng = self.rng
        out = []
        for _ in range(min(n, rng.choice([1, 2, 3, 4]))):
            k = rng.random()
            if k < 0.8:
                klass, name, opt = rng.choice(self.options)
                if rng.random() < 0.15:
                    k2, n2, o2 = rng.choice(self.options)
                    opt, name = opt + o2, f'{name}+{n2}'
                out.append(self.frame(klass, name, opt, rng))
            elif k < 0.9:
                # ('No FCS': acceptable in every mode; asking for an FCS would, once accepted, change the frame format)
                out.append(self.frame('fcs-option', 'no-fcs', rf.conf_opt(5, b'\x00'), rng))
            else:
                out.append(self.frame('mode-mismatch', 'rfc-other-mode', rf.conf_opt(4, bytes([rng.choice([1, 2, 4]), 8, 3]) + rf.u16(2000) + rf.u16(12000) + rf.u16(256)), rng))
        return out

    def enum_frames(self):
        r2 = random.Random(99)
        for klass, name, opt in self.options:
            yield self.frame(klass, name, opt, r2, solo=True)
            mtu = rf.conf_opt(1, rf.u16(672))
            yield ('solo-' + klass, f'{name}/after-mtu', mtu + opt)

    # -- one configuration phase ----------------------------------------------------------------
    def vreq(self):
        """Next Configure Request of the victim for the current channel, if one arrived."""
        my = self.cur['my']
        return self.atk.take_sig(lambda c, i, d: c == 0x04 and len(d) >= 4 and struct.unpack_from('<H', d, 0)[0] == my)

    def answer_vreq(self, s, result=0, options=None):
        self.atk.send_sig(0x05, s[1], rf.u16(self.cur['dcid']) + rf.u16(0) + rf.u16(result) + (s[2][4:] if options is None else options))

    async def before_round(self):
        from bumble import l2cap
        atk, rng = self.atk, self.rng
        self.cur = None
        atk.sigs.clear()
        ertm = rng.random() < 0.2
        initiated = (not ertm) and rng.random() < 0.3
        cur = {'ertm': ertm, 'victim_initiated': initiated, 'sent': [], 'task': None}
        if initiated:
            n0 = len(atk.served)
            cur['task'] = asyncio.ensure_future(self.env.vconn.create_l2cap_channel(spec=l2cap.ClassicChannelSpec(psm=PEER_PSM, mtu=1200)))
            got = await atk.until(lambda: atk.served[n0] if len(atk.served) > n0 else None)
            if got is None:
                raise HarnessError('the victim sent no Connection Request for the peer PSM')
            cur['my'], cur['dcid'] = got[0], got[1]
        else:
            my = atk.new_cid()
            ident = atk.nid()
            atk.send_sig(0x02, ident, rf.u16(ECHO_PSM_ERTM if ertm else ECHO_PSM_BR) + rf.u16(my))
            s = await atk.until(lambda: atk.take_sig(lambda c, i, d: c == 0x03 and i == ident and len(d) >= 8 and
                                                     struct.unpack_from('<H', d, 4)[0] != 1))
            if s is None or struct.unpack_from('<H', s[2], 4)[0] != 0:
                raise HarnessError(f'cannot open a channel for the configuration dialogue: {s}')
            cur['my'], cur['dcid'] = my, struct.unpack_from('<H', s[2], 0)[0]
        self.closed_by_victim.discard(cur['my'])      # (CIDs are reused: what an earlier channel with this CID did is history)
        self.cur = cur
        # the victim's own Configure Request: answered now, later, or first refused with a counter-proposal
        cur['order'] = rng.choice(['answer-first', 'answer-first', 'answer-last', 'refuse-first'])
        if cur['order'] != 'answer-last':
            s = await atk.until(self.vreq)
            if s is None:
                raise HarnessError('the victim sent no Configure Request')
            if cur['order'] == 'refuse-first' and not ertm:
                # unacceptable MTU: the response proposes 256 (legal: 4.5, result 0x0001 carries acceptable values)
                self.answer_vreq(s, result=1, options=rf.conf_opt(1, rf.u16(256)))
                self.env.r.ev('config_victim_request_refused')
                if rng.random() < 0.5:
                    s = await atk.until(self.vreq)
                    if s is not None:
                        self.answer_vreq(s)
            else:
                self.answer_vreq(s)
            await atk.rg.quiesce(extra_turns=4)

    def tx(self, data):
        cur = self.cur
        ident = self.atk.nid()
        cur['sent'].append((ident, data))
        self.atk.send_sig(0x04, ident, rf.u16(cur['dcid']) + rf.u16(0) + data)

    async def reference(self):
        from bumble import l2cap
        atk, r = self.atk, self.env.r
        cur, self.cur = self.cur, None
        if cur is None:
            return await super().reference()
        self.cur = cur      # (vreq / answer_vreq use it)
        try:
            return await self.finish_dialogue(cur)
        finally:
            self.cur = None
            t = cur['task']
            if t is not None and not t.done():
                t.cancel()

    async def finish_dialogue(self, cur):
        atk, r = self.atk, self.env.r
        my, dcid = cur['my'], cur['dcid']
        ctx = f"channel {my:#x}->{dcid:#x} ({'opened by the victim' if cur['victim_initiated'] else 'opened by the peer'}, " \
              f"{'ERTM' if cur['ertm'] else 'basic'}, victim request {cur['order']})"
        # 1. what happened to the hostile requests
        last = 'no-response'
        accepted = False
        for ident, data in cur['sent']:
            s = await atk.until(lambda: atk.take_sig(lambda c, i, d: c in (0x05, 0x01) and i == ident), t=1.0)
            if s is None:
                r.ev('config_hostile_unanswered')
                last = 'no-response'
            elif s[0] == 0x01:
                r.ev('config_hostile_command_reject')
                last = 'command-reject'
            else:
                res = struct.unpack_from('<H', s[2], 4)[0] if len(s[2]) >= 6 else -1
                last = CONF_RESULT.get(res, 'other-result')
                r.ev(f'config_hostile_result_{last}')
                if res == 0:
                    accepted = True
                else:
                    r.ev('config_refusals_observed')
        if my in self.closed_by_victim:
            # the victim gave the channel up (a Disconnection Request, e.g. after a mode it does not do): legitimate,
            # nothing more is owed on this channel - but the next one must work
            r.ev('config_victim_closed_channel')
            return (await self.l2cap_echo()) + (await self.new_channel_reference())
        # 2. the well-formed request
        if not accepted:
            ident = atk.nid()
            opts = rf.conf_opt(1, rf.u16(1024))
            if cur['ertm']:
                opts += rf.conf_opt(4, bytes([3, 8, 3]) + rf.u16(2000) + rf.u16(12000) + rf.u16(256))
            atk.send_sig(0x04, ident, rf.u16(dcid) + rf.u16(0) + opts)
            s = await atk.until(lambda: atk.take_sig(lambda c, i, d: c in (0x05, 0x01) and i == ident))
            if s is None:
                return [(f'wellformed-retry-unanswered/after-{last}',
                         f'{ctx}: Configure Request (MTU option only) sent after {len(cur["sent"])} refused/ignored request(s) got no '
                         f'Configure Response; victim channel state {self.victim_state(cur)}')]
            res = struct.unpack_from('<H', s[2], 4)[0] if s[0] == 0x05 and len(s[2]) >= 6 else -1
            if res != 0:
                return [(f'wellformed-retry-refused/after-{last}',
                         f'{ctx}: well-formed Configure Request answered with code {s[0]:#x} {s[2].hex()}')]
            r.ev('config_retries_answered')
        # 3. the victim's own request(s)
        for _ in range(6):
            s = await atk.until(self.vreq, t=0.5)
            if s is None:
                break
            self.answer_vreq(s)
        await atk.rg.quiesce(extra_turns=8)
        if my in self.closed_by_victim:
            r.ev('config_victim_closed_channel')
            return (await self.l2cap_echo()) + (await self.new_channel_reference())
        # 4. the channel is open and carries data
        bad = []
        self.n += 1
        payload = b'C17 after refusal %d' % self.n
        if cur['victim_initiated']:
            try:
                ch = await vloop.vwait(cur['task'], 60)
            except vloop.Hang:
                return [(f'victim-open-never-completes/after-{last}', f'{ctx}: create_l2cap_channel still pending 60 virtual s after both '
                                                                     f'directions were configured; state {self.victim_state(cur)}')]
            except Exception as e:
                return [(f'victim-open-fails/after-{last}', f'{ctx}: create_l2cap_channel raised {type(e).__name__}: {e}')]
            got = []
            ch.sink = lambda data: got.append(bytes(data))
            atk.data[my] = []
            atk.send(dcid, payload)
            ch.write(payload[::-1])
            await atk.until(lambda: True if got and atk.data.get(my) else None)
            if got != [payload] or atk.data.get(my) != [payload[::-1]]:
                bad.append((f'no-data-after-refusal-dialogue/after-{last}', f'{ctx}: victim received {got}, peer received {atk.data.get(my)}'))
            else:
                r.ev('config_victim_initiated_opened')
                r.ev('config_channels_carry_data')
        elif not cur['ertm']:
            e = await self.sdu_echo(my, dcid, payload)
            if e is not None:
                bad.append((f'no-data-after-refusal-dialogue/after-{last}', f'{ctx}: {e}; victim channel state {self.victim_state(cur)}'))
            else:
                r.ev('config_channels_carry_data')
        ident = atk.nid()
        atk.send_sig(0x06, ident, rf.u16(dcid) + rf.u16(my))
        s = await atk.until(lambda: atk.take_sig(lambda c, i, d: c == 0x07 and i == ident))
        if s is None:
            bad.append(('no-disconnection-response', f'{ctx}: Disconnection Request not answered'))
        return bad + await self.l2cap_echo()

    def victim_state(self, cur):
        # diagnosis only
        try:
            chans = self.env.victim.l2cap_channel_manager.channels.get(self.env.vh, {})
            ch = chans.get(cur['dcid'])
            return ch.state.name if ch is not None else 'no such channel'
        except Exception as e:      # noqa: BLE001
            return f'? ({e})'


# =============================================================================
# (c) the victim as SDP client of a hand-written SDP server
# =============================================================================
class SdpClientDriver(ChannelDriver):
    """The victim's sdp.Client talks to an SDP server played by hand. Hostile frames are responses to the request
    the victim has outstanding (same transaction ID unless the frame says otherwise): mutated responses and
    AttributeLists with structure-aware deep nesting, whole or over several continuation responses. Then the peer
    answers properly: the outstanding call must return, and a fresh search_attributes must give the record the
    peer serves."""
    psm = 1
    APIS = ('search_attributes', 'get_attributes', 'search_services')

    async def setup(self):
        from bumble import sdp
        atk = self.atk
        atk.serve(1, auto_config=True)
        self.client = sdp.Client(self.env.vconn)
        await vloop.vwait(self.client.connect(), 60)
        await atk.rg.quiesce(extra_turns=8)
        my, vcid, _psm = atk.served[-1]
        self.ch = (my, vcid)
        self.corpus = rf.sdp_client_corpus(SDP_HANDLE)
        self.max_len = 700
        self.specs = None
        self.req = None            # (pdu id, tid bytes) of the victim's outstanding request
        self.task = None
        self.answering = False
        self.split = None
        self.next_api = None
        self.requests_seen = 0
        atk.auto.append(self._on_request)

    def good_response(self, pid, tid):
        one = rf.sdp_record_attribute_list(SDP_HANDLE)
        if pid == 0x02:
            return rf.sdp_search_rsp(tid, [SDP_HANDLE])
        if pid == 0x04:
            return rf.sdp_attribute_rsp(tid, one)
        return rf.sdp_search_attribute_rsp(tid, rf.de_seq(one))

    def _on_request(self, cid, payload):
        if cid != self.ch[0] or len(payload) < 5:
            return
        self.requests_seen += 1
        self.req = (payload[0], payload[1:3])
        if self.split:
            self.serve_split()
        elif self.answering:
            self.tx_raw(self.good_response(*self.req))

    def tx_raw(self, data):
        self.atk.send(self.ch[1], data)

    def serve_split(self):
        pid, tid = self.req
        rsp = 0x05 if pid == 0x04 else 0x07
        chunk = self.split.pop(0)
        cont = b'\x02\x01' + bytes([len(self.split)]) if self.split else b'\x00'
        if not self.split:
            self.split = None
            self.env.r.ev('sdpc_split_responses_completed')
        body = rf.be16(len(chunk)) + chunk + cont
        self.tx_raw(bytes([rsp]) + tid + rf.be16(len(body)) + body)

    def gen(self, n):
        rng = self.rng
        out = super().gen(min(n, rng.choice([1, 2, 3, 5])))
        self.next_api = None
        if rng.random() < 0.4:
            if self.specs is None:
                self.specs = rf.sdp_shaped_specs()
            fr = rf.sdp_deep_responses(12000, [rng.choice(self.specs)])
            if fr:
                out[rng.randrange(len(out))] = fr[0]
        if any(k.startswith('deep') for k, _n, _d in out):
            self.next_api = rng.choice(self.APIS[:2])
        return out

    def enum_frames(self):
        yield from super().enum_frames()
        # one per round (each needs a request of its own), thinned out like the rest in the quick tier
        quick = self.env.case.get('stride', 1) > 1
        for k, n, d in rf.sdp_deep_responses(6000 if quick else 12000):
            yield 'single-' + k, n, d

    async def call(self, api):
        from bumble.core import UUID
        c = self.client
        try:
            if api == 'search_attributes':
                return 'ok', await c.search_attributes([UUID.from_16_bits(0x1101)], [(0, 0xFFFF)])
            if api == 'get_attributes':
                return 'ok', await c.get_attributes(SDP_HANDLE, [(0, 0xFFFF)])
            return 'ok', await c.search_services([UUID.from_16_bits(0x1101)])
        except asyncio.CancelledError:
            raise
        except BaseException as e:          # noqa: BLE001 — classified by the caller
            return 'exc', e

    async def before_round(self):
        if self.task is None or self.task.done():
            self.req = None
            self.split = None
            api = self.next_api or self.rng.choice(self.APIS)
            self.api = api
            self.task = asyncio.ensure_future(self.call(api))
            got = await self.atk.until(lambda: self.req)
            if got is None:
                raise HarnessError(f'the victim sent no SDP request for {api}')

    def tx(self, data):
        if self.task is not None and self.task.done():
            self.req = None       # nothing outstanding any more: what follows is unsolicited
        req = self.req
        split = data[1:3] == rf.SDP_TID_PLACEHOLDER_SPLIT
        if req is not None and len(data) >= 7 and (split or data[1:3] == rf.SDP_TID_PLACEHOLDER):
            pid, tid = req
            data = data[:1] + tid + data[3:]
            rsp = {0x02: 0x03, 0x04: 0x05, 0x06: 0x07}.get(pid, 0x07)
            nested = len(data) > 600
            if data[0] in (0x05, 0x07) and rsp in (0x05, 0x07) and (nested or self.rng.random() < 0.8):
                data = bytes([rsp]) + data[1:]          # (both responses have the same layout)
            if nested:
                self.env.r.ev('sdpc_deep_responses_sent')
                if split:
                    # the same AttributeList(s) over three continuation responses
                    n = int.from_bytes(data[5:7], 'big')
                    lists = data[7:7 + n]
                    k = max(1, len(lists) // 3)
                    self.split = [lists[:k], lists[k:2 * k], lists[2 * k:]]
                    self.serve_split()
                    return
        self.tx_raw(data)

    def judge(self, res, what, bad):
        kind, v = res
        r = self.env.r
        r.ev('sdpc_calls_completed')
        if kind == 'exc':
            if is_fatal(v):
                bad.append((f'wedge:fatal-{type(v).__name__}', f'{what} raised {type(v).__name__}: {str(v)[:120]}'))
            else:
                r.ev('sdpc_calls_ordinary_exception')
                r.add_extra_list('sdpc_exception_types', type(v).__name__)
                if type(v).__name__ == 'InvalidPacketError' and 'nesting' in str(v):
                    r.ev('sdpc_deep_responses_parsed')
        return kind, v

    async def reference(self):
        from bumble.core import UUID
        bad = []
        closed = self.channel_closed_by_victim()
        if closed:
            return closed
        # 1. the peer now answers the outstanding request properly: the call must return
        self.answering = True
        self.split = None         # (whatever was left of a response in several parts is not served any more)
        try:
            if self.task is not None and not self.task.done():
                if self.req is not None:
                    self.tx_raw(self.good_response(*self.req))
                try:
                    await vloop.vwait(asyncio.shield(self.task), 120)
                except vloop.Hang:
                    self.task.cancel()
                    self.task = None
                    return self.channel_closed_by_victim() or [
                        ('client-request-never-completes', f'victim sdp.Client.{self.api} still pending 120 virtual s after the peer '
                                                           f'answered its outstanding request {self.req and (self.req[0], self.req[1].hex())} properly')]
            if self.task is not None:
                self.judge(self.task.result(), f'sdp.Client.{self.api}', bad)
                self.task = None
            # 2. a fresh query
            self.req = None
            try:
                res = await vloop.vwait(self.call('search_attributes'), 120)
            except vloop.Hang:
                return bad + (self.channel_closed_by_victim() or [('client-request-never-completes', 'fresh search_attributes still pending after 120 virtual s')])
            kind, v = self.judge(res, 'sdp.Client.search_attributes (reference)', bad)
            if kind == 'exc':
                if not is_fatal(v):
                    bad.append(('client-request-fails-after-garbage', f'search_attributes raised {type(v).__name__}: {v} although the peer answered properly'))
            else:
                ok = False
                try:
                    ok = (len(v) == 1 and [a.id for a in v[0]] == [0, 1] and v[0][0].value.value == SDP_HANDLE and
                          v[0][1].value.value[0].value == UUID.from_16_bits(0x1101))
                except Exception:       # noqa: BLE001
                    ok = False
                if not ok:
                    bad.append(('client-wrong-result-after-garbage', f'search_attributes returned {str(v)[:200]}'))
        finally:
            self.answering = False
        return bad


# =============================================================================
# (d) stateful surfaces: one hostile-but-parseable frame changes state that only LATER well-formed traffic depends on
# =============================================================================
def _conf_rfc_option(options: bytes):
    """(mode, tx window, max transmit, retransmission timeout, monitor timeout, mps) of the Retransmission and Flow
    Control option in a Configure Request's option bytes, or None."""
    off = 0
    while off + 2 <= len(options):
        t, ln = options[off] & 0x7F, options[off + 1]
        v = options[off + 2: off + 2 + ln]
        if t == 0x04 and len(v) == 9:
            return struct.unpack('<BBBHHH', v)
        off += 2 + ln
    return None


class ErtmStateDriver(BrSigDriver):
    """An ERTM channel to the victim's echo server, spoken by a hand-written peer that keeps the true sequence state
    (rf.ErtmSeqModel). Hostile frames are S- and I-frames whose ReqSeq / TxSeq / P / F / reserved bits are set
    relative to that state (0..63 ahead of the victim's NextTxSeq, with 0..W of the victim's frames left
    unacknowledged), plus mutated corpus frames. The reference is a RUN: a poll (RR P=1 -> F=1 owed), then 72 I-frames in
    each direction - more than the sequence space - in bursts of exactly the negotiated TxWindow without any
    acknowledgment inside a burst, every echoed SDU compared, then a final poll whose ReqSeq must acknowledge all of it."""
    RUN = 72

    def __init__(self, env, rng):
        super().__init__(env, rng)
        self.corpus = rf.ertm_corpus()
        self.max_len = 300
        case = env.case
        if case['mode'] == 'enum':
            self.W = (63, 8, 3, 1, 32, 2, 63, 8)[case['part'] % 8]
        else:
            self.W = rng.choice([1, 2, 3, 8, 8, 32, 63, 63])
        self.ch = None
        self.model = None
        self.label = 'none'
        self.n = 0
        self.round = 0
        self.sdus = []              # SDUs reassembled from the victim's in-sequence I-frames
        self.partial = None
        self.final = None           # last frame of the victim with F=1
        self.sar_errors = 0
        self.atk.auto.append(self._on_pdu)

    # -- the peer's receive side --------------------------------------------------------------------
    def _on_pdu(self, cid, payload):
        if self.ch is None or cid != self.ch[0]:
            return
        m, r = self.model, self.env.r
        f = rf.ertm_parse(payload)
        if f is None:
            r.ev('ertm_victim_short_frames')
            return
        m.victim_req = f['req']
        if f['f']:
            self.final = f
        if f['t'] == 's':
            r.ev('ertm_victim_sframes')
            if f['p'] or (f['f'] and self.in_reference and not self.polling and f['s'] == 0):
                # a poll (P=1) is owed an F=1 answer. (bumble's retransmission-timer poll carries F instead of P:
                # answered the same way; it only occurs when virtual time passes while frames are unacknowledged)
                r.ev('ertm_victim_polls_answered')
                self.send_own(rf.ertm_s(0, m.rx_expected, f=1))
            return
        if f['tx'] != m.rx_expected:
            r.ev('ertm_victim_iframes_out_of_sequence')
            return
        m.rx_expected = (m.rx_expected + 1) % 64
        r.ev('ertm_victim_iframes')
        sar, p = f['sar'], f['payload']
        if sar == 0 and self.partial is None:
            self.sdus.append(bytes(p))
        elif sar == 1 and self.partial is None and len(p) >= 2:
            self.partial = [p[0] | (p[1] << 8), bytearray(p[2:])]
        elif sar in (2, 3) and self.partial is not None:
            self.partial[1] += p
            if sar == 2:
                ln, data = self.partial
                self.partial = None
                self.sdus.append(bytes(data) if ln == len(data) else b'<SDU length %d != %d>' % (ln, len(data)))
        else:
            self.sar_errors += 1
            self.sdus.append(b'<SAR sequence error: sar=%d>' % sar)

    polling = False
    in_reference = False

    def send_own(self, pdu: bytes):
        """A frame of the well-behaved side of the peer (accounted in the model like every other frame)."""
        self.model.note_sent(pdu, own=True)
        self.atk.send(self.ch[1], pdu)

    # -- channels ---------------------------------------------------------------------------------
    async def new_channel(self):
        atk = self.atk
        if self.ch is not None and self.ch[0] not in self.closed_by_victim:
            my, vcid = self.ch
            self.ch = None
            ident = atk.nid()
            atk.send_sig(0x06, ident, rf.u16(vcid) + rf.u16(my))
            s = await atk.until(lambda: atk.take_sig(lambda c, i, d: c == 0x07 and i == ident))
            if s is None:
                return [('no-disconnection-response', f'Disconnection Request for the ERTM channel {vcid:#x} not answered')]
        self.ch = None
        res = await atk.open_classic(ECHO_PSM_ERTM, ertm=True, window=self.W)
        if isinstance(res, str):
            return [('channel-open-fails-after-garbage', f'Connection Request to the ERTM echo PSM: {res}')]
        self.closed_by_victim.discard(res[0])
        opt = _conf_rfc_option(getattr(atk, 'victim_conf_options', b''))
        self.victim_window = opt[1] if opt else 1
        self.victim_mps = opt[5] if opt else 48
        self.model = rf.ErtmSeqModel(self.W, victim_mps=self.victim_mps)
        self.sdus, self.partial, self.final = [], None, None
        self.ch = res
        self.env.r.ev('ertm_channels_opened')
        return []

    async def before_round(self):
        if self.ch is None or self.ch[0] in self.closed_by_victim or self.model.undefined:
            bad = await self.new_channel()
            if bad:
                raise HarnessError(f'cannot open the ERTM target channel: {bad}')
        self.label = 'none'
        self.round += 1
        # leave 0..W (+2) echoes of well-formed SDUs unacknowledged, so that hostile acknowledgments meet a non-empty window
        k = (0, 0, 1, 2, self.W, self.W + 2, 0, 3)[self.rng.randrange(8) if self.env.case['mode'] == 'rand' else self.round % 8]
        for _ in range(min(k, 20)):
            self.n += 1
            self.send_own(rf.ertm_i(self.model.my_tx, self.model.acked) + b'C17 prime %d' % self.n)
            await self.atk.rg.quiesce(extra_turns=4)
        if self.model.outstanding():
            self.env.r.ev('ertm_rounds_with_outstanding_frames')

    # -- hostile frames ----------------------------------------------------------------------------
    def tx(self, sc):
        m = self.model
        if sc[0] == rf.ERTM_KIND_RAW:
            data = sc[1:]
            self.label = 'mutated-frame'
        else:
            self.n += 1
            self.label = rf.ertm_label(sc, self.W, m.outstanding())
            data = rf.ertm_script_bytes(sc, m, b'C17 hostile %d' % self.n)
        true_class = m.note_sent(data)
        self.env.r.ev('ertm_sent_' + true_class.split('/')[-1])
        self.atk.send(self.ch[1], data)

    def gen(self, n):
        rng, W = self.rng, self.W
        out = []
        if rng.random() < 0.2:
            for _ in range(min(n, 3)):
                k, nm, d = rf.mutate(rng, self.corpus, max_len=self.max_len)
                out.append(('raw-' + k, nm, bytes([rf.ERTM_KIND_RAW]) + d))
            return out
        kind = rng.choice([rf.ERTM_KIND_S, rf.ERTM_KIND_S, rf.ERTM_KIND_I])
        s = rng.randrange(4)
        for _ in range(rng.choice([1, 1, 2, 3])):
            off = rng.choice([0, 1, 1, W - 1, W, W, W + 1, 63, 62, 64 - W, rng.randrange(64), rng.randrange(64)]) % 64
            pf = rng.choice([(0, 0), (0, 0), (1, 0), (0, 1), (1, 1)])
            if kind == rf.ERTM_KIND_S:
                sc = rf.ertm_script(kind, s=s, req_off=off, p=pf[0], f=pf[1], rsv=rng.choice([0, 0, 0, 1, 2, 3]))
            else:
                sc = rf.ertm_script(kind, req_off=off, tx_off=rng.choice([0, 0, 0, 1, 2, W, 63, 32, rng.randrange(64)]) % 64, f=pf[1])
            out.append(('ertm-' + rf.ertm_label(sc, W, 0).replace('-reqseq', '/reqseq', 1), rf.ertm_script_name(sc), sc))
        return out

    def enum_frames(self):
        # one scripted frame per round, each followed by the whole run (thinned out in the quick tier like the rest)
        for sc in rf.ertm_enum_scripts():
            yield ('single-ertm-' + rf.ertm_label(sc, self.W, 0).replace('-reqseq', '/reqseq', 1), rf.ertm_script_name(sc), sc)

    # -- the run -------------------------------------------------------------------------------------
    async def poll(self, what):
        """RR with P=1 acknowledging everything received: the answer (any frame with F=1) is owed at once."""
        m = self.model
        self.final = None
        self.polling = True
        try:
            self.send_own(rf.ertm_s(0, m.rx_expected, p=1))
            f = await self.atk.until(lambda: self.final)
        finally:
            self.polling = False
        if f is None:
            return None, [(f'poll-unanswered/after-{self.label}',
                           f'{what}: RR P=1 ReqSeq={m.rx_expected} on the ERTM channel got no frame with F=1 {self.diag()}')]
        self.env.r.ev('ertm_polls_answered')
        return f, []

    def diag(self):
        # diagnosis only
        try:
            ch = self.env.victim.l2cap_channel_manager.channels.get(self.env.vh, {}).get(self.ch[1])
            p = ch.processor
            return (f'[victim: state {ch.state.name}, next_tx_seq={p._next_tx_seq} last_acked_tx_seq={p._last_acked_tx_seq} '
                    f'tx_window={len(p._tx_window)} pending={len(p._pending_pdus)} req_seq_num={p._req_seq_num} '
                    f'remote_busy={p._remote_is_busy} monitor={p._monitor_handle is not None}; peer: my_tx={self.model.my_tx} '
                    f'rx_expected={self.model.rx_expected} acked={self.model.acked} W={self.W}]')
        except Exception as e:      # noqa: BLE001
            return f'[victim state unavailable: {type(e).__name__}]'

    def segments(self, sdu: bytes):
        """I-frame (SAR, body) pairs for one SDU sent to the victim."""
        mps = self.victim_mps
        if len(sdu) <= mps:
            return [(0, sdu)]
        rest = sdu[mps - 2:]
        parts = [sdu[:mps - 2]] + [rest[i:i + mps] for i in range(0, len(rest), mps)]
        out = []
        for i, p in enumerate(parts):
            out.append((1, rf.u16(len(sdu)) + p) if i == 0 else ((2 if i == len(parts) - 1 else 3), p))
        return out

    async def echo_run(self):
        atk, r = self.atk, self.env.r
        m = self.model
        # 1. poll until nothing of the hostile phase is left in flight (echoes of its SDUs may still be queued
        #    behind the window: each acknowledgment lets more of them out)
        quiet = 0
        for _ in range(90):
            n0 = m.rx_expected
            f, bad = await self.poll('start of the run')
            if bad:
                return bad
            try:
                await atk.rg.quiesce(extra_turns=8)
            except vloop.Hang:
                return [('livelock', 'no quiescence after the poll')]
            # (two quiet polls in a row: bumble resumes sending after a Receiver Not Ready only on the acknowledgment
            # that follows the RR which cleared the busy condition)
            quiet = quiet + 1 if m.rx_expected == n0 else 0
            if quiet >= 2:
                break
        else:
            return [(f'echoes-never-drain/after-{self.label}', f'the victim keeps sending I-frames after 80 polls {self.diag()}')]
        behind = (m.my_tx - f['req']) % 64
        if behind > m.doubtful:
            return [(f'victim-acknowledges-wrong-sequence/after-{self.label}',
                     f'the victim answers the poll with ReqSeq={f["req"]}: the next TxSeq of the peer is {m.my_tx} and at most '
                     f'{m.doubtful} of its I-frames (in sequence, but carrying an invalid ReqSeq) may have been dropped {self.diag()}')]
        if behind:
            # the receiver dropped hostile in-sequence I-frames whose acknowledgment it refused: its answer to the poll
            # says where it is, like for any real peer
            r.ev('ertm_resynchronised_from_poll')
            m.my_tx = f['req']
        m.doubtful = 0
        if self.partial is not None:
            return [(f'victim-sdu-never-completed/after-{self.label}', f'the victim left a segmented SDU unfinished {self.diag()}')]
        # 2. sometimes: nothing happens for a while (everything is acknowledged: no timer of a correct entity is running)
        if self.rng.random() < 0.25:
            await asyncio.sleep(self.rng.choice([3.0, 15.0, 40.0]))
            r.ev('ertm_idle_gaps')
        # 3. the run: bursts of exactly the window, no acknowledgment inside a burst
        B = max(1, min(self.W, self.victim_window))
        sent = 0
        self.sdus = []
        expected = []
        k = 0
        while sent < self.RUN:
            burst = []
            frames = 0
            while frames < B and sent + frames < self.RUN:
                k += 1
                self.n += 1
                if B - frames >= 3 and k % 7 == 3:
                    sdu = (b'C17 segmented %d ' % self.n) * 40
                    sdu = sdu[:2 * self.victim_mps + 40]
                else:
                    sdu = b'C17 run %d' % self.n
                segs = self.segments(sdu)
                if frames + len(segs) > B:
                    sdu = b'C17 run %d' % self.n
                    segs = [(0, sdu)]
                burst.append((sdu, segs))
                frames += len(segs)
            for sdu, segs in burst:
                for sar, body in segs:
                    self.send_own(rf.ertm_i(m.my_tx, m.rx_expected, sar=sar) + body)
                expected.append(sdu)
            sent += frames
            got = await atk.until(lambda: True if len(self.sdus) >= len(expected) else None)
            if got is None:
                have = len(self.sdus)
                # a live peer acknowledges what it received and waits again
                for _ in range(B + 2):
                    self.send_own(rf.ertm_s(0, m.rx_expected))
                    got = await atk.until(lambda: True if len(self.sdus) >= len(expected) else None, t=1.0)
                    if got:
                        break
                symptom = 'send-window-smaller-than-negotiated' if got else 'i-frames-stop'
                return [(f'{symptom}/after-{self.label}',
                         f'{len(burst)} SDU(s) ({frames} I-frames, the negotiated TxWindow is {self.W}) sent in one burst after '
                         f'{sent - frames} I-frames of the run: {have - (len(expected) - len(burst))} echoed before any acknowledgment, '
                         f'{len(self.sdus) - (len(expected) - len(burst))} after acknowledging them one by one {self.diag()}')]
            if self.sdus[:len(expected)] != expected or len(self.sdus) != len(expected):
                i = next((i for i, (a, b) in enumerate(zip(self.sdus, expected)) if a != b), min(len(self.sdus), len(expected)))
                return [(f'wrong-echo/after-{self.label}',
                         f'SDU {i} of the run: echoed {self.sdus[i][:40] if i < len(self.sdus) else None!r} ({len(self.sdus)} SDUs) != '
                         f'{expected[i][:40] if i < len(expected) else None!r} ({len(expected)} SDUs) {self.diag()}')]
            r.ev('ertm_run_bursts')
        r.ev('ertm_run_iframes_echoed', sent)
        r.ev('ertm_run_sdus_echoed', len(expected))
        # 4. the victim's receive side: its answer to a poll acknowledges every I-frame of the run
        f, bad = await self.poll('end of the run')
        if bad:
            return bad
        if f['req'] != m.my_tx:
            return [(f'victim-acknowledges-wrong-sequence/after-{self.label}',
                     f'after the run the victim answers the poll with ReqSeq={f["req"]}, the next TxSeq of the peer is {m.my_tx} {self.diag()}')]
        r.ev('ertm_runs_completed')
        return []

    async def reference(self):
        self.in_reference = True
        try:
            return await self.reference_run()
        finally:
            self.in_reference = False

    async def reference_run(self):
        bad = await self.l2cap_echo()
        if self.ch is None or self.ch[0] in self.closed_by_victim:
            # closing the channel is what 8.6.5 tells a receiver to do on an invalid ReqSeq / TxSeq: legitimate; the next one must work
            self.env.r.ev('ertm_victim_closed_channel')
            bad += await self.new_channel()
        elif self.model.undefined:
            self.env.r.ev('ertm_channels_retired_undefined_sar')
            bad += await self.new_channel()
        if bad:
            return bad
        bad = await self.echo_run()
        if bad and self.ch is not None and self.ch[0] in self.closed_by_victim:
            # (the victim closed the channel while the run was going on: an answer to the hostile frames that came late)
            self.env.r.ev('ertm_victim_closed_channel')
            bad = await self.new_channel()
            return bad or await self.echo_run()
        return bad


class BrErtmDriver(ErtmStateDriver):
    """Arbitrary (truncated, extended, bit-flipped, spliced, random) frames on an ERTM channel, accounted by the same
    sequence model; the reference is the same run, on the same channel whenever the model can say what the frames meant
    to a correct receiver, on a fresh one otherwise."""

    def gen(self, n):
        return [(k, nm, bytes([rf.ERTM_KIND_RAW]) + d) for k, nm, d in Driver.gen(self, n)]

    def enum_frames(self):
        for k, nm, d in Driver.enum_frames(self):
            yield (k, nm, bytes([rf.ERTM_KIND_RAW]) + d)


class RfcommOpenDriver(Driver):
    """The victim is the RFCOMM INITIATOR (rfcomm.Client over an L2CAP channel it opened to a PSM 3 played by hand);
    the peer is a hand-written responder. Each round the victim calls Multiplexer.open_dlc() and the responder plays
    one scripted dialogue (rf.RFCOMM_PN_STEPS x RFCOMM_SABM_STEPS x RFCOMM_MSC_STEPS): PN accepted / changed / refused /
    unanswered, SABM answered UA / DM / DISC / nothing / frames for other DLCIs first, MSC variants; or it sends
    unsolicited frames while nothing is outstanding. Then it behaves: what it left unanswered is answered properly,
    the outstanding open_dlc() must TERMINATE (DLC or ordinary exception), and a run of fresh open / data both ways /
    close cycles on the same and on other channels, two DLCs open at once, must work."""
    CHANNELS = (1, 2, 3, 5, 9, 17, 30)

    async def setup(self):
        from bumble import rfcomm
        atk = self.atk
        atk.serve(3, auto_config=True)
        self.script = None
        self.scripted_dlci = None
        self.pending_pn = []          # (dlci, value bytes) of PN commands not answered yet
        self.pending_sabm = []        # DLCIs of SABMs not answered yet
        self.open = {}                # dlci -> {'rx': bytearray, 'credits': int}
        self.mux_closed = False
        self.closed = False
        self.task = None
        self.task_channel = None
        self.label = 'none'
        self.n = 0
        self.rch = None
        self.last_channel = self.CHANNELS[0]
        atk.auto.append(self._on_pdu)
        self.client = rfcomm.Client(self.env.vconn)
        try:
            self.mux = await vloop.vwait(self.client.start(), 60)
        except (vloop.Hang, Exception) as e:      # noqa: BLE001
            raise HarnessError(f'the victim could not start its RFCOMM client against the hand-written responder: {type(e).__name__} {e}')
        base = rf.rfcomm_corpus(self.CHANNELS[1] << 1, role_cr=0)
        self.corpus = [p for p in base if p.name.split('/')[1] in (
            'ua-unsolicited', 'dm-other-dlci', 'uih-data', 'uih-other-dlci', 'mcc-pn-rsp', 'mcc-pn-other', 'mcc-msc-cmd', 'mcc-msc-rsp',
            'mcc-msc-unknown-dlci', 'mcc-rls', 'mcc-rpn', 'mcc-test', 'mcc-nsc', 'mcc-unknown-type', 'mcc-empty', 'ua-dlci0', 'unknown-control')]

    # -- the responder -----------------------------------------------------------------------------
    def send(self, frame: bytes):
        self.atk.send(self.rch[1], frame)

    def mcc(self, t, cr, value):
        self.send(rf.rfcomm_frame(rf.UIH, 0, 0, 0, rf.rfcomm_mcc(t, cr, value)))

    def _on_pdu(self, cid, payload):
        atk = self.atk
        if cid == 1:
            if len(payload) >= 8 and payload[0] == 0x06:
                dcid, scid = struct.unpack_from('<HH', payload, 4)
                atk.send_sig(0x07, payload[1], rf.u16(dcid) + rf.u16(scid))
                if self.rch and dcid == self.rch[0]:
                    self.closed = True
            return
        if self.rch is None:
            served = getattr(atk, 'served', [])
            if not served or served[-1][2] != 3 or cid != served[-1][0]:
                return
            self.rch = (served[-1][0], served[-1][1])
        if cid != self.rch[0]:
            return
        f = rf.rfcomm_parse(payload)
        r = self.env.r
        if f is None or not f.fcs_ok:
            r.ev('rfo_victim_frames_unparseable')
            return
        r.ev('rfo_victim_frames')
        if f.dlci == 0:
            if f.ftype == rf.SABM:
                self.send(rf.rfcomm_frame(rf.UA, 1, 0, 1))
            elif f.ftype == rf.DISC:
                self.send(rf.rfcomm_frame(rf.UA, 1, 0, 1))
                self.mux_closed = True
            elif f.ftype == rf.UIH:
                m = rf.rfcomm_mcc_parse(f.info)
                if m is None:
                    return
                t, cr, v = m
                if t == rf.MCC_PN and cr == 1 and len(v) >= 8:
                    self.on_pn(v[0] & 0x3F, v)
                elif t == rf.MCC_MSC and cr == 1:
                    self.mcc(rf.MCC_MSC, 0, v)
            return
        d = f.dlci
        if f.ftype == rf.SABM:
            self.on_sabm(d)
        elif f.ftype == rf.DISC:
            self.send(rf.rfcomm_frame(rf.UA, 1, d, 1))
            self.open.pop(d, None)
        elif f.ftype == rf.UIH:
            st = self.open.setdefault(d, {'rx': bytearray(), 'credits': 0})
            info = f.info
            if f.p_f and info:
                st['credits'] += info[0]
                info = info[1:]
            st['rx'] += info

    def pn_rsp(self, dlci, v, frame_size=127, credits=7):
        self.open.setdefault(dlci, {'rx': bytearray(), 'credits': 0})['credits'] = v[7] & 7
        self.mcc(rf.MCC_PN, 0, rf.rfcomm_pn(dlci, frame_size, credits, cl=0xE0))

    def on_pn(self, dlci, v):
        sc = self.script
        if sc is None or self.scripted_dlci is not None:
            return self.pn_rsp(dlci, v)
        self.scripted_dlci = dlci
        step = rf.RFCOMM_PN_STEPS[sc[0]]
        o = self.other(dlci)
        if step == 'accept':
            self.pn_rsp(dlci, v)
        elif step == 'accept-small-frame':
            self.pn_rsp(dlci, v, frame_size=23)
        elif step == 'accept-no-credits':
            self.pn_rsp(dlci, v, credits=0)
        elif step in ('accept-other-dlci', 'accept-dlci-0'):
            # (a PN response that names another DLCI is no answer to this PN command: the command stays unanswered
            # until the responder behaves)
            self.mcc(rf.MCC_PN, 0, rf.rfcomm_pn(o if step == 'accept-other-dlci' else 0, 127, 7, cl=0xE0))
            self.pending_pn.append((dlci, v))
        elif step == 'accept-twice':
            self.pn_rsp(dlci, v)
            self.pn_rsp(dlci, v)
        elif step == 'refuse-dm':
            self.send(rf.rfcomm_frame(rf.DM, 1, dlci, 1))
        elif step == 'silent':
            self.pending_pn.append((dlci, v))
        elif step == 'dm-other-dlci-then-accept':
            self.send(rf.rfcomm_frame(rf.DM, 1, o, 1))
            self.pn_rsp(dlci, v)
        elif step == 'ua-then-accept':
            self.send(rf.rfcomm_frame(rf.UA, 1, dlci, 1))
            self.pn_rsp(dlci, v)
        elif step == 'nsc-then-accept':
            self.mcc(rf.MCC_NSC, 0, bytes([(rf.MCC_PN << 2) | 3]))
            self.pn_rsp(dlci, v)
        elif step == 'pn-command-back-then-accept':
            self.mcc(rf.MCC_PN, 1, rf.rfcomm_pn(dlci))
            self.pn_rsp(dlci, v)

    @staticmethod
    def other(dlci):
        """Another DLCI of the same direction bit, never 0."""
        return dlci + 4 if dlci + 4 <= 60 else dlci - 4

    def msc_cmd(self, dlci, fc=0, extra=b''):
        self.mcc(rf.MCC_MSC, 1, rf.rfcomm_msc(dlci, fc) + extra)

    def ua_and_msc(self, d, msc='command-and-response', cr=1):
        o = self.other(d)
        if msc == 'command-before-ua':
            self.msc_cmd(d)
        self.send(rf.rfcomm_frame(rf.UA, cr, d, 1))
        self.open.setdefault(d, {'rx': bytearray(), 'credits': 0})
        if msc == 'command-and-response':
            self.msc_cmd(d)
        elif msc == 'response-only':
            self.mcc(rf.MCC_MSC, 0, rf.rfcomm_msc(d))
        elif msc == 'other-dlci':
            self.msc_cmd(o)
        elif msc == 'with-break':
            self.msc_cmd(d, extra=b'\x13')
        elif msc == 'flow-off-then-on':
            self.msc_cmd(d, fc=1)
            self.msc_cmd(d, fc=0)
        elif msc == 'rls-rpn':
            self.mcc(rf.MCC_RLS, 1, bytes([3 | (d << 2), 0x03]))
            self.mcc(rf.MCC_RPN, 1, bytes([3 | (d << 2), 3, 3, 0, 0x11, 0x13, 0x7F, 0x3F]))
            self.msc_cmd(d)

    def on_sabm(self, d):
        sc = self.script
        if sc is None or self.sabm_done:
            return self.ua_and_msc(d)
        self.sabm_done = True
        step, msc = rf.RFCOMM_SABM_STEPS[sc[1]], rf.RFCOMM_MSC_STEPS[sc[2]]
        o = self.other(d)
        if step == 'ua':
            self.ua_and_msc(d, msc)
        elif step == 'dm':
            self.send(rf.rfcomm_frame(rf.DM, 1, d, 1))
        elif step == 'silent':
            self.pending_sabm.append(d)
        elif step == 'dm-other-dlci-then-ua':
            self.send(rf.rfcomm_frame(rf.DM, 1, o, 1))
            self.ua_and_msc(d, msc)
        elif step == 'ua-other-dlci-then-ua':
            self.send(rf.rfcomm_frame(rf.UA, 1, o, 1))
            self.ua_and_msc(d, msc)
        elif step == 'ua-twice':
            self.ua_and_msc(d, msc)
            self.send(rf.rfcomm_frame(rf.UA, 1, d, 1))
        elif step == 'dm-dlci0':
            self.send(rf.rfcomm_frame(rf.DM, 1, 0, 1))
            self.pending_sabm.append(d)
        elif step == 'disc':
            # the responder closes the DLC instead of confirming it: a terminal answer, like DM
            self.send(rf.rfcomm_frame(rf.DISC, 0, d, 1))
        elif step == 'ua-wrong-cr':
            self.ua_and_msc(d, msc, cr=0)

    sabm_done = False

    # -- rounds --------------------------------------------------------------------------------------
    async def call_open(self, channel):
        try:
            return 'ok', await self.mux.open_dlc(channel)
        except asyncio.CancelledError:
            raise
        except BaseException as e:      # noqa: BLE001 — classified by the caller
            return 'exc', e

    def keep(self, data):
        return rf.rfcomm_is_legit_state_change(data, 0) is None

    def gen(self, n):
        rng = self.rng
        if rng.random() < 0.3:
            out = []
            for _ in range(min(n, 4)):
                k, nm, d = rf.mutate(rng, self.corpus, klass=rng.choice(['valid', 'valid', 'bitflip', 'byte-set']), max_len=200)
                if self.keep(d):
                    out.append(('unsolicited-' + k, nm, b'\x01' + d))
            if out:
                return out
        pn = rng.choice(rf.RFCOMM_PN_STEPS)
        sabm = rng.choice(rf.RFCOMM_SABM_STEPS)
        msc = rng.choice(rf.RFCOMM_MSC_STEPS)
        sc = rf.rfcomm_open_script(pn, sabm, msc)
        return [(rf.rfcomm_open_label(sc), rf.rfcomm_open_script_name(sc), b'\x00' + sc)]

    def enum_frames(self):
        for sc in rf.rfcomm_open_enum_scripts():
            yield ('solo-' + rf.rfcomm_open_label(sc), rf.rfcomm_open_script_name(sc), b'\x00' + sc)
        for p in self.corpus:
            yield ('single-unsolicited-valid', p.name, b'\x01' + p.data)

    async def before_round(self):
        self.label = 'none'

    def tx(self, data):
        if data[0] == 1:
            self.label = 'unsolicited-frames'
            self.send(data[1:])
            return
        if self.task is not None and not self.task.done():
            return          # (one outstanding open at a time: the API allows no more)
        sc = data[1:]
        self.label = rf.rfcomm_open_label(sc)
        self.script, self.scripted_dlci, self.sabm_done = sc, None, False
        free = [c for c in self.CHANNELS if (c << 1) not in self.mux.dlcs]
        self.task_channel = self.rng.choice(free or list(self.CHANNELS))
        self.env.r.ev('rfo_scripted_opens')
        self.task = asyncio.ensure_future(self.call_open(self.task_channel))

    def diag(self):
        m = self.mux
        return (f'[victim multiplexer state {m.state.name}, open_pn={"set" if m.open_pn else None}, '
                f'dlcs={ {k: v.state.name for k, v in m.dlcs.items()} }]')

    async def close_dlc(self, dlc, what):
        try:
            await vloop.vwait(dlc.disconnect(), 60)
            self.env.r.ev('rfo_dlcs_closed')
            return []
        except vloop.Hang:
            return [(f'wedge:dlc-disconnect-never-completes/after-{self.label}', f'{what}: DLC.disconnect() still pending after 60 virtual s '
                                                                                f'although the responder answered the DISC {self.diag()}')]
        except Exception as e:      # noqa: BLE001
            return [(f'dlc-disconnect-fails/after-{self.label}', f'{what}: DLC.disconnect() raised {type(e).__name__}: {e} {self.diag()}')]

    async def cycle(self, channel, keep_open=False):
        """open_dlc(channel) against the well-behaved responder, data both ways, close."""
        r, atk = self.env.r, self.atk
        what = f'fresh open_dlc({channel})'
        dlci = channel << 1
        self.open.pop(dlci, None)
        try:
            dlc = await vloop.vwait(self.mux.open_dlc(channel), 60)
        except vloop.Hang:
            return None, [(f'wedge:fresh-open-never-completes/after-{self.label}',
                           f'{what} still pending after 60 virtual s although the responder answered PN and SABM {self.diag()}')]
        except Exception as e:      # noqa: BLE001
            return None, [(f'fresh-open-fails/after-{self.label}', f'{what} raised {type(e).__name__}: {e} {self.diag()}')]
        if dlc.dlci != dlci:
            return None, [(f'fresh-open-wrong-dlc/after-{self.label}', f'{what} returned {dlc}')]
        self.n += 1
        up, down = b'C17 rfo up %d' % self.n, b'C17 rfo down %d' % self.n
        got = []
        dlc.sink = lambda data: got.append(bytes(data))
        dlc.write(up)
        st = self.open.setdefault(dlci, {'rx': bytearray(), 'credits': 0})
        self.send(rf.rfcomm_frame(rf.UIH, 0, dlci, 1, down, credits=10))
        await atk.until(lambda: True if bytes(st['rx']) == up and b''.join(got) == down else None)
        if bytes(st['rx']) != up or b''.join(got) != down:
            return dlc, [(f'no-data-on-fresh-dlc/after-{self.label}',
                          f'{what}: the responder received {bytes(st["rx"])!r} (sent {up!r}), the victim received {b"".join(got)!r} '
                          f'(sent {down!r}); {dlc} {self.diag()}')]
        r.ev('rfo_cycles_data_both_ways')
        if keep_open:
            return dlc, []
        return None, await self.close_dlc(dlc, what)

    async def reference(self):
        r = self.env.r
        if self.closed:
            return [('victim-closed-the-channel', 'the victim sent a Disconnection Request for its RFCOMM channel')]
        # 1. the responder behaves from now on, and answers what it left unanswered
        self.script = None
        pn, self.pending_pn = self.pending_pn, []
        sabm, self.pending_sabm = self.pending_sabm, []
        for dlci, v in pn:
            self.pn_rsp(dlci, v)
        for d in sabm:
            self.ua_and_msc(d)
        # 2. the outstanding open_dlc() terminates
        if self.task is not None:
            task, self.task = self.task, None
            try:
                kind, v = await vloop.vwait(asyncio.shield(task), 120)
            except vloop.Hang:
                task.cancel()
                return [(f'wedge:open-dlc-never-completes/after-{self.label}',
                         f'open_dlc({self.task_channel}) still pending 120 virtual s after the responder gave a terminal answer '
                         f'(UA, DM or DISC for the DLCI) to everything the victim sent {self.diag()}')]
            r.ev('rfo_outstanding_opens_terminated')
            if kind == 'exc':
                if is_fatal(v):
                    return [(f'wedge:fatal-{type(v).__name__}', f'open_dlc raised {type(v).__name__}: {str(v)[:120]}')]
                r.ev('rfo_outstanding_opens_raised')
                r.add_extra_list('rfo_open_exception_types', type(v).__name__)
            else:
                r.ev('rfo_outstanding_opens_returned')
                if v.state.name == 'CONNECTED':
                    bad = await self.close_dlc(v, f'open_dlc({self.task_channel}) of the hostile dialogue')
                    if bad:
                        return bad
        try:
            await self.atk.rg.quiesce(extra_turns=8)
        except vloop.Hang:
            return [('livelock', 'no quiescence after the outstanding open terminated')]
        # (a DLC the responder confirmed although the victim's open_dlc() raised is closed by the responder: DISC)
        for dlci in list(self.open):
            self.send(rf.rfcomm_frame(rf.DISC, 0, dlci, 1))
            r.ev('rfo_stale_dlcs_closed_by_peer')
        self.open.clear()
        await self.atk.rg.quiesce(extra_turns=8)
        # 3. fresh cycles: the channel of the hostile dialogue again, then others, two DLCs open at once
        first = self.task_channel or self.last_channel
        others = [c for c in self.CHANNELS if c != first]
        self.rng.shuffle(others)
        held, bad = await self.cycle(first, keep_open=True)
        if bad:
            return bad
        for i, c in enumerate(others[:3]):
            _d, bad = await self.cycle(c)
            if bad:
                return bad
            if i == 0 and held is not None:
                bad = await self.close_dlc(held, f'DLC of channel {first} held open during another open')
                held = None
                if bad:
                    return bad
        _d, bad = await self.cycle(first)
        if bad:
            return bad
        if self.mux.state.name != 'CONNECTED':
            return [(f'multiplexer-state-wrong/after-{self.label}', f'after the cycles {self.diag()}')]
        self.last_channel = first
        r.ev('rfo_reference_runs_completed')
        return []


class AvdtpStateDriver(ChannelDriver):
    """The AVDTP acceptor with three local end-points. Each round the harness walks some end-points into seeded
    states with well-formed commands (idle / configured / open without and with transport channel / streaming), then
    sends 1-4 well-formed commands of every signal whose ACP SEID is ONE boundary value (0, 1, last, last+1, 0x3E,
    0x3F; with RFA bits; INT SEID 0 / 0x3F; Start/Suspend lists mixing a valid and the boundary SEID). A command
    addressed to a SEID that does not exist must never be accepted. The reference is a RUN on EVERY local end-point:
    Set_Configuration, Get_Configuration (the same bytes back), Open, transport channel, Start, a media packet
    reaching exactly that sink, Suspend, Reconfigure, Start, Close, release, Set_Configuration again, Abort, and a
    Discover listing all three."""
    psm = 0x19
    SIGNALS = (2, 3, 4, 5, 6, 7, 8, 9, 10, 11, 12, 13)
    TARGETS = ('idle', 'configured', 'open-no-transport', 'open', 'streaming')
    # The APPLICATION side of the acceptor: the end-point callback consulted for a signal, and the event its stock
    # implementation emits (None: no event). The harness plays an application that refuses ONE command: the callback
    # returns the reject message of that signal ('reject'), the callback raises ('raise'), or a listener of the event
    # raises ('listener').
    APP_HOOKS = {3: ('on_set_configuration_command', 'configuration'), 5: ('on_reconfigure_command', None),
                 6: ('on_open_command', 'open'), 7: ('on_start_command', 'start'), 8: ('on_close_command', 'close'),
                 9: ('on_suspend_command', 'suspend'), 10: ('on_abort_command', 'abort'),
                 11: ('on_security_control_command', 'security_control'), 13: ('on_delayreport_command', 'delay_report')}
    APP_MODES = ('reject', 'raise', 'listener')
    APP_ERROR = 0x29            # UNSUPPORTED_CONFIGURATION: none of the codes the stack itself answers with here
    # (state, signal) in which the state machine lets the command through to the application
    APP_LEGAL = ([('idle', 3), ('configured', 6), ('open', 5), ('open', 7), ('open', 8), ('streaming', 8), ('streaming', 9),
                  ('configured', 10), ('open-no-transport', 10), ('open', 10), ('streaming', 10)]
                 + [(t, sg) for sg in (11, 13) for t in ('idle', 'configured', 'open-no-transport', 'open', 'streaming')])

    def __init__(self, env, rng):
        super().__init__(env, rng)
        self.corpus = rf.avdtp_corpus(1)
        self.max_len = 300
        self.lbl = 0
        self.label = 'none'
        self.sent = []              # hostile commands of the round: (label, signal, seids, all valid)
        self.state = {}
        self.transport = {}
        self.rtp = {}
        self.round = 0
        self.walk_bad = []
        self.app_armed = {}         # (seid, signal) -> mode: the application refuses the next such command
        self.app_log = []           # (seid, signal, mode): refusals the application really made
        self.app_sent = {}          # transaction label -> (seid, signal, mode, target state)

    def install_application(self):
        from bumble import avdtp
        drv = self

        err = avdtp.AVDTP_UNSUPPORTED_CONFIGURATION_ERROR
        if int(err) != drv.APP_ERROR:
            raise HarnessError('AVDTP_UNSUPPORTED_CONFIGURATION_ERROR is not 0x29')

        def reject_for(signal, seid):
            if signal in (3, 5):
                cls = avdtp.Set_Configuration_Reject if signal == 3 else avdtp.Reconfigure_Reject
                return cls(service_category=avdtp.AVDTP_MEDIA_CODEC_SERVICE_CATEGORY, error_code=err)
            if signal in (7, 9):
                return (avdtp.Start_Reject if signal == 7 else avdtp.Suspend_Reject)(seid, err)
            return {6: avdtp.Open_Reject, 8: avdtp.Close_Reject, 11: avdtp.Security_Control_Reject,
                    13: avdtp.DelayReport_Reject}[signal](err)

        for ep in self.server.local_endpoints:
            for signal, (method, event) in self.APP_HOOKS.items():
                stock = getattr(ep, method)

                async def hook(*args, _stock=stock, _signal=signal, _seid=ep.seid, **kw):
                    mode = drv.app_armed.get((_seid, _signal))
                    if mode in ('reject', 'raise'):
                        del drv.app_armed[(_seid, _signal)]
                        drv.app_log.append((_seid, _signal, mode))
                        if mode == 'raise':
                            raise RuntimeError(f'C17 application: cannot handle signal {_signal} on SEID {_seid}')
                        return reject_for(_signal, _seid)
                    return await _stock(*args, **kw)
                setattr(ep, method, hook)
                if event is not None:
                    def listener(*_a, _signal=signal, _seid=ep.seid):
                        if drv.app_armed.get((_seid, _signal)) == 'listener':
                            del drv.app_armed[(_seid, _signal)]
                            drv.app_log.append((_seid, _signal, 'listener'))
                            raise RuntimeError(f'C17 application: listener fails on signal {_signal} on SEID {_seid}')
                    ep.on(event, listener)

    async def setup(self):
        await super().setup()
        await self.atk.rg.quiesce(extra_turns=8)
        if not self.env.avdtp_servers:
            raise HarnessError('no AVDTP server on the victim')
        self.server = self.env.avdtp_servers[-1]
        self.N = len(self.server.local_endpoints)
        if self.N != 3:
            raise HarnessError(f'{self.N} local end-points')
        self.bounds = rf.avdtp_boundary_seids(self.N)
        for ep in self.server.local_endpoints:
            self.state[ep.seid] = 'idle'
            self.rtp[ep.seid] = []
            ep.on(ep.EVENT_RTP_PACKET, lambda pkt, _s=ep.seid: self.rtp[_s].append(bytes(pkt.payload)))
        self.kinds = {1: (0, 1), 2: (0, 0), 3: (0, 1)}       # SEID -> (media type audio, TSEP: 1 sink / 0 source)
        self.install_application()

    # -- transactions ---------------------------------------------------------------------------
    def next_label(self):
        self.lbl = (self.lbl + 1) & 0xF
        return self.lbl

    async def transact(self, pdu: bytes, label: int):
        rx = self.rx()
        self.send_pdu(pdu)
        got = await self.atk.until(lambda: next((p for p in rx if len(p) >= 2 and p[0] >> 4 == label and p[0] & 3 != 0), None))
        if got is not None:
            rx.remove(got)
        return None if got is None else rf.avdtp_parse(got)

    async def command(self, signal, seid, what, want_payload=None, **kw):
        """A well-formed command that the specification says is accepted in the present state."""
        label = self.next_label()
        rsp = await self.transact(rf.avdtp_seid_cmd(label, signal, seid, **kw), label)
        name = rf.AVDTP_SIGNAL_NAMES[signal]
        self.env.r.ev('avs_reference_commands')
        if rsp is None:
            return self.channel_closed_by_victim() or [(f'run-{name}-unanswered/after-{self.label}',
                                                        f'{what}: {name}(SEID {seid}) got no response {self.diag()}')]
        _l, _pt, mtype, sig, payload = rsp
        if mtype != 2 or sig != signal:
            return [(f'run-{name}-refused/after-{self.label}',
                     f'{what}: {name}(SEID {seid}) answered message type {mtype} signal {sig} payload {payload.hex()} '
                     f'(0x12 bad ACP SEID, 0x13 SEP in use, 0x31 bad state) {self.diag()}')]
        if want_payload is not None and payload != want_payload:
            return [(f'run-{name}-wrong-answer/after-{self.label}', f'{what}: {name}(SEID {seid}) answered {payload.hex()} != {want_payload.hex()}')]
        self.env.r.ev('avs_reference_commands_accepted')
        return []

    def diag(self):
        try:
            return '[victim streams: ' + ', '.join(f'{ep.seid}:{ep.stream.state.name if ep.stream else None}' for ep in self.server.local_endpoints) + \
                f'; streams keys {sorted(self.server.streams)}; model {self.state}]'
        except Exception as e:      # noqa: BLE001
            return f'[victim state unavailable: {type(e).__name__}]'

    async def open_transport(self, seid, what):
        res = await self.atk.open_classic(self.psm, mtu=1024)
        if isinstance(res, str):
            return [(f'run-transport-channel-fails/after-{self.label}', f'{what}: transport channel for SEID {seid}: {res} {self.diag()}')]
        self.transport[seid] = res
        self.env.r.ev('avs_transport_channels_opened')
        return []

    async def release_transport(self, seid, what):
        if seid not in self.transport:
            return []
        my, vcid = self.transport.pop(seid)
        atk = self.atk
        ident = atk.nid()
        atk.send_sig(0x06, ident, rf.u16(vcid) + rf.u16(my))
        s = await atk.until(lambda: atk.take_sig(lambda c, i, d: c == 0x07 and i == ident))
        if s is None:
            return [('no-disconnection-response', f'{what}: Disconnection Request for the transport channel of SEID {seid} not answered')]
        return []

    def _watch(self, cid, payload):
        # (also: the victim may release a transport channel itself)
        if cid == 1 and len(payload) >= 8 and payload[0] == 0x06:
            dcid, scid = struct.unpack_from('<HH', payload, 4)
            for seid, (my, _v) in list(self.transport.items()):
                if my == dcid:
                    del self.transport[seid]
        super()._watch(cid, payload)

    # -- walking end-points into states with well-formed commands ---------------------------------------
    async def walk(self, seid, target):
        what = f'walking SEID {seid} to {target}'
        steps = {'idle': [], 'configured': [3], 'open-no-transport': [3, 6], 'open': [3, 6, 'T'], 'streaming': [3, 6, 'T', 7]}[target]
        for st in steps:
            if st == 'T':
                bad = await self.open_transport(seid, what)
            else:
                bad = await self.command(st, seid, what)
                if not bad:
                    self.state[seid] = rf.AVDTP_ON_ACCEPT[(self.state[seid], st)]
            if bad:
                return bad
        return []

    async def before_round(self):
        self.label = 'none'
        self.sent = []
        self.round += 1
        rng = self.rng
        self.walk_bad = []
        seids = list(range(1, self.N + 1))
        self.app_armed.clear()
        del self.app_log[:]
        self.app_sent = {}
        app = [d for _k, _n, d in (self.next_group or []) if d[:1] == b'\x02']
        if app:
            for _k, signal, seid, mode, target in app:
                if self.state[seid] != 'idle':
                    continue
                self.walk_bad = await self.walk(seid, self.TARGETS[target])
                self.env.r.ev(f'avs_walked_to_{self.TARGETS[target].replace("-", "_")}')
                if self.walk_bad:
                    break
            return
        for seid in (rng.sample(seids, rng.choice([1, 1, 2, 3])) if self.round > 1 else []):
            if self.state[seid] != 'idle':
                continue
            target = rng.choice(self.TARGETS)
            self.walk_bad = await self.walk(seid, target)
            self.env.r.ev(f'avs_walked_to_{target.replace("-", "_")}')
            if self.walk_bad:
                break

    # -- hostile commands -------------------------------------------------------------------------
    def script(self, signal, bound, variant, other):
        return bytes([0, signal, bound, variant, other])

    def script_name(self, sc):
        _k, signal, bound, variant, other = sc
        v = ('', ' RFA bits set', ' INT SEID 0', ' INT SEID 0x3F', ' after a valid SEID in the list', ' before a valid SEID in the list')[variant]
        return f'{rf.AVDTP_SIGNAL_NAMES[signal]}({self.bounds[bound][0]}){v}'

    def gen(self, n):
        rng = self.rng
        if rng.random() < 0.15:
            out = []
            for _ in range(min(n, 3)):
                k, nm, d = rf.mutate(rng, self.corpus, max_len=self.max_len)
                out.append(('raw-' + k, nm, b'\x01' + d))
            return out
        if rng.random() < 0.25:
            # the application refuses: 1-3 end-points, each in a seeded state, one command each (half of them commands the
            # state machine lets through to the application)
            out = []
            for seid in rng.sample(range(1, self.N + 1), rng.choice([1, 1, 2, 3])):
                target, signal = rng.choice(self.APP_LEGAL) if rng.random() < 0.6 else \
                    (rng.choice(self.TARGETS), rng.choice(sorted(self.APP_HOOKS)))
                sc = self.app_script(signal, seid, rng.randrange(3), self.TARGETS.index(target))
                out.append(('app-refuses', self.app_script_name(sc), sc))
            return out
        bound = rng.randrange(len(self.bounds))
        out = []
        for _ in range(rng.choice([1, 1, 2, 3, 4])):
            signal = rng.choice(self.SIGNALS + (3, 3, 6, 10))
            variant = rng.choice([0, 0, 0, 1, 2, 3]) if signal == 3 else rng.choice([0, 0, 1, 4, 5]) if signal in (7, 9) else rng.choice([0, 0, 1])
            sc = self.script(signal, bound, variant, rng.randrange(1, self.N + 1))
            out.append((self.bounds[bound][0], self.script_name(sc), sc))
        return out

    def app_script(self, signal, seid, mode, target):
        return bytes([2, signal, seid, mode, target])

    def app_script_name(self, sc):
        _k, signal, seid, mode, target = sc
        return (f'{rf.AVDTP_SIGNAL_NAMES[signal]}(SEID {seid}) in state {self.TARGETS[target]}, refused by the application '
                f'({self.APP_MODES[mode]})')

    def enum_frames(self):
        for b in range(len(self.bounds)):
            for signal in self.SIGNALS:
                variants = (0, 1, 2, 3) if signal == 3 else (0, 1, 4, 5) if signal in (7, 9) else (0, 1)
                for v in variants:
                    sc = self.script(signal, b, v, 1 + (signal + b) % self.N)
                    yield ('single-' + self.bounds[b][0], self.script_name(sc), sc)
        # every (state, command the state machine lets through, way the application refuses), one per round, on
        # sinks and on the source in turn (never thinned out)
        k = 0
        for target, signal in self.APP_LEGAL:
            for mode, mname in enumerate(self.APP_MODES):
                if (mname == 'listener' and self.APP_HOOKS[signal][1] is None) or (mname == 'reject' and signal == 10):
                    continue
                k += 1
                sc = self.app_script(signal, 1 + k % self.N, mode, self.TARGETS.index(target))
                yield ('solo-app-refuses', self.app_script_name(sc), sc)

    def tx(self, data):
        if data[:1] == b'\x01':
            self.label = 'mutated-frame'
            self.raw_sent = True
            return self.send_pdu(data[1:])
        if data[:1] == b'\x02':
            _k, signal, seid, mode, target = data
            mname = self.APP_MODES[mode]
            if (mname == 'listener' and self.APP_HOOKS[signal][1] is None) or (mname == 'reject' and signal == 10):
                mname = 'raise'
            self.label = f'app-{mname}-of-{rf.AVDTP_SIGNAL_NAMES[signal]}'
            label = self.next_label()
            self.app_armed[(seid, signal)] = mname
            self.app_sent[label] = (seid, signal, mname, self.TARGETS[target])
            self.sent.append((label, signal, [seid], True, self.app_script_name(data)))
            self.env.r.ev('avs_app_refusal_commands')
            return self.send_pdu(rf.avdtp_seid_cmd(label, signal, seid))
        _k, signal, bound, variant, other = data
        name, seid, valid = self.bounds[bound]
        self.label = name
        label = self.next_label()
        kw = {}
        seids = [seid]
        if variant == 1:
            kw['rfa'] = 3
        elif variant == 2:
            kw['int_seid'] = 0
        elif variant == 3:
            kw['int_seid'] = 0x3F
        elif variant == 4:
            pdu = rf.avdtp_seid_cmd(label, signal, other, more_seids=[seid])
            seids = [other, seid]
        elif variant == 5:
            kw['more_seids'] = [other]
            seids = [seid, other]
        if variant != 4:
            pdu = rf.avdtp_seid_cmd(label, signal, seid, **kw)
        self.sent.append((label, signal, seids, valid, self.script_name(data)))
        self.env.r.ev('avs_hostile_commands')
        self.env.r.ev(f'avs_hostile_{name.replace("-", "_").replace("+", "plus")}')
        self.send_pdu(pdu)

    raw_sent = False

    def send_pdu(self, pdu: bytes):
        self.atk.send(self.ch[1], pdu)

    # -- the run ------------------------------------------------------------------------------------
    def account(self):
        """What the hostile commands of the round did, from their responses: a command addressed to a SEID that
        does not exist must be rejected (Abort: rejected or unanswered, 8.15.2); a command addressed to an existing
        SEID changes the state as the specification's state machine says when (and only when) it was accepted."""
        r = self.env.r
        rx = self.rx()
        bad = []
        for label, signal, seids, valid, name in self.sent:
            got = next((p for p in rx if len(p) >= 2 and p[0] >> 4 == label and p[0] & 3 != 0), None)
            rsp = rf.avdtp_parse(got) if got is not None else None
            if got is not None:
                rx.remove(got)
            sname = rf.AVDTP_SIGNAL_NAMES[signal]
            if not valid:
                r.ev('avs_invalid_seid_commands_judged')
                r.ev('oracle_evals')
                if rsp is None:
                    if signal != 10:
                        bad.append((f'invalid-acp-seid-unanswered/{sname}/{self.label}', f'{name}: no response'))
                    continue
                if rsp[2] == 2 and signal != 10:
                    bad.append((f'invalid-acp-seid-accepted/{sname}/{self.label}',
                                f'{name}: ACCEPTED (payload {rsp[4].hex()}) although no local end-point has that SEID {self.diag()}'))
                continue
            if label in self.app_sent:
                seid, _sg, mode, target = self.app_sent[label]
                if (seid, signal, mode) in self.app_log:
                    # the application was consulted and refused: the command was not accepted, the state is unchanged
                    self.app_log.remove((seid, signal, mode))
                    r.ev('avs_app_refusals_made')
                    r.ev(f'avs_app_refusals_made_{mode}')
                    r.ev(f'avs_app_refusals_made_in_{self.state[seid].replace("-", "_")}')
                    r.ev('oracle_evals')
                    self.app_retry.append((seid, signal, mode))
                    if rsp is not None and rsp[2] == 2:
                        if signal != 10:        # (Abort has no reject: 8.15)
                            bad.append((f'app-refused-command-accepted/{sname}/{mode}',
                                        f'{name}: answered ACCEPT (payload {rsp[4].hex()}) {self.diag()}'))
                        else:
                            self.state[seid] = 'aborted'
                            self.app_retry.pop()
                    elif mode == 'reject':
                        want = bytes([7, self.APP_ERROR]) if signal in (3, 5) else bytes([seid << 2, self.APP_ERROR]) \
                            if signal in (7, 9) else bytes([self.APP_ERROR])
                        if rsp is None or rsp[2] != 3 or rsp[3] != signal or rsp[4] != want:
                            bad.append((f'app-reject-not-relayed/{sname}',
                                        f'{name}: the application returned the reject {want.hex()}, the peer got '
                                        f'{None if rsp is None else (rsp[2], rsp[3], rsp[4].hex())} {self.diag()}'))
                    continue
                r.ev('avs_app_refusals_not_reached')
            if rsp is None or rsp[2] != 2:
                r.ev('avs_valid_seid_commands_rejected')
                continue
            r.ev('avs_valid_seid_commands_accepted')
            for seid in ([s for s in seids if 1 <= s <= self.N] if signal in (7, 9) else seids[:1]):
                cur = self.state[seid]
                if signal == 10:
                    self.state[seid] = 'aborted' if cur != 'idle' else 'idle'
                elif signal in (3, 5, 6, 7, 8, 9):
                    self.state[seid] = rf.AVDTP_ON_ACCEPT.get((cur, signal), 'unknown')
        self.sent = []
        self.app_armed.clear()
        rx.clear()
        return bad

    app_retry: list = []

    async def retry_refused(self):
        """A command the application refused did not change the state: the same well-formed command, the application
        now willing, is accepted."""
        retries, self.app_retry = self.app_retry, []
        for seid, signal, mode in retries:
            st = self.state[seid]
            bad = await self.command(signal, seid, f'retry of the command the application refused ({mode}) on SEID {seid} in state {st}',
                                     want_payload=b'')
            if bad:
                return [(f'retry-after-app-{mode}-' + k[4:], d) for k, d in bad]
            self.env.r.ev('avs_app_refused_commands_retried_ok')
            if signal == 10:
                self.state[seid] = 'aborted' if st != 'idle' else 'idle'
            elif signal in (3, 5, 6, 7, 8, 9):
                self.state[seid] = rf.AVDTP_ON_ACCEPT.get((st, signal), 'unknown')
        return []

    async def normalise(self):
        """Every end-point back to idle, by the means the specification gives the initiator."""
        for seid in range(1, self.N + 1):
            st = self.state[seid]
            what = f'bringing SEID {seid} back from {st}'
            if st in ('idle',):
                continue
            if st not in ('closing', 'aborted'):
                bad = await self.command(10, seid, what, want_payload=b'')
                if bad:
                    return bad
            bad = await self.release_transport(seid, what)
            if bad:
                return bad
            self.state[seid] = 'idle'
            self.env.r.ev('avs_endpoints_normalised')
        return []

    async def run_endpoint(self, seid):
        r = self.env.r
        what = f'run on SEID {seid}'
        sink = self.kinds[seid][1] == 1
        for step in (3, 4, 6, 'T', 7, 'M', 9, 5, 7, 8, 'R', 3, 10):
            if step == 'T':
                bad = await self.open_transport(seid, what)
            elif step == 'R':
                bad = await self.release_transport(seid, what)
            elif step == 'M':
                bad = []
                if sink:
                    self.n = getattr(self, 'n', 0) + 1
                    media = b'C17 media %d' % self.n
                    before = {s: len(v) for s, v in self.rtp.items()}
                    my, vcid = self.transport[seid]
                    self.atk.send(vcid, bytes([0x80, 0x60]) + rf.be16(self.n) + struct.pack('>II', 160 * self.n, 0x1234) + media)
                    await self.atk.until(lambda: True if len(self.rtp[seid]) > before[seid] else None, t=1.0)
                    delivered = {s: v[before[s]:] for s, v in self.rtp.items()}
                    if delivered != {s: ([media] if s == seid else []) for s in self.rtp}:
                        bad = [(f'run-media-not-delivered/after-{self.label}',
                                f'{what}: a media packet on the transport channel of the streaming sink {seid} was delivered as {delivered} {self.diag()}')]
                    else:
                        r.ev('avs_media_packets_delivered')
            else:
                want = rf.AVDTP_SBC_CONFIG if step == 4 else b''
                bad = await self.command(step, seid, what, want_payload=want)
            if bad:
                return bad
        r.ev('avs_endpoint_runs_completed')
        return []

    async def discover(self):
        label = self.next_label()
        rsp = await self.transact(rf.avdtp_discover(label), label)
        if rsp is None:
            return self.channel_closed_by_victim() or [('no-answer-after-garbage', f'AVDTP Discover unanswered {self.diag()}')]
        _l, _pt, mtype, sig, payload = rsp
        want = b''.join(bytes([seid << 2, (self.kinds[seid][0] << 4) | (self.kinds[seid][1] << 3)]) for seid in range(1, self.N + 1))
        # (the in-use bit is not judged: bumble always reports 0)
        got = bytes(b & 0xFD if i % 2 == 0 else b for i, b in enumerate(payload))
        if mtype != 2 or sig != 1 or got != want:
            return [('wrong-answer-after-garbage', f'Discover response type {mtype} signal {sig} {payload.hex()} != {want.hex()}')]
        return []

    async def reference(self):
        if self.walk_bad:
            bad, self.walk_bad = self.walk_bad, []
            return bad
        closed = self.channel_closed_by_victim()
        if closed:
            return closed
        self.app_retry = []
        bad = self.account()
        if bad:
            return bad
        bad = await self.retry_refused()
        if bad:
            return bad
        if self.raw_sent:
            # (mutated frames may be valid state-changing commands the harness does not track: every end-point is
            # aborted before the run, as an initiator that lost track would)
            self.raw_sent = False
            for seid in range(1, self.N + 1):
                if self.state[seid] == 'idle':
                    self.state[seid] = 'unknown'
        bad = await self.normalise()
        if bad:
            return bad
        bad = await self.discover()
        if bad:
            return bad
        order = list(range(1, self.N + 1))
        k = self.round % self.N
        for seid in order[k:] + order[:k]:
            bad = await self.run_endpoint(seid)
            if bad:
                return bad
        self.env.r.ev('avs_reference_runs_completed')
        return []


# =============================================================================
# case runner
# =============================================================================
async def make_driver(env: Env, rng: random.Random) -> Driver:
    chan = env.chan
    if chan in LE_CHANNELS:
        central = True if chan == 'smp' else rng.random() < 0.5
        await setup_le(env, rng, central)
        d = {'att': AttDriver, 'att-client': AttClientDriver, 'smp': SmpDriver, 'le-sig': LeSigDriver,
             'le-coc': LeCocDriver, 'hci-flow': FlowDriver}.get(chan)
        drv = d(env, rng) if d else HciDriver(env, rng, classic=False)
    else:
        await setup_br(env, rng, chan)
        d = {'br-sig': BrSigDriver, 'smp-br': SmpBrDriver, 'br-dyn': BrDynDriver, 'br-ertm': BrErtmDriver, 'sdp': SdpDriver,
             'rfcomm-mux': RfcommDriver, 'rfcomm-dlc': RfcommDlcDriver, 'hfp-ag': HfpAgDriver, 'hfp-hf': HfpHfDriver,
             'avdtp': AvdtpDriver, 'avctp': AvctpDriver, 'br-config': BrConfigDriver, 'sdp-client': SdpClientDriver,
             'ertm-state': ErtmStateDriver, 'rfcomm-open': RfcommOpenDriver, 'avdtp-state': AvdtpStateDriver}.get(chan)
        drv = d(env, rng) if d else HciDriver(env, rng, classic=True)
    drv.chan = chan
    await drv.setup()
    return drv


async def after_round(env: Env, drv: Driver, frames) -> bool:
    """alive + answer clauses. Returns False when the case must stop."""
    r = env.r
    what = ', '.join(f'{k}<{n}>{d[:32].hex()}({len(d)}B)' for k, n, d in frames[:10])
    # alive
    r.ev('oracle_evals')
    r.ev('alive_checks')
    is_hci = env.chan.startswith('hci-')
    cur = env.victim.connections.get(env.vh)
    if cur is None or (not is_hci and cur is not env.vconn):
        env.bad(f'derail/{env.chan}/connection-lost',
                f'connection {env.vh:#x} {"missing from" if cur is None else "replaced in"} Device.connections after {what}; '
                f'last exceptions {env.last_exceptions}')
        return False
    # answer
    m = env.meter
    m.arm(50)
    try:
        bad = await drv.reference()
    finally:
        m.disarm()
    r.ev('references')
    r.ev(f'references_{env.chan}')
    r.ev('oracle_evals')
    if env.fatal:
        kind = env.fatal[0].split(': ')[1]
        env.bad(f'wedge/{env.chan}/fatal-{kind}', f'{env.fatal[:3]} during the reference request after {what}')
        env.fatal.clear()
        return False
    if bad:
        for symptom, detail in bad:
            key = f'wedge/{env.chan}/{symptom[6:]}' if symptom.startswith('wedge:') else f'derail/{env.chan}/{symptom}'
            env.bad(key, f'{detail} || after frames: {what} || last exceptions {env.last_exceptions}')
        return False
    r.ev('references_ok')
    return True


def nontrivial(frames, valid_set) -> bool:
    return any(d not in valid_set for _k, _n, d in frames)


async def run_case(case, r: R):
    rng = random.Random(f"{case['seed']}/{case['chan']}/{case['mode']}")
    env = Env(case, r)
    env.meter = BudgetMeter()

    def on_fatal(exc, code):
        if not env.fatal and '/bumble/' in code.co_filename:
            env.fatal.append(f'raised in {code.co_qualname}: {type(exc).__name__}: {str(exc)[:120]}')
    env.meter.on_fatal = on_fatal
    # (a HarnessError - the victim could not be brought up, or the reference fails before anything hostile
    # was sent - escapes as a harness error: inconclusive, never a verdict)
    drv = await make_driver(env, rng)
    env.meter.start()
    try:
        # the reference must work before anything hostile was sent (else the harness is wrong)
        await drv.before_round()
        pre = await drv.reference()
        if pre:
            raise HarnessError(f'reference request fails on a fresh rig: {pre}')
        valid_set = {p.data for p in drv.corpus}
        total = 0
        if case['mode'] == 'enum':
            frames = list(drv.enum_frames())
            frames = frames[case['part']::case['parts']]
            solo = [f for f in frames if f[0].startswith('solo-')]        # never thinned out, one per round
            frames = [f for f in frames if not f[0].startswith('solo-')]
            if case.get('stride', 1) > 1:
                off = case['seed'] % case['stride']
                frames = frames[off::case['stride']]
            single = [f for f in frames if f[0].startswith('single-')]    # thinned out, but one per round
            frames = [f for f in frames if not f[0].startswith('single-')]
            groups = [frames[i:i + 5] for i in range(0, len(frames), 5)] + [[f] for f in single + solo]
        else:
            groups = None
        k = 0
        while not env.dead:
            if groups is not None:
                if k >= len(groups):
                    break
                g = groups[k]
                burst = False
            else:
                if k >= case['rounds']:
                    break
                g = drv.gen(rng.randint(1, 10))
                burst = rng.random() < 0.3
            k += 1
            drv.next_group = g          # (a driver may prepare the state the group is meant for)
            await drv.before_round()
            if not await inject(env, g, drv.tx, burst=burst, phys=drv.phys):
                break
            total += len(g)
            if not await after_round(env, drv, g):
                break
            if nontrivial(g, valid_set):
                r.sig(env.chan, tuple(d for _k, _n, d in g))
            r.evals()
        # a valid Disconnection Complete is the one input after which the connection may go
        if env.chan.startswith('hci-') and not env.dead and rng.random() < 0.5:
            pkt = rf.hci_event(0x05, b'\x00' + rf.u16(env.vh) + b'\x13')
            assert rf.is_valid_disconnect_event(pkt, env.vh)
            env.rg.c2h[0].target.on_packet(pkt)
            await env.rg.quiesce(extra_turns=8)
            r.ev('legit_disconnects')
            r.check(env.vh not in env.victim.connections, f'derail/{env.chan}/valid-disconnect-ignored',
                    'Disconnection Complete (status 0) for the live handle left the connection in Device.connections')
        r.extra['max_calls_per_frame'] = 0   # summed by the parent; the list below carries the maxima
        r.add_extra_list('max_calls_per_frame_by_case', env.max_calls)
        if env.max_calls > 50000:
            r.add_extra_list('expensive_frames', f'{env.chan}: {env.max_calls} calls for {getattr(env, "max_frame", None)}')
        r.sample = {'chan': env.chan, 'mode': case['mode'], 'frames': total, 'rounds': k,
                    'max_calls_one_frame': env.max_calls, 'max_loop_iterations_one_frame': env.max_jumps,
                    'victim_exceptions': env.exc_ordinary, 'last_frame': (g[-1][0], g[-1][1], g[-1][2][:24].hex()) if k else None}
        r.sched.add(env.rg.schedule_signature)
        r.ev('channels_exercised_' + env.chan.replace('-', '_'))
    finally:
        env.meter.stop()
        t = getattr(drv, 'run_task', None)
        if t is not None and not t.done():
            t.cancel()


LEVEL_TEXT = ('Work meter (sys.monitoring PY_START/JUMP counts per injected frame, RAISE events for RecursionError/MemoryError, '
              'livelock detection of the virtual loop), fatal-escape monitor and alive/answer oracle on a real victim device, over '
              '~1.9x10^4 (quick) / ~10^6 (thorough) hostile frames on 24 input surfaces (ATT server and client side, SMP LE and '
              'BR/EDR, LE and BR/EDR signalling, credit-based, basic and ERTM dynamic channels, SDP server and SDP client, RFCOMM mux '
              'and DLC, HFP AG and HF AT streams, AVDTP, AVCTP/AVRCP, HCI events/ACL/SCO/ISO into the host on LE and BR/EDR links, HCI '
              'command flow control played by a hand-written controller, BR/EDR configuration refusal dialogues): every truncation '
              'length and every length-field setting of ~530 hand-written valid PDUs is enumerated (every third one per seed in the '
              'quick tier), the rest is seeded structure-aware mutation in rounds of 1-10 frames, each round followed by a reference '
              'request whose expected answer is written down from the specification (~4x10^3 quick / ~2x10^5 thorough reference '
              'evaluations). Command flow control: all 768 combinations of closing response / re-opening event / timing / repetition / '
              'interleaving / waiting commands plus seeded histories, every command must complete in bounded virtual time. '
              'Configuration dialogues: all 68 refusable option encodings (unknown, hint, unimplemented) as first request of a fresh '
              'channel in two framings, then the well-formed retry, data both ways. Structure-aware nesting: 756 shapes (siblings '
              'before/after x SEQUENCE/ALTERNATIVE pattern x sibling type x depth 30..2000) into the SDP server and the SDP client. '
              'Stateful attacks on three more surfaces (ERTM sequence state against a hand-written peer that keeps the true '
              'sequence variables; the RFCOMM initiator against a hand-written responder playing every step of open_dlc() in every '
              'way; the AVDTP acceptor with three end-points in seeded states and commands on boundary SEIDs): ~700 + ~115 + ~190 '
              'enumerated hostile frames / dialogues plus seeded rounds, each followed by a RUN instead of one request: 72 I-frames '
              'each way in bursts of exactly the TxWindow (~2.5x10^4 echoed I-frames quick), five RFCOMM open / data / close '
              'cycles (~10^3 quick), the whole configure-open-start-suspend-reconfigure-close-abort cycle on every end-point '
              '(~5x10^3 accepted commands quick); on the AVDTP acceptor also every (state, command, way the APPLICATION refuses it: reject / '
              'callback raises / listener raises), retried at once. '
              'Sampling of the byte-string / history space, not proof.')
LEVEL_NOTE = ('Trusted: the hand-written corpora, builders and reference parsers in vlib/ref_fuzz.py, the hand-driven L2CAP/'
              'RFCOMM/AT attacker in checks/c17.py, rig taps, the virtual-time loop, CPython sys.monitoring. A busy loop that '
              'makes no Python call and no backward jump inside bumble code would only show as a wall-clock watchdog '
              '(inconclusive).')
TECHNIQUE = 'runtime monitoring: fuzzing with structure-aware mutation under a work meter, liveness + reference-answer oracle'
